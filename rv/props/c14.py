"""C14 CIF output is valid CIF 1.1 and parses back to exactly what was supplied.

Three monitors, all judging what the *real* writer produced:

* token monitor on every return of ``_format_value``: the token, framed as
  ``"_t " + token + "\\n"`` (``"_t\\n" + token + "\\n"`` when it starts with ``;``, i.e. can
  only be meant as a text field), must lex to exactly one value which equals the
  supplied one (strings up to surrounding blanks, numbers to printed precision);
* comment monitor on every return of ``_write_comment``: the fragment written must
  lex to comments only and be ASCII;
* document monitor on everything written through ``save_cif`` / ``CIF.save`` /
  ``Block.write``: the text is ASCII, parses with the independent CIF 1.1 parser
  (rv/oracle/cif11.py) and yields the supplied tags, order, loop shapes and values;
  ``_su`` columns equal sqrt(variance); every ``audit_author_role.id`` occurs exactly
  once among the author ids and carries the role of that author.  The document of a call
  into an open handle is the text between the positions of the handle before and after
  the call; the rest of the handle (earlier documents, the caller's own text) must be
  left untouched, and a handle that only grew is also judged on its whole text: the
  blocks of all calls, in order.

Expected values come from this module's own model of what was supplied; nothing
here calls scippneutron to compute an expectation.
"""

from __future__ import annotations

import collections
import copy as _copy
import datetime as _dt
import enum
import io
import itertools
import math
import os
import pathlib
import pickle
import re
import shutil
import tempfile
import types
import unicodedata
import warnings

import numpy as np
import scipp as sc

from rv.oracle import cif11
from rv.trace import Tracer

ID = 'C14'
LEVEL = 'exploration'
RULE = (
    'cases = one document written by the real writer: (a) atom documents, one hostile string per '
    'forced class (every leading printable ASCII character, embedded blank/tab/newline/quotes, quote '
    'followed by blank, "\\n;" inside, reserved words in all cases, ? and ., empty, non-ASCII) as the '
    'only value of a chunk or of a loop; (b) low-level documents of 1-2 blocks with random chunks and '
    'loops (1..50 rows x 1..6 columns; str/int/float64/float32 with and without variances; multi-line '
    'values; comments with hostile content) written through save_cif (buffer and path) or Block.write; '
    '(c) builder programs = random sequences of 0..8 calls: with_authors (0..5 persons) and with_reducers '
    '(0..3) any number of times, with_beamline, with_reduced_powder_data (intensity units incl. those scipp '
    'spells with non-ASCII characters: counts/angstrom, angstrom, us, um, degC, uA*h ...), '
    'with_powder_calibration at most once (they define fixed tags); repeated items are drawn again from '
    'what the program already used with probability 0.1-0.4, so that exactly equal reducers, persons, names, '
    'roles and whole calls with equal arguments occur and are expected in the file as often as supplied; side '
    'branches (a with_* result that is thrown away) must not show up; saved through CIF.save (buffer, path, '
    'twice) / save_cif; (d) forced documents, one per class: every public way of supplying a comment or a name '
    '(constructor keyword, property assignment before and after the object is part of a block / at the end of '
    'the builder chain, Chunk(None)+item assignment, Block.add(mapping | pairs, comment=), with_*(comment=), '
    'save_cif(comment=)) with three non-ASCII comments, every intensity unit of the pool on both axes, every '
    'duplicate pattern (same call, across calls, call repeated, non-adjacent, equal persons / roles / names, '
    'equal loop rows, equal chunk values), every way of saving a builder.  In (b) the pairs, columns, comments '
    'and names reach the objects through a randomly chosen one of these ways, a quarter of the columns draw '
    'their cells from 1..3 values, units of numeric values are drawn from a pool with non-ASCII spellings.  '
    '(e) call sequences: 1..4 calls (save_cif with a block / an iterable of blocks / a builder, CIF.save, '
    'Block.write, the same objects again) into ONE open handle with the caller writing his own text before and '
    'between them; handles: StringIO fresh / with initial text / written into by the caller, standing at the end, at '
    '0 or in the middle of older text, a StringIO subclass overriding write, real text files opened w / a / r+ / w+ and '
    'a write-only object (for Block.write); every call is judged on the text between the handle positions before '
    'and after it (everything else in the handle must be untouched), a handle that only grew also on its whole text '
    '(all blocks of all calls, in order).  (f) save_cif(content=) in every form of an iterable of blocks: list, '
    'tuple, generator expression / function, map, filter, iter(), reversed(), dict views, dict, deque, itertools, '
    'numpy object array, user iterable, user one-shot iterator, set of one; positional / keyword / mixed calls; '
    'targets str, Path, PurePosixPath, os.PathLike object, paths that exist with longer / shorter content.  '
    '(g) forced scenarios: metadata strings given as scalar scipp variables / numpy strings / duck-typed stand-ins, '
    'np.str_ / StrEnum / IntEnum / small and unsigned numpy integers as values, names, tags and comments; masks and '
    'bystander coordinates on the reduced data and the calibration; caller dims named like the dims the writer uses '
    'itself; schema= in every form; subclasses overriding write; Mapping / Iterable forms of chunk pairs, loop '
    'columns and block content incl. one-shot ones; the same objects saved again, saved after a refused save, after '
    'repr / == / copy / deepcopy / pickle; refusal paths (block names with blanks, loop columns that are not 1-d or '
    'of another length, metadata variables with a unit) followed by a normal use; 600-point reduced data.  '
    '(h) strings that are not in Unicode normal form NFC / NFKC (letter + combining marks, marks in non-canonical '
    'order, ANGSTROM / KELVIN / OHM / MICRO SIGN, fullwidth forms, ligatures, conjoining jamo, GREEK QUESTION MARK, '
    'compatibility ideographs, superscripts; also leading, quoted, multi-line) as chunk values, loop cells, block '
    'names (every way of naming), comments (every way of commenting) and every free-text string of the builder: an '
    'escape must denote exactly the supplied code point.  (i) path targets in their file-system forms for save_cif(Block) / '
    'CIF.save / save_cif(CIF): symlink (absolute, relative, dangling, chain) given as str / Path / PathLike, either of two '
    'hard-linked names, <symlinked dir>/../name with a decoy file, the same relative name from two working directories, a '
    'target a reader holds open, a 255-byte name, an existing file with mode 0640; afterwards the file the name DENOTED '
    '(os.path.realpath taken before the call; the other hard link; the descriptor opened earlier) is read and judged like '
    'any document, links are still the same links, the decoy is untouched; BytesIO targets (refused with TypeError on the '
    'unchanged tree: counted).  (j) the same objects saved again after in-place modification (column values, variances, a '
    'string cell, a slice, scalar variables, arithmetic in place, setitem / add / rename, a replaced column; a data array '
    'modified between two with_reduced_powder_data calls); results of with_* / copy() / Block.copy() written into and the '
    'objects they were made from saved again, arguments written into after with_* and the earlier builder saved again.  '
    '(k) the first call (save_cif, Block.write, CIF.save of a full builder chain) of a fresh interpreter that imported only '
    'scipp and scippneutron.io.cif: its text is judged like any document and compared with the text this process writes.  '
    '(l) sizes coinciding with internal ones: 0..3 contact x regular authors and reducers (pair versus loop), calibrations of '
    '1, 3, 4, 5, 6 powers (4 standard ids), loops of 1..3 rows x 1..4 columns on the dim of the schema loop, block codes of 1, '
    '2, 74, 75, 76 characters.  '
    '(m) forked builder chains: per combinator (with_authors, with_reducers, with_beamline, with_reduced_powder_data, '
    'with_powder_calibration) a tree of 13 builders - the call once, twice and three times along a chain (directly and with '
    'another call in between), twice on two branches from one parent and from the root, repeated with equal arguments, next '
    'to every other combinator on sibling branches; every builder saved once, only after all relatives were derived, in '
    'derivation / reverse / shuffled order and the parent with two children in all 6 orders (fresh tree per order): judged '
    'against the calls on the builder\'s own path (fixed tags supplied twice by the caller: user content item by item in '
    'call order) and text-equal, up to the creation date, to an identically constructed builder without relatives.  '
    '(n) tags from the whole CIF 1.1 data-name alphabet: every printable ASCII character 33..126 leading, inside category and '
    'item name, trailing and alone, plus names of the official dictionaries with / % ( ) ^ \' : + * & < > { , } = | ~ ? ! @ ` '
    '\\ ", as Chunk keys (mapping, item assignment), dicts given to Block / Block.add, Loop columns (mapping, item '
    'assignment); the objects are made inside the judged call, the tags must read back exactly.  '
    'A case is trivial when all its strings are plain alphanumeric; distinct = distinct '
    '(document kind, way of saving, value/hostility classes present, shape band, ways used, form of the content, '
    'calling convention, kind of target / handle and position in the call sequence) signatures'
)
ASSUMPTIONS = [
    'the CIF 1.1 grammar as implemented in rv/oracle/cif11.py (strict reading: an unquoted string may '
    'not begin with any of the five reserved words; a data_ heading needs a block code)',
    'scipp value(su) formatting (:c) and stddevs are the trusted base; value(su) tokens are judged to '
    'half a unit of the last printed digit',
    'strings stay below 200 characters: the 2048-character line limit is not asserted',
    'tags and block names supplied by the workload are themselves legal (no blanks); duplicate tags '
    'are never supplied (hence with_beamline / with_reduced_powder_data / with_powder_calibration at most '
    'once per program; the forked-chain class (m) applies them twice on purpose and judges those documents on the user '
    'content in call order and against the unshared builder only); duplicate VALUES are supplied and must all be written',
    'a builder is a value: with_* / copy() leave the builder they are called on and all its other descendants unchanged, '
    'and the first save of a builder gives the text of the first save of an identically constructed builder (same ids)',
    'a data name is an underscore followed by any non-blank printable ASCII characters (CIF 1.1 <Tag>); the unchanged tree '
    'accepts all of them in every position - an exception for such a tag is a refusal to write a legal document',
    'the text of comments is not compared with what was supplied (the property only asks that comments are '
    'ASCII and lex to comments only)',
    'an open handle belongs to the caller: a call writes at the position the handle stands at (file semantics); '
    'text in front of that position and behind the written fragment is the caller\'s and must not change',
    'save_cif / CIF.save refuse real file objects on the unchanged tree (TypeError from io/_files.open_or_pass, '
    'recorded in DESIGN.md as outside the listed properties): counted as a refusal; real files are driven '
    'through Block.write',
    'masks and bystander coordinates of the reduced data / calibration do not remove supplied values: every point '
    'is expected in the file',
    'a refused call leaves the document unchanged: after an assignment to Block.name / CIF.name refused with '
    'ValueError the object keeps the block code it had (violations of this: kind doc_after_refused_name)',
    'refusals the unchanged tree gives (ValueError for a block name with blanks, DimensionError for loop columns '
    'that are not 1-d or do not match, ValidationError for metadata variables with a unit / dims) are counted, not '
    'demanded; when such an input is accepted instead the written document is judged like any other',
    'Block.copy() of a block without schema lists coreCIF in an audit_conform loop (unchanged tree): treated as '
    'generated content',
    'an escape of a non-ASCII character is recognised in the notations \\xHH \\uHHHH \\UHHHHHHHH \\u{H} &#D; &#xH; '
    '\\N{NAME} and must then denote exactly the supplied code point; an escape in any other notation must contain the '
    'code point number (hex or decimal) or its Unicode name; canonically / compatibility-equivalent code points are '
    'other strings',
    'the e-mail address of a Person is a validated entity (pydantic EmailStr normalises internationalised addresses), '
    'not free text: only ASCII addresses are supplied',
    'a path target denotes the file os.path.realpath gives for it at the time of the call; replacing the directory '
    'entry instead of writing into that file is only noticed (and judged) where the difference is observable: links, '
    'second hard links, descriptors opened earlier',
    'Chunk / Loop / Block hold the objects they were given (no copies on the unchanged tree): an object modified in '
    'place between two saves is written with the contents it has at the time of the save; the builder\'s '
    'with_reduced_powder_data / with_powder_calibration take values and variances as they are when they are called '
    '(the power coordinate of a calibration is kept by reference on the unchanged tree: counted, not judged)',
]
TECHNIQUE = ('runtime monitors (sys.monitoring) on _format_value, _write_comment and on every document '
             'written by save_cif / CIF.save / Block.write; independent CIF 1.1 lexer/parser as decoder')
LEVEL_TEXT = ('exploration: every token and every document the real writer produced for hostile generated '
              'content is decoded by an independent CIF 1.1 parser and compared with the supplied structure. '
              'Sampling of an infinite input space: held on the decided executions reported, not a proof.')
LEVEL_NOTE = ('trusted: rv/oracle/cif11.py (self-tested against its accept/reject table on every run), '
              'scipp containers, scipp compact formatting, numpy sqrt')
DESIGN_REF = 'DESIGN.md section 4, C14; section 6 item 8'
TIMEOUT_S = {'quick': 600, 'thorough': 4 * 3600}

BLANKS = ' \t\n\r'
MAGIC = '#\\#CIF_1.1\n'
RESERVED = ('data_', 'loop_', 'global_', 'save_', 'stop_')
EPS = float(np.finfo(np.float64).eps)


# ======================================================================
# expected values (this module's model of what was supplied)
# ======================================================================
# Notations for "this code point" that are recognised as escapes.  The property asks for "escaped to
# ASCII" and for strings that are *recovered*: whatever notation the writer uses, the escape must
# identify the code point that was supplied - a canonically or compatibility-equivalent code point
# (U+00C5 for U+212B, 'K' for U+212A, ';' for U+037E, a composed letter for letter + combining mark)
# is another string.
_ESC_NOTATIONS = re.compile(
    r'\\x([0-9a-fA-F]{2})|\\u([0-9a-fA-F]{4})|\\U([0-9a-fA-F]{8})|\\u\{([0-9a-fA-F]{1,8})\}'
    r'|&#x([0-9a-fA-F]{1,8});|&#([0-9]{1,8});|\\N\{([^}\n]{1,100})\}')
_MAX_ESCAPE = 40


def _denoted(m):
    """Code point a match of ``_ESC_NOTATIONS`` stands for (None: no such character)."""
    g = m.groups()
    try:
        if g[6] is not None:
            return ord(unicodedata.lookup(g[6]))
        if g[5] is not None:
            return int(g[5])
        return int(next(h for h in g[:5] if h is not None), 16)
    except (KeyError, ValueError):
        return None


def _carries(cp: int, esc: str) -> bool:
    """An escape in a notation not listed above still has to name the code point: by its number
    (hex or decimal) or by its Unicode name."""
    low = esc.lower()
    if format(cp, 'x') in low or str(cp) in low:
        return True
    try:
        return unicodedata.name(chr(cp)).lower() in low
    except ValueError:
        return False


def str_mismatch(supplied: str, text: str):
    """None when ``text`` (as parsed from the file) is the supplied string up to surrounding
    blanks, with every non-ASCII character replaced by an ASCII escape that denotes exactly that
    code point; else a short reason."""
    want = supplied.strip(BLANKS)
    got = text.strip(BLANKS)
    if want.isascii():
        return None if got == want else 'differs'
    if not got.isascii():
        return 'not ASCII'
    # positions in ``got`` reachable after the first i characters of ``want``
    reach = {0}
    detail = None
    for ch in want:
        nxt = set()
        cp = ord(ch)
        for pos in reach:
            if cp < 128:
                if got[pos:pos + 1] == ch:
                    nxt.add(pos + 1)
                continue
            m = _ESC_NOTATIONS.match(got, pos)
            if m is not None:
                d = _denoted(m)
                if d == cp:
                    nxt.add(m.end())
                elif detail is None:
                    detail = (f'escape {m.group(0)} denotes ' + (f'U+{d:04X}' if d is not None else 'no character')
                              + f', supplied U+{cp:04X}')
                continue
            for end in range(pos + 1, min(len(got), pos + _MAX_ESCAPE) + 1):
                if not '!' <= got[end - 1] <= '~':
                    break
                if _carries(cp, got[pos:end]):
                    nxt.add(end)
        if not nxt:
            if cp < 128:
                return detail or f'the supplied character {ch!r} is missing where it is due'
            return detail or f'no escape that denotes U+{cp:04X} where one is due'
        reach = nxt
    return None if len(got) in reach else (detail or 'differs behind the last non-ASCII character')


def str_matches(supplied: str, text: str) -> bool:
    return str_mismatch(supplied, text) is None


def _decimals_and_unit(num: str, su: str):
    """Unit of the last printed digit of value and su in value(su) notation."""
    mant, _, exp = num.lower().partition('e')
    e = int(exp) if exp else 0
    d = len(mant.partition('.')[2])
    if d > 0:
        u = 10.0 ** (e - d)
        return u, int(su) * u
    # no decimals: the value was rounded to a power of ten that is at most the leading
    # digit of the su.  When the su is printed as one or two digits and zeros, the zeros
    # bound the rounding unit; for large magnitudes scipp prints the binary expansion of
    # the rounded float ("3399999999999999513460736(599999999999999949668352)") and only
    # the magnitude of the su is meaningful.
    n = int(su)
    if n == 0:
        return 10.0 ** e, 0.0
    digits = str(n)
    if len(digits.rstrip('0')) <= 2:
        tz = len(digits) - len(digits.rstrip('0'))
    else:
        tz = len(digits) - 1
    return 10.0 ** (e + tz), float(n) * 10.0 ** e


def match_value(ev, val: cif11.Value, env=None):
    """None if the parsed value is what was supplied, else a short reason."""
    k = ev[0]
    text = val.text
    if k == 'str':
        why = str_mismatch(ev[1], text)
        if why is None:
            return None
        return f'string {_short(ev[1])} read back as {_short(text)}' + ('' if why == 'differs' else f' ({why})')
    if k == 'any':
        return None
    if k in ('nonblank', 'unique'):   # 'unique': distinctness is judged per column
        return None if text.strip(BLANKS) else 'empty value'
    if k == 'oneof':
        return None if text.strip(BLANKS) in ev[1] else f'{_short(text)} not one of {sorted(ev[1])}'
    if k == 'orcid':
        return None if text.strip(BLANKS) in (ev[1], 'https://orcid.org/' + ev[1]) else \
            f'ORCID iD {ev[1]} read back as {_short(text)}'
    if k == 'now':
        try:
            t = _dt.datetime.fromisoformat(text.strip(BLANKS))
        except ValueError:
            return f'creation date {_short(text)} is not an ISO date'
        if t.tzinfo is None:
            return None
        lo, hi = env['t0'] - _dt.timedelta(seconds=2), env['t1'] + _dt.timedelta(seconds=2)
        return None if lo <= t <= hi else f'creation date {text} outside the time of the call'
    # numbers: must come back as an unquoted <Numeric>
    if val.form != 'unquoted':
        return f'number written as a {val.form}-quoted string {_short(text)}'
    nm = cif11.numeric(text)
    if nm is None:
        return f'number read back as non-numeric {_short(text)}'
    num, su = nm
    if k == 'int':
        if su is not None or not re.fullmatch(r'[+-]?[0-9]+', num):
            return f'integer {ev[1]} written as {text}'
        return None if int(num) == ev[1] else f'integer {ev[1]} read back as {num}'
    if k in ('f64', 'f32', 'su'):
        if su is not None:
            return f'plain number written with an su: {text}'
        if k == 'su':
            var, f32 = ev[1], ev[2]
            want = np.sqrt(np.float32(var)) if f32 else np.sqrt(np.float64(var))
        else:
            f32 = k == 'f32'
            want = np.float32(ev[1]) if f32 else np.float64(ev[1])
        got = np.float32(float(num)) if f32 else np.float64(float(num))
        if got == want:
            return None
        what = 'sqrt(variance)' if k == 'su' else 'value'
        return f'{what} {want!r} read back as {num}'
    if k == 'fvar':
        x, var, f32 = float(ev[1]), float(ev[2]), ev[3]
        if var == 0.0:
            if su is None or int(su) == 0:
                got = np.float32(float(num)) if f32 else float(num)
                return None if got == (np.float32(x) if f32 else x) else \
                    f'value {x!r} (variance 0) read back as {num}'
        if su is None:
            return f'value with variance written without su: {text}'
        sigma = math.sqrt(var)
        u, su_abs = _decimals_and_unit(num, su)
        tol_v = 0.5 * u * (1 + 1e-9) + 16 * EPS * abs(x) + (5e-7 * abs(x) if f32 else 0.0)
        tol_s = 0.5 * u * (1 + 1e-9) + 16 * EPS * sigma + (1e-6 * sigma if f32 else 0.0)
        if abs(float(num) - x) > tol_v:
            return f'value {x!r} does not agree with {text} to the printed digits'
        if abs(su_abs - sigma) > tol_s:
            return f'su {sigma!r} does not agree with {text} to the printed digits'
        return None
    return f'unmodelled expectation {k}'


def _short(s, n=60):
    s = ascii(s) if isinstance(s, str) and not s.isascii() else repr(s)
    return s if len(s) <= n else s[:n] + '...'


def model_of(value):
    """Expectation for an arbitrary object handed to ``_format_value`` (None: unmodelled)."""
    if isinstance(value, str):
        return ('str', str(value))
    if isinstance(value, bool | np.bool_):
        return None
    if isinstance(value, int | np.integer):
        return ('int', int(value))
    if isinstance(value, np.float32):
        return ('f32', float(value))
    if isinstance(value, float | np.floating):
        return ('f64', float(value))
    if isinstance(value, _dt.datetime):
        return ('str', value.isoformat())
    if isinstance(value, sc.Variable) and value.ndim == 0:
        dt = value.dtype
        if dt == sc.DType.string:
            return ('str', value.value)
        if dt in (sc.DType.int64, sc.DType.int32):
            return ('int', int(value.value))
        if dt == sc.DType.PyObject and isinstance(value.value, str):
            return ('str', value.value)
        if dt in (sc.DType.float64, sc.DType.float32):
            f32 = dt == sc.DType.float32
            if value.variance is not None:
                return ('fvar', float(value.value), float(value.variance), f32)
            return ('f32' if f32 else 'f64', float(value.value))
    return None


# ======================================================================
# mechanism facts (keys of violations; what known-finding predicates look at)
# ======================================================================
def token_mechanism(tok: str):
    t0 = tok[:1]
    if t0 == ';':
        if tok.endswith('\n;') and len(tok) >= 3:
            if '\n;' in tok[1:-2]:
                return 'text_field_line_starts_with_semicolon', {}
            return 'text_field_other', {}
        return 'unquoted_leading_reserved_char', {'char': ';'}
    if t0 in ('"', "'"):
        return 'quoted_string_broken', {'quote': t0}
    if tok == '':
        return 'empty_token', {}
    if not tok.isascii():
        return 'non_ascii_not_escaped', {}
    if t0 in '_#$[]':
        return 'unquoted_leading_reserved_char', {'char': t0}
    low = tok.lower()
    for w in RESERVED:
        if low.startswith(w):
            return 'unquoted_reserved_word', {'word': w, 'exact': low == w}
    for ch, name in ((' ', 'blank'), ('\t', 'tab'), ('\n', 'newline'), ('\r', 'cr')):
        if ch in tok:
            return 'unquoted_embedded_whitespace', {'char': name}
    return 'unquoted_other', {}


EV_NAMES = {'str': 'string', 'int': 'integer', 'f64': 'double', 'f32': 'single', 'fvar': 'value_su',
            'su': 'su_column'}
QUOTING_MECHS = {'unquoted_leading_reserved_char', 'unquoted_reserved_word',
                 'unquoted_embedded_whitespace'}
TEXTFIELD_MECH = 'text_field_line_starts_with_semicolon'
COMMENT_MECH = 'non_ascii_file_comment'
EMPTY_CODE_MECH = 'empty_block_code'


def _mech(v):
    return (v.get('keys') or {}).get('mechanism')


def _is_c14(v):
    return v.get('kind', '').startswith(('token_', 'doc_', 'comment_'))


FINDING_PREDICATES = {
    # _quotes_for_string_value leaves strings unquoted that CIF 1.1 does not allow unquoted
    'cif.quoting.unquoted_special': lambda v: _is_c14(v) and _mech(v) in QUOTING_MECHS,
    # a multi-line value with a line starting with ';' closes its own text field
    'cif.textfield.line_starts_with_semicolon': lambda v: _is_c14(v) and _mech(v) == TEXTFIELD_MECH,
    # save_cif(file, Block | blocks, comment=...) writes the comment without ASCII escaping
    'cif.comment.file_comment_not_escaped': lambda v: _is_c14(v) and _mech(v) == COMMENT_MECH,
    # Block / CIF with the default empty name write "data_" without a block code
    'cif.block.empty_block_code': lambda v: _is_c14(v) and _mech(v) == EMPTY_CODE_MECH,
}


# ======================================================================
# hostile strings
# ======================================================================
def _cname(c):
    names = {' ': 'blank', "'": 'squote', '"': 'dquote', '\\': 'backslash', '#': 'hash',
             '_': 'underscore', '$': 'dollar', ';': 'semicolon', '[': 'lbracket', ']': 'rbracket'}
    return names.get(c, c)


# Printable text that is not in Unicode normal form NFC and / or NFKC (what macOS file dialogs, many
# keyboards and instrument software produce): every character is its own code point and comes back as
# that code point - text that merely normalises to the same letters is another string.
NON_NORMALISED = (
    ('combining_acute', 'Jose\u0301'), ('combining_ring_diaeresis', 'A\u030angstro\u0308m'),
    ('combining_with_blank', 'Jose\u0301 Garci\u0301a'), ('marks_in_non_canonical_order', 'a\u0301\u0323'),
    ('angstrom_sign', '1.54\u212b'), ('kelvin_sign', '293\u212a'), ('ohm_sign', '50\u2126'),
    ('micro_sign', '5\xb5s'), ('fullwidth', '\uff21\uff42\uff11'), ('ligature', 'e\ufb03cient'),
    ('conjoining_jamo', '\u1112\u1161\u11ab'), ('greek_question_mark', 'why\u037e'),
    ('lead_greek_question_mark', '\u037ewhy'), ('lead_fullwidth_underscore', '\uff3ftag'),
    ('lead_fullwidth_hash', '\uff03c'), ('fullwidth_reserved_word', '\uff44ata_x'),
    ('compatibility_ideograph', '\uf900\uf901'), ('superscripts', 'm\xb2s\u207b\xb9'),
    ('roman_numeral', 'phase_\u2163'), ('quotes_and_signs', "l'\u212b \"\u212a\""),
    ('multiline', 'Jose\u0301\n\u212b \u037e'),
)


def forced_strings():
    out = []
    for o in range(32, 127):
        c = chr(o)
        out.append((f'lead:{_cname(c)}', c + 'x1'))
    for o in range(33, 127):
        c = chr(o)
        if not c.isalnum():
            out.append((f'single:{_cname(c)}', c))
    out += [
        ('embed:blank', 'a b'), ('embed:tab', 'a\tb'), ('embed:newline', 'a\nb'),
        ('embed:squote', "a'b"), ('embed:dquote', 'a"b'), ('embed:both_quotes', 'a\'b"c'),
        ('embed:squote_blank', "a' b"), ('embed:dquote_blank', 'a" b'),
        ('embed:both_quotes_blank', 'a\' b" c'), ('embed:squote_tab', "a'\tb"),
        ('embed:dquote_tab', 'a"\tb'), ('embed:both_quotes_tab', 'a\'\tb"\tc'),
        ('embed:blank_tab', 'a b\tc'), ('embed:quote_at_end', "ab'"), ('embed:dquote_at_end', 'ab"'),
        ('embed:quoted_word', "'ab'"), ('embed:dquoted_word', '"ab"'),
        ('embed:newline_semicolon', 'l1\n;l2'), ('embed:newline_semicolon_blank', 'l1\n; l2'),
        ('embed:newline_semicolon_end', 'l1\n;'), ('embed:newline_blank_semicolon', 'l1\n ;l2'),
        ('lead:semicolon_multiline', ';a\nb'), ('embed:trailing_newline', 'abc\n'),
        ('embed:leading_newline', '\nabc'), ('embed:only_newline', '\n'), ('embed:only_tab', '\t'),
        ('embed:only_blank', ' '), ('embed:trailing_blank', 'abc '), ('embed:leading_blank', ' abc'),
        ('embed:trailing_tab', 'abc\t'), ('embed:leading_tab', '\tabc'),
        ('embed:everything', 'a\tb\'c"d\ne f'), ('embed:three_lines', 'l1\n\nl3'),
        ('embed:hash_after_blank', 'a #b'), ('embed:hash_after_tab', 'a\t#b'),
        ('embed:semicolon_inside', 'a;b'), ('embed:underscore_word', 'a _b'),
        ('empty', ''),
        ('numeric:float', '1.5'), ('numeric:int', '-3'), ('numeric:exp', '1e5'), ('numeric:su', '1.0(2)'),
        ('nonascii:latin', '\xe9'), ('nonascii:word', '\xc5ngstr\xf6m'), ('nonascii:cjk', '日本語'),
        ('nonascii:astral', 'a\U0001f600b'), ('nonascii:blank', '\xe9 \xe8'),
        ('nonascii:squote', "l'\xe9t\xe9"), ('nonascii:both_quotes', 'na\xefve "x" \'y\''),
        ('nonascii:newline', '\xfc\n\xf6'), ('nonascii:lead', '\xb5m'),
    ]
    out += [(f'nonnfc:{n}', t) for n, t in NON_NORMALISED]
    for w in RESERVED:
        stem = w[:-1]
        for variant in (stem.lower(), stem.upper(), stem.capitalize()):
            out.append((f'reserved:{variant}_', variant + '_'))
            out.append((f'reserved:{variant}_x', variant + '_x'))
    out += [('reserved:inside', 'x_data_y'), ('reserved:no_underscore', 'data'), ('reserved:loop_blank', 'loop_ x')]
    return out


FORCED = forced_strings()
FORCED_BY_STRING = {s: name for name, s in FORCED}
assert len(FORCED_BY_STRING) == len(FORCED)

_ALNUM = 'abcdefghijklmnopqrstuvwxyzABCDEFGHIJKLMNOPQRSTUVWXYZ0123456789'
_PUNCT = '!%&()*+,-./:<=>?@\\^`{|}~'
_SPECIAL = '_#$;[]\'"'
_NONASCII = '\xe9\xfc\xc5\xb5λ日\U0001f600\u0301\u212b\u212a\u037e\ufb01\uff21'


def benign_string(rng, lo=1, hi=12):
    n = int(rng.integers(lo, hi + 1))
    return ''.join(_ALNUM[i] for i in rng.integers(0, len(_ALNUM), size=n))


def hostile_string(rng):
    """Random printable string below 200 characters with hostile ingredients."""
    r = rng.random()
    if r < 0.25:
        return FORCED[int(rng.integers(0, len(FORCED)))][1]
    n = int(rng.integers(1, 40 if r < 0.9 else 190))
    weights = np.array([60, 14, 6, 8, 2, 2, 3], dtype=float)
    if rng.random() < 0.5:
        weights[3:6] = 0  # no blanks/tabs/newlines at all: unquoted candidates
    if rng.random() < 0.7:
        weights[6] = 0
    pools = [_ALNUM, _PUNCT, _SPECIAL, ' ', '\t', '\n', _NONASCII]
    which = rng.choice(len(pools), size=n, p=weights / weights.sum())
    s = ''.join(pools[w][int(rng.integers(0, len(pools[w])))] for w in which)
    if rng.random() < 0.15:
        s = _SPECIAL[int(rng.integers(0, len(_SPECIAL)))] + s
    if rng.random() < 0.05:
        w = RESERVED[int(rng.integers(0, 5))]
        w = [w, w.upper(), w.capitalize()][int(rng.integers(0, 3))]
        s = w + (s if rng.random() < 0.6 else '')
    if rng.random() < 0.04:
        s = s + '\n;' + benign_string(rng, 0, 3)
    return s[:199]


def any_string(rng, p_hostile=0.12):
    return hostile_string(rng) if rng.random() < p_hostile else benign_string(rng)


def string_class(s: str):
    """Coarse class of a string for case signatures."""
    if s in FORCED_BY_STRING:
        return FORCED_BY_STRING[s].split(':')[0]
    if s.isalnum():
        return 'plain'
    c = []
    if not s.isascii():
        c.append('nonascii')
    if '\n' in s:
        c.append('multiline')
    if ' ' in s or '\t' in s:
        c.append('blank')
    if "'" in s or '"' in s:
        c.append('quote')
    if s[:1] in _SPECIAL:
        c.append('lead')
    return '+'.join(c) or 'punct'


def hostile_comment(rng):
    r = rng.random()
    if r < 0.3:
        return ''
    lines = []
    for _ in range(int(rng.integers(1, 4))):
        q = rng.random()
        if q < 0.3:
            lines.append(['data_leak', 'loop_', '_tag value', "; text", "'quoted' \"q\"", '#', '',
                          'value_in_comment 1 2 3', 'caf\xe9 日'][int(rng.integers(0, 9))])
        else:
            lines.append(hostile_string(rng).replace('\n', ' '))
    c = '\n'.join(lines)
    if rng.random() < 0.15:
        c += '\n'
    return c[:199]


# ----------------------------------------------------------------- numbers ---
def rand_float(rng, f32=False):
    r = rng.random()
    if r < 0.08:
        return 0.0
    if r < 0.2:
        x = float(rng.integers(-1000, 1000))
    else:
        ex = rng.uniform(-30, 30) if not f32 else rng.uniform(-14, 14)
        x = float((1 if rng.random() < 0.7 else -1) * 10.0 ** ex * rng.uniform(1, 10) / 10)
    return float(np.float32(x)) if f32 else x


def rand_var(rng, x, f32=False):
    r = rng.random()
    if r < 0.08:
        return 0.0
    scale = abs(x) if x != 0 else 1.0
    sigma = scale * 10.0 ** rng.uniform(-10 if not f32 else -5, 2 if not f32 else 1)
    v = sigma * sigma
    if f32:
        v = float(np.float32(v))
        if v == 0.0 or not np.isfinite(np.float32(v)):
            v = float(np.float32(1e-3))
    return v


# ======================================================================
# expected documents
# ======================================================================
class XItem:
    """Expected pair or loop.  ``cols`` of a loop: list of columns of expectations."""

    def __init__(self, kind, tags, cols, *, group='user', optional=(), col_order=True, special=None,
                 comment=''):
        self.kind = kind            # 'pair' | 'loop'
        self.tags = list(tags)      # pair: [tag]
        self.cols = cols            # pair: [[ev]] ; loop: one list per tag
        self.group = group          # 'user' (order as supplied) | 'auto'
        self.optional = set(optional)   # tags that may be absent (then not judged)
        self.col_order = col_order
        self.special = special      # 'schema' | 'roles' | None
        self.comment = comment

    def describe(self):
        if self.kind == 'pair':
            return {'pair': self.tags[0], 'value': _ev_descr(self.cols[0][0])}
        n = len(self.cols[0]) if self.cols else 0
        return {'loop': self.tags, 'rows': n,
                'first_row': [_ev_descr(c[0]) for c in self.cols if c][:6],
                'hostile_cells': [_ev_descr(e) for c in self.cols for e in c
                                  if e[0] == 'str' and not e[1].isalnum()][:6]}


def _ev_descr(ev):
    if ev[0] == 'str':
        return {'str': ev[1]}
    return {ev[0]: [repr(x) for x in ev[1:]]}


class XBlock:
    def __init__(self, name, items, comment='', *, strict=None, builder=None, env=None):
        self.name = name
        self.items = items
        self.comment = comment
        # None: as the document says.  Set per block in the expectation of a handle that received
        # several documents (low-level and builder documents mixed).
        self.strict = strict
        self.builder = builder
        self.env = env


class XDoc:
    def __init__(self, kind, via, blocks, *, strict, top_comment='', sig=(), trivial=False, builder=None,
                 heading=True):
        self.kind = kind
        self.via = via
        self.blocks = blocks
        self.strict = strict
        self.top_comment = top_comment
        self.sig = sig
        self.trivial = trivial
        self.builder = builder      # supplied author list etc. for the role monitor
        self.heading = heading
        self.env = {}
        self.report_as = None       # (violation kind, mechanism keys) for a forced scenario with its own kind

    def describe(self):
        return {'kind': self.kind, 'via': self.via, 'top_comment': self.top_comment,
                'blocks': [{'name': b.name, 'comment': b.comment,
                            'items': [it.describe() for it in b.items][:12]} for b in self.blocks]}


def compare_block(xb: XBlock, pb: cif11.Block, strict: bool, env):
    """List of (category, message); empty when the parsed block is what was supplied."""
    out = []
    if not str_matches(xb.name, pb.name) or (xb.name != '' and pb.name == ''):
        out.append(('structure', f'block code {_short(xb.name)} read back as {_short(pb.name)}'))
    if strict:
        exp = [it for it in xb.items]
        if len(exp) != len(pb.items):
            kinds = ['pair' if isinstance(p, cif11.Pair) else f'loop{len(p.tags)}x{len(p.rows)}'
                     for p in pb.items]
            out.append(('structure', f'{len(exp)} items supplied, {len(pb.items)} read back '
                                     f'({", ".join(kinds[:8])})'))
            return out
        for it, p in zip(exp, pb.items, strict=True):
            out += _compare_item(it, p, env)
            if out:
                return out
        return out
    # builder documents: sections matched by tag, order of the user's content checked
    where = {}
    for i, p in enumerate(pb.items):
        tags = [p.tag] if isinstance(p, cif11.Pair) else p.tags
        for t in tags:
            if t in where:
                out.append(('structure', f'tag _{t} occurs twice'))
            where[t] = i
    used = set()
    last_user = -1
    for it in xb.items:
        present = [t for t in it.tags if t in where]
        missing = [t for t in it.tags if t not in where and t not in it.optional]
        if missing:
            out.append(('structure', f'supplied tag _{missing[0]} is not in the file'))
            continue
        if not present:
            continue
        idx = {where[t] for t in present}
        if len(idx) != 1:
            out.append(('structure', f'tags {present} of one {it.kind} are spread over several items'))
            continue
        i = idx.pop()
        used.add(i)
        sub = it
        if len(present) != len(it.tags):
            keep = [k for k, t in enumerate(it.tags) if t in where]
            sub = XItem(it.kind, [it.tags[k] for k in keep], [it.cols[k] for k in keep], group=it.group,
                        col_order=it.col_order, special=it.special)
        out += _compare_item(sub, pb.items[i], env)
        if it.group == 'user':
            if i < last_user:
                out.append(('structure', f'{it.kind} _{it.tags[0]} is not in the order of the builder calls'))
            last_user = i
    for i, p in enumerate(pb.items):
        if i not in used:
            t = p.tag if isinstance(p, cif11.Pair) else p.tags[0]
            out.append(('structure', f'file contains _{t} which was not supplied'))
    return out


def _compare_item(it: XItem, p, env):
    out = []
    if it.kind == 'pair':
        if not isinstance(p, cif11.Pair):
            return [('structure', f'pair _{it.tags[0]} read back as a loop {p.tags}')]
        if p.tag != it.tags[0]:
            return [('structure', f'tag _{it.tags[0]} read back as _{p.tag}')]
        why = match_value(it.cols[0][0], p.value, env)
        if why:
            out.append(('value', f'_{p.tag}: {why}'))
        return out
    if not isinstance(p, cif11.Loop):
        return [('structure', f'loop {it.tags} read back as pair _{p.tag}')]
    if it.col_order:
        if p.tags != it.tags:
            return [('structure', f'loop tags {it.tags} read back as {p.tags}')]
        order = list(range(len(it.tags)))
    else:
        if sorted(p.tags) != sorted(it.tags):
            return [('structure', f'loop tags {it.tags} read back as {p.tags}')]
        order = [p.tags.index(t) for t in it.tags]
    if it.special == 'schema':
        names = sorted(r[order[0]].text for r in p.rows)
        want = sorted(e[1] for e in it.cols[0])
        if names != want:
            out.append(('value', f'schema loop lists {names}, expected {want}'))
        return out
    nrows = len(it.cols[0])
    if len(p.rows) != nrows:
        return [('structure', f'loop {it.tags[0]}...: {nrows} rows supplied, {len(p.rows)} read back')]
    if it.special == 'roles':
        return out
    for c, tag in enumerate(it.tags):
        pc = order[c]
        if nrows and it.cols[c][0][0] == 'unique':
            ids = [p.rows[r][pc].text for r in range(nrows)]
            if len(set(ids)) != len(ids):
                return [('value', f'_{tag}: identifiers are not unique: {ids[:10]}')]
        for r in range(nrows):
            why = match_value(it.cols[c][r], p.rows[r][pc], env)
            if why:
                out.append(('value', f'_{tag} row {r}: {why}'))
                return out
    return out


def check_roles(b, pb: cif11.Block):
    """Every role id occurs exactly once among the author ids and carries that author's role.
    ``b``: the supplied authors {'contact': [...], 'regular': [...]} or None."""
    if b is None:
        return []
    out = []
    ids = {}       # category -> list of ids by row
    roles = []     # (id, role text)
    for p in pb.items:
        if isinstance(p, cif11.Pair):
            for cat in ('audit_contact_author', 'audit_author'):
                if p.tag == cat + '.id':
                    ids[cat] = [p.value.text]
        else:
            for cat in ('audit_contact_author', 'audit_author'):
                if cat + '.id' in p.tags:
                    k = p.tags.index(cat + '.id')
                    ids[cat] = [r[k].text for r in p.rows]
            if 'audit_author_role.id' in p.tags and 'audit_author_role.role' in p.tags:
                ki, kr = p.tags.index('audit_author_role.id'), p.tags.index('audit_author_role.role')
                roles += [(r[ki].text, r[kr].text) for r in p.rows]
    all_ids = [i for v in ids.values() for i in v]
    if len(set(all_ids)) != len(all_ids):
        out.append(f'author ids are not unique: {all_ids}')
    for rid, _ in roles:
        n = all_ids.count(rid)
        if n != 1:
            out.append(f'role id {rid!r} occurs {n} times among the author ids {all_ids}')
    want = []
    for cat, people in (('audit_contact_author', b['contact']), ('audit_author', b['regular'])):
        for row, person in enumerate(people):
            if person['role']:
                if cat not in ids or row >= len(ids[cat]):
                    out.append(f'author {person["name"]!r} has a role but no id in the file')
                    continue
                want.append((ids[cat][row], person['role']))
    if len(want) != len(roles):
        out.append(f'{len(want)} authors with a role supplied, {len(roles)} role rows in the file')
    got = dict(roles)
    for aid, role in want:
        if aid not in got:
            out.append(f'author id {aid!r} has no role row')
        elif not str_matches(role, got[aid]):
            out.append(f'author id {aid!r}: role {role!r} read back as {got[aid]!r}')
    return out


# ======================================================================
# handles: what a caller may pass where the signatures say "file handle" / TextIO
# ======================================================================
class WriteOnly:
    """The least a text handle can be: an object with ``write``.  (``Block.write`` / ``Chunk.write`` /
    ``Loop.write`` take "a file handle" and need nothing else.)"""

    def __init__(self):
        self.chunks = []

    def write(self, s):
        if not isinstance(s, str):
            raise TypeError(f'write() argument must be str, not {type(s).__name__}')
        self.chunks.append(s)
        return len(s)


class TeeStringIO(io.StringIO):
    """A StringIO subclass that overrides ``write`` (and keeps its own record of what it was given)."""

    def __init__(self, *a, **kw):
        super().__init__(*a, **kw)
        self.record = []

    def write(self, s):
        self.record.append(s)
        return super().write(s)


def is_handle(target):
    return isinstance(target, io.IOBase | WriteOnly)


def handle_state(f):
    """(position, everything the handle holds) of a text handle; None for paths / unreadable ones."""
    if isinstance(f, io.StringIO):
        return f.tell(), f.getvalue()
    if isinstance(f, WriteOnly):
        text = ''.join(f.chunks)
        return len(text), text
    if isinstance(f, io.TextIOWrapper) and isinstance(getattr(f, 'name', None), str):
        f.flush()
        pos = f.tell()
        with open(f.name, 'rb') as fh:
            raw = fh.read()
        # the workload writes ASCII through these; latin-1 keeps character offset == byte offset
        return pos, raw.decode('latin-1')
    return None


# ======================================================================
# monitors
# ======================================================================
class Monitors:
    def __init__(self, ctx):
        self.ctx = ctx
        self.expect: XDoc | None = None
        self.culprits: list = []      # (mechanism, keys) flagged by the narrow monitors in this document
        self.refusal = None           # allowed refusal raised while writing this document
        self.allow_exc = None         # predicate: refusals the unchanged tree is known to give for this call
        self.save_depth = 0
        self.depth = 0                # nesting of the watched writing calls
        self.call_state = None        # (position, text) of the handle when the outermost call began
        self.judged_docs = 0
        self.comment_pos = {}
        self._culprit_mechs = []
        self._report = None
        self._where = ''

    # ---- token monitor ----------------------------------------------------
    def on_format_value(self, ev):
        ctx = self.ctx
        value = ev.args.get('value')
        try:
            expected = model_of(value)
        except Exception:  # noqa: BLE001
            ctx.oracle_error('C14 model_of')
            return
        case = {'supplied': _descr_value(value), 'doc': self.expect.via if self.expect else None}
        if ev.exc is not None:
            s = expected[1] if expected and expected[0] == 'str' else None
            if isinstance(ev.exc, ValueError) and s is not None and re.search(r'\n;', s):
                # the only content without a CIF 1.1 representation: refusing it is allowed
                ctx.count('refused:text_field_line_starts_with_semicolon')
                ctx.event('token')
                self.refusal = ev.exc
                self._hit(value)
                return
            ctx.violation('token_raised', f'_format_value raised {type(ev.exc).__name__}: {ev.exc}',
                          case, mechanism='raised')
            self.culprits.append(('raised', {}))
            return
        tok = ev.result
        if not isinstance(tok, str):
            ctx.violation('token_not_a_string', f'_format_value returned {type(tok).__name__}', case,
                          mechanism='not_a_string')
            return
        case['token'] = tok
        text = ('_t\n' if tok.startswith(';') else '_t ') + tok + '\n'
        problem = None
        val = None
        try:
            toks, comments = cif11.lex(text)
            shape = [t.kind for t in toks]
            if shape != ['tag', 'value'] or toks[0].text != 't' or comments:
                problem = 'lexes to ' + ('+'.join(shape[1:]) or 'nothing') + \
                    (' and a comment' if comments else '') + ' instead of one value'
            else:
                val = cif11.Value(toks[1].text, toks[1].form)
        except cif11.CifSyntaxError as e:
            problem = f'{e.code}: {e.msg}'
        except Exception:  # noqa: BLE001
            ctx.oracle_error('C14 lex token')
            return
        ctx.event('token')
        self._hit(value)
        if problem is not None:
            mech, keys = token_mechanism(tok)
            ctx.violation('token_' + mech, f'token {_short(tok)} for {_short(case["supplied"])} {problem}',
                          case, mechanism=mech, **keys)
            self.culprits.append((mech, keys))
            return
        if expected is None:
            ctx.count('token.unmodelled_type:' + type(value).__name__ + (':' + str(value.dtype) if isinstance(value, sc.Variable) else ''))
            return
        try:
            why = match_value(expected, val)
        except Exception:  # noqa: BLE001
            ctx.oracle_error('C14 match token')
            return
        if expected[0] == 'fvar':
            ctx.event('value_su')
        if why:
            mech = 'value_changed_' + EV_NAMES.get(expected[0], 'other')
            ctx.violation('token_' + mech, f'token {_short(tok)}: {why}', dict(case, form=val.form),
                          mechanism=mech)
            self.culprits.append((mech, {}))

    def _hit(self, value):
        s = value if isinstance(value, str) else None
        if s is None and isinstance(value, sc.Variable) and value.ndim == 0 and value.dtype == sc.DType.string:
            s = value.value
        if s is not None and s in FORCED_BY_STRING:
            self.ctx.hit('str:' + FORCED_BY_STRING[s])

    # ---- comment monitor ----------------------------------------------------
    def on_comment_start(self, ev):
        f = ev.args.get('f')
        if isinstance(f, io.StringIO):
            return f.tell()
        return None

    def on_comment_return(self, ev):
        ctx = self.ctx
        f = ev.args.get('f')
        comment = ev.args.get('comment')
        if ev.pre is None or not isinstance(f, io.StringIO):
            ctx.count('comment.not_a_buffer')
            return
        if ev.exc is not None:
            ctx.violation('comment_raised', f'_write_comment raised {type(ev.exc).__name__}: {ev.exc}',
                          {'comment': comment}, mechanism='raised')
            return
        frag = f.getvalue()[ev.pre:f.tell()]      # the handle may stand in front of older text
        ctx.event('comment')
        case = {'comment': comment, 'written': frag, 'doc': self.expect.via if self.expect else None}
        if not frag.isascii():
            x = self.expect
            file_comment = (x is not None and x.kind != 'builder' and self.save_depth > 0
                            and comment == x.top_comment
                            and ev.pre == (self.call_state[0] if self.call_state else 0) + len(MAGIC))
            mech = COMMENT_MECH if file_comment else 'non_ascii_comment'
            ctx.violation('comment_' + mech, f'comment written with non-ASCII text: {_short(frag)}', case,
                          mechanism=mech)
            self.culprits.append((mech, {}))
            return
        try:
            toks, _ = cif11.lex(frag)
        except cif11.CifSyntaxError as e:
            toks = [e.code]
        if toks or (frag and not frag.endswith('\n')):
            ctx.violation('comment_leaks_tokens', f'comment text {_short(frag)} is not only comments', case,
                          mechanism='comment_leaks_tokens')
            self.culprits.append(('comment_leaks_tokens', {}))

    # ---- document monitor ----------------------------------------------------
    # The outermost watched call (save_cif / CIF.save / Block.write) notes where the handle it was
    # given stands and what it holds; the call that actually writes is judged on the text between
    # that position and the position after the call.  Everything else in the handle belongs to
    # the caller (earlier documents, the caller's own text) and must be left alone.
    def _enter(self, target):
        if self.depth == 0:
            try:
                self.call_state = handle_state(target)
            except Exception:  # noqa: BLE001
                self.ctx.oracle_error('C14 reading the state of the handle before the call')
                self.call_state = None
        self.depth += 1

    def on_save_start(self, ev):
        self._enter(ev.args.get('fname'))
        self.save_depth += 1

    def on_save_return(self, ev):
        self.save_depth -= 1
        self.depth -= 1
        content = ev.args.get('content')
        # judge at the call that actually writes: content is a block or blocks, not a builder
        if type(content).__name__ == 'CIF':
            return
        self._judge_written(ev.args.get('fname'), ev.exc, 'save_cif')

    def on_cifsave_start(self, ev):
        self._enter(ev.args.get('fname'))

    def on_cifsave_return(self, ev):
        self.depth -= 1
        # the nested save_cif has judged the text; only an exception before it is news
        if ev.exc is not None and self.judged_docs == 0:
            self._judge_written(ev.args.get('fname'), ev.exc, 'CIF.save')

    def on_blockwrite_start(self, ev):
        self._enter(ev.args.get('f'))

    def on_blockwrite_return(self, ev):
        self.depth -= 1
        if self.save_depth > 0:
            return
        self._judge_written(ev.args.get('f'), ev.exc, 'Block.write')

    def _judge_written(self, target, exc, where):
        ctx = self.ctx
        x = self.expect
        self.judged_docs += 1
        if x is None:
            ctx.count('doc.write_without_expectation')
            return
        x.env['t1'] = _dt.datetime.now(_dt.timezone.utc)
        case = x.describe()
        self._set_reporter(x, case, where)
        report = self._report
        if exc is not None:
            if exc is self.refusal:
                ctx.count('doc.refused')
                ctx.event('document')
                return
            if self.allow_exc is not None and self.allow_exc(exc):
                self.refusal = exc
                ctx.count('doc.refused:' + type(exc).__name__)
                ctx.event('document')
                return
            report('raised', f'raised {type(exc).__name__}: {exc}', exception=type(exc).__name__)
            return
        state = self.call_state
        if is_handle(target) and getattr(target, 'closed', False):
            # the handle is the caller's: he reads it back / goes on writing into it
            ctx.event('document')
            report('handle_closed', 'the call closed the handle it was given')
            return
        try:
            if is_handle(target):
                after = handle_state(target)
                if state is None or after is None:
                    ctx.count('doc.handle_not_readable')
                    return
                raw = None
            else:
                with open(os.fspath(target), 'rb') as fh:
                    raw = fh.read()
                text = None
        except Exception:  # noqa: BLE001
            ctx.oracle_error('C14 reading the written document')
            return
        ctx.event('document')
        ctx.event('document.' + where)
        if raw is not None:
            try:
                text = raw.decode('ascii')
            except UnicodeDecodeError:
                text = raw.decode('utf-8', 'replace')
        else:
            # a handle: the call writes at the position the handle stands at, nowhere else
            (pos0, before), (pos1, now) = state, after
            ctx.event('document.handle')
            if pos0 > 0 or before:
                ctx.event('document.handle_in_use')
            case['handle'] = {'position_before': pos0, 'position_after': pos1,
                              'held_before': before if len(before) < 600 else before[:600] + '...'}
            bad = None
            if now[:pos0] != before[:pos0]:
                k = next((i for i in range(min(len(now), pos0)) if now[i] != before[i]), min(len(now), pos0))
                bad = (f'the handle stood at position {pos0}; the text in front of it (earlier output / the '
                       f"caller's own text) was changed at offset {k}")
            elif pos1 < pos0:
                bad = f'the handle stood at position {pos0} and stands at {pos1} after the call'
            elif now[pos1:] != before[pos1:]:
                bad = (f'text behind the written fragment [{pos0}, {pos1}) changed '
                       f'({len(before) - min(pos1, len(before))} characters before, '
                       f'{len(now) - pos1} after)')
            if bad is not None:
                case['written'] = now if len(now) < 1500 else now[:1500] + '...'
                report('handle_position', bad)
                return
            text = now[pos0:pos1]
        self.judge_text(x, text, case)

    def _set_reporter(self, x, case, where):
        ctx = self.ctx
        culprit_mechs = sorted({m for m, _ in self.culprits})

        def report(category, what, **keys):
            mechs = self._culprit_mechs
            if x.report_as is not None:
                kind, mkeys = x.report_as
                ctx.violation(kind, f'{where}: {what}',
                              dict(case, detail=dict(keys, category=category, flagged=mechs)), **mkeys)
            elif mechs:
                # the narrow monitors flagged tokens / comments of this document: one report per
                # mechanism, so that each is classified on its own
                # (keys hold the mechanism only: the runner keeps representatives per
                # (kind, keys) group, so everything of high cardinality goes into the case)
                for m in mechs:
                    ctx.violation('doc_from_' + m, f'{where}: {what}',
                                  dict(case, detail=dict(keys, category=category, flagged=mechs)),
                                  mechanism=m)
            else:
                ctx.violation('doc_' + category, f'{where}: {what}', dict(case, detail=keys),
                              mechanism=category)

        self._culprit_mechs = culprit_mechs
        self._report = report
        self._where = where

    def judge_text(self, x, text, case):
        """Decode ``text`` with the independent parser and compare with the expectation ``x``."""
        ctx = self.ctx
        report, where = self._report, self._where
        culprit_mechs = self._culprit_mechs
        case['written'] = text if len(text) < 1500 else text[:1500] + '...'
        if not text.isascii():
            lines = text.split('\n')
            bad = [i for i, ln in enumerate(lines) if not ln.isascii()]
            if not culprit_mechs and x.kind != 'builder' and x.heading and not x.top_comment.isascii():
                # written to a real file: the comment monitor could not look at the fragment
                n_top = len(x.top_comment.split('\n')) - (1 if x.top_comment.endswith('\n') else 0)
                if all(1 <= i <= n_top and lines[i].startswith('#') for i in bad):
                    self._culprit_mechs = culprit_mechs = [COMMENT_MECH]
            report('non_ascii_output', f'output is not ASCII: line {_short(lines[bad[0]])}',
                   in_comment=lines[bad[0]].lstrip().startswith('#'))
            return
        if x.heading and not text.startswith(MAGIC):
            report('structure', 'the written text does not start with the CIF 1.1 magic comment')
            return
        try:
            try:
                doc = cif11.parse(text)
            except cif11.CifSyntaxError as e:
                if e.code != 'empty_block_code':
                    raise
                if culprit_mechs or any(b.name != '' for b in x.blocks):
                    raise
                ctx.violation('doc_' + EMPTY_CODE_MECH,
                              f'{where}: block with the (default) empty name is written as "data_" '
                              'without a block code', case, mechanism=EMPTY_CODE_MECH)
                doc = cif11.parse(text, strict_block_code=False)
        except cif11.CifSyntaxError as e:
            report('parse_' + e.code, f'output is not CIF 1.1: {e}', code=e.code)
            return
        except Exception:  # noqa: BLE001
            ctx.oracle_error('C14 parse document')
            return
        for w in doc.warnings:
            ctx.count('doc.warning:' + w[0])
        try:
            problems = []
            if len(doc.blocks) != len(x.blocks):
                problems.append(('structure', f'{len(x.blocks)} blocks supplied, {len(doc.blocks)} read back'
                                              f' ({[b.name for b in doc.blocks][:6]})'))
            else:
                for xb, pb in zip(x.blocks, doc.blocks, strict=True):
                    strict = x.strict if xb.strict is None else xb.strict
                    builder = x.builder if xb.builder is None else xb.builder
                    problems += compare_block(xb, pb, strict, x.env if xb.env is None else xb.env)
                    for msg in check_roles(builder, pb):
                        problems.append(('role_ids', msg))
                    if builder is not None and (builder['contact'] or builder['regular']):
                        if any(p['role'] for p in builder['contact'] + builder['regular']):
                            ctx.event('roles')
            n_su = sum(1 for b in x.blocks for it in b.items for c in it.cols if c and c[0][0] == 'su')
            if n_su:
                ctx.event('su_column', n_su)
        except Exception:  # noqa: BLE001
            ctx.oracle_error('C14 compare document')
            return
        if problems:
            cat, msg = problems[0]
            report(cat, msg, n_problems=len(problems))

    def judge_handle(self, x, target, where):
        """Everything a handle received (several calls, the caller's own text between them),
        judged as one text: ``x`` lists the blocks of all of it, in order."""
        ctx = self.ctx
        self.begin(x, keep_t0=True)
        try:
            x.env['t1'] = _dt.datetime.now(_dt.timezone.utc)
            case = x.describe()
            self.culprits = []
            self._set_reporter(x, case, where)
            try:
                st = handle_state(target)
            except Exception:  # noqa: BLE001
                ctx.oracle_error('C14 reading the handle after the calls')
                return
            if st is None:
                ctx.count('doc.handle_not_readable')
                return
            self.judged_docs += 1
            ctx.event('document')
            ctx.event('document.concatenation')
            self.judge_text(x, st[1], case)
        finally:
            self.end()

    # ---- per document bookkeeping ---------------------------------------------
    def begin(self, xdoc, keep_t0=False):
        self.expect = xdoc
        self.culprits = []
        self.refusal = None
        self.allow_exc = None
        self.judged_docs = 0
        self.depth = 0
        self.save_depth = 0
        self.call_state = None
        if not (keep_t0 and 't0' in xdoc.env):
            xdoc.env['t0'] = _dt.datetime.now(_dt.timezone.utc).replace(microsecond=0)

    def end(self):
        x = self.expect
        if x is not None and self.judged_docs == 0:
            self.ctx.count('doc.never_written')
        self.expect = None


def _descr_value(value):
    if isinstance(value, str):
        return value
    if isinstance(value, sc.Variable) and value.ndim == 0:
        d = {'dtype': str(value.dtype), 'value': value.value if value.dtype == sc.DType.string
             else repr(value.value)}
        if value.variance is not None:
            d['variance'] = repr(value.variance)
        return d
    return repr(value)


# ======================================================================
# workload: documents
# ======================================================================
def _tag(rng, used):
    while True:
        t = benign_string(rng, 2, 8).lower() + '.' + benign_string(rng, 1, 8).lower()
        if rng.random() < 0.2:
            t += '_su'
        if t not in used:
            used.add(t)
            return t


def _block_name(rng):
    r = rng.random()
    if r < 0.6:
        return benign_string(rng, 1, 10)
    pool = _ALNUM + _PUNCT + _SPECIAL
    n = int(rng.integers(1, 30))
    s = ''.join(pool[int(i)] for i in rng.integers(0, len(pool), size=n))
    if r > 0.92:
        s += _NONASCII[len(s) % len(_NONASCII)]
    return s


def str_enum_member(s):
    """A StrEnum member whose value is ``s``: a str (``str(member) == s``) wherever a str is documented."""
    return enum.StrEnum('Label', {'MEMBER': s}).MEMBER


def int_enum_member(n):
    return enum.IntEnum('Code', {'MEMBER': n}).MEMBER


def gen_scalar(rng, cif):
    """(object to supply, expectation, class) for a chunk value."""
    r = rng.random()
    if r < 0.55:
        s = any_string(rng)
        q = rng.random()
        if q < 0.15:
            return sc.scalar(s), ('str', s), 'str:' + string_class(s)
        if q < 0.22:
            return np.str_(s), ('str', s), 'np.str_:' + string_class(s)
        if q < 0.26:
            return str_enum_member(s), ('str', s), 'StrEnum:' + string_class(s)
        return s, ('str', s), 'str:' + string_class(s)
    if r < 0.65:
        n = int(rng.integers(-10**9, 10**9))
        q = int(rng.integers(0, 7))
        if q == 4:
            n = n % 200 - 100
            return [np.int8, np.int16, np.int32][n % 3](n), ('int', n), 'np.int_small'
        if q == 5:
            n = abs(n)
            return [np.uint32, np.uint64][n % 2](n), ('int', n), 'np.uint'
        if q == 6:
            return int_enum_member(n), ('int', n), 'IntEnum'
        obj = [n, np.int64(n), sc.scalar(n, unit=None), sc.scalar(n, unit=_unit(rng, ('counts', 'us', 'angstrom')))][q]
        return obj, ('int', n), 'int'
    if r < 0.8:
        x = rand_float(rng)
        obj = [x, np.float64(x), sc.scalar(x), sc.scalar(x, unit=_unit(rng))][int(rng.integers(0, 4))]
        return obj, ('f64', x), 'f64'
    if r < 0.86:
        x = rand_float(rng, f32=True)
        obj = [np.float32(x), sc.scalar(x, dtype='float32', unit=_unit(rng))][int(rng.integers(0, 2))]
        return obj, ('f32', x), 'f32'
    if r < 0.96:
        f32 = rng.random() < 0.25
        x = rand_float(rng, f32)
        v = rand_var(rng, x, f32)
        obj = sc.scalar(x, variance=v, unit=_unit(rng),
                        dtype='float32' if f32 else 'float64')
        return obj, ('fvar', x, v, f32), 'fvar32' if f32 else 'fvar64'
    t = _dt.datetime(int(rng.integers(1990, 2040)), int(rng.integers(1, 13)), int(rng.integers(1, 29)),
                     int(rng.integers(0, 24)), int(rng.integers(0, 60)), int(rng.integers(0, 60)),
                     tzinfo=_dt.timezone.utc if rng.random() < 0.5 else None)
    return t, ('str', t.isoformat()), 'datetime'


def _with_repeats(rng, n, fresh):
    """``n`` values from ``fresh()``; in a quarter of the columns drawn from a pool of 1..3
    values, so that exact duplicates (adjacent and not) occur among the supplied values."""
    if rng.random() < 0.25:
        pool = [fresh() for _ in range(int(rng.integers(1, 4)))]
        return [pool[int(i)] for i in rng.integers(0, len(pool), size=n)], n > len(pool)
    return [fresh() for _ in range(n)], False


# units whose scipp spelling is ASCII and units it spells with non-ASCII characters
VALUE_UNITS = ('m', 'one', 'us', 'angstrom', 'deg', 'degC', 'um', 'counts/angstrom', '1/angstrom**2', 'K')


def _unit(rng, pool=VALUE_UNITS):
    return pool[int(rng.integers(0, len(pool)))]


# dims a caller may use for the columns of a loop, among them every name the writer uses itself
# for the loops it builds (schema, r, author, role, cal / the dim of the reduced data) and generic ones
LOOP_DIMS = ('row', 'r', 'x', 'schema', 'author', 'role', 'cal', 'tof', 'dspacing', 'event', 'power', 'dim_0')


def gen_column(rng, n, multi_line_ok, dim='row'):
    """(sc.Variable, list of expectations, class)."""
    r = rng.random()
    if r < 0.45:
        p = rng.choice([0.0, 0.0, 0.1, 0.5])
        vals, dup = _with_repeats(rng, n, lambda: any_string(rng, p))
        if not multi_line_ok:
            vals = [v.replace('\n', ' ') for v in vals]
        cls = sorted({string_class(v) for v in vals})
        return (sc.array(dims=[dim], values=vals), [('str', v) for v in vals],
                ('strdup:' if dup else 'str:') + '|'.join(cls)[:60])
    if r < 0.55:
        vals, dup = _with_repeats(rng, n, lambda: int(rng.integers(-10**6, 10**6)))
        return (sc.array(dims=[dim], values=vals, unit=None, dtype='int64'),
                [('int', int(v)) for v in vals], 'intdup' if dup else 'int')
    f32 = rng.random() < 0.3
    dt = 'float32' if f32 else 'float64'
    if r < 0.78:
        xs, dup = _with_repeats(rng, n, lambda: rand_float(rng, f32))
        return (sc.array(dims=[dim], values=xs, dtype=dt, unit=_unit(rng)),
                [('f32' if f32 else 'f64', x) for x in xs], dt + ('dup' if dup else ''))

    def fresh():
        x = rand_float(rng, f32)
        return x, rand_var(rng, x, f32)
    xv, dup = _with_repeats(rng, n, fresh)
    xs, vs = [a for a, _ in xv], [b for _, b in xv]
    return (sc.array(dims=[dim], values=xs, variances=vs, dtype=dt, unit=_unit(rng)),
            [('fvar', x, v, f32) for x, v in zip(xs, vs, strict=True)], 'fvar' + dt[-2:] + ('dup' if dup else ''))


# ---- every public way of putting pairs / columns / comments / names into the objects ----
CHUNK_WAYS = ('Chunk(dict,comment=)', 'Chunk(pairs,comment=)', 'Chunk.comment=', 'Chunk(None)+setitem',
              'Chunk.comment=late',
              # "Mapping[str, Any] | Iterable[tuple[str, Any]]": any mapping, any iterable, also one-shot ones
              'Chunk(generator,comment=)', 'Chunk(zip,comment=)', 'Chunk(dict.items(),comment=)',
              'Chunk(custom_mapping,comment=)', 'Chunk(mappingproxy,comment=)')
CHUNK_ADD_WAYS = ('Block.add(mapping,comment=)', 'Block.add(pairs,comment=)', 'Block.add(generator,comment=)',
                  'Block.add(custom_mapping,comment=)', 'Block.add(pairs,comment) positional')
LOOP_WAYS = ('Loop(dict,comment=)', 'Loop.comment=', 'Loop+setitem', 'Loop.comment=late',
             'Loop(custom_mapping,comment=)', 'Loop(columns=OrderedDict,comment=)')
# a plain mapping as an item of a block's content ("dicts are converted to Chunk"): every Mapping
MAPPING_WAYS = ('mapping', 'mapping:OrderedDict', 'mapping:custom', 'mapping:mappingproxy', 'mapping:UserDict')
BLOCK_COMMENT_WAYS = ('Block(comment=)', 'Block.comment=')
BLOCK_NAME_WAYS = ('Block(name)', 'Block.name=')
_PLACEHOLDER_COMMENT = 'placeholder comment that is replaced before saving'


class CustomMapping(collections.abc.Mapping):
    """A Mapping that is not a dict."""

    def __init__(self, d):
        self._keys = list(d)
        self._vals = [d[k] for k in self._keys]

    def __getitem__(self, k):
        try:
            return self._vals[self._keys.index(k)]
        except ValueError:
            raise KeyError(k) from None

    def __iter__(self):
        return iter(self._keys)

    def __len__(self):
        return len(self._keys)


def make_chunk(cif, way, pairs, comment):
    """-> (object for the block, keywords for Block.add, deferred comment assignment)."""
    pairs = dict(pairs)
    if way in MAPPING_WAYS:
        assert not comment
        if way == 'mapping:OrderedDict':
            return collections.OrderedDict(pairs), {}, None
        if way == 'mapping:custom':
            return CustomMapping(pairs), {}, None
        if way == 'mapping:mappingproxy':
            return types.MappingProxyType(pairs), {}, None
        if way == 'mapping:UserDict':
            return collections.UserDict(pairs), {}, None
        return pairs, {}, None
    if way == 'Chunk(generator,comment=)':
        return cif.Chunk(((k, v) for k, v in pairs.items()), comment=comment), {}, None
    if way == 'Chunk(zip,comment=)':
        return cif.Chunk(zip(list(pairs), list(pairs.values()), strict=True), comment=comment), {}, None
    if way == 'Chunk(dict.items(),comment=)':
        return cif.Chunk(pairs.items(), comment=comment), {}, None
    if way == 'Chunk(custom_mapping,comment=)':
        return cif.Chunk(CustomMapping(pairs), comment=comment), {}, None
    if way == 'Chunk(mappingproxy,comment=)':
        return cif.Chunk(types.MappingProxyType(pairs), comment=comment), {}, None
    if way == 'Block.add(generator,comment=)':
        return ((k, v) for k, v in pairs.items()), {'comment': comment}, None
    if way == 'Block.add(custom_mapping,comment=)':
        return CustomMapping(pairs), {'comment': comment}, None
    if way == 'Block.add(pairs,comment) positional':
        return list(pairs.items()), {'comment': comment, 'positional': True}, None
    if way == 'Chunk(dict,comment=)':
        return cif.Chunk(pairs, comment=comment), {}, None
    if way == 'Chunk(pairs,comment=)':
        return cif.Chunk(list(pairs.items()), comment=comment), {}, None
    if way == 'Chunk.comment=':
        obj = cif.Chunk(pairs)
        obj.comment = comment
        return obj, {}, None
    if way == 'Chunk(None)+setitem':
        obj = cif.Chunk(None)
        obj.comment = comment
        for k, v in pairs.items():
            obj[k] = v
        return obj, {}, None
    if way == 'Chunk.comment=late':
        return cif.Chunk(pairs, comment=_PLACEHOLDER_COMMENT), {}, comment
    if way == 'Block.add(mapping,comment=)':
        return pairs, {'comment': comment}, None
    if way == 'Block.add(pairs,comment=)':
        return list(pairs.items()), {'comment': comment}, None
    raise AssertionError(way)


def make_loop(cif, way, cols, comment):
    cols = dict(cols)
    if way == 'Loop(dict,comment=)':
        return cif.Loop(cols, comment=comment), {}, None
    if way == 'Loop.comment=':
        obj = cif.Loop(cols)
        obj.comment = comment
        return obj, {}, None
    if way == 'Loop+setitem':
        keys = list(cols)
        obj = cif.Loop({keys[0]: cols[keys[0]]})
        obj.comment = comment
        for k in keys[1:]:
            obj[k] = cols[k]
        return obj, {}, None
    if way == 'Loop.comment=late':
        return cif.Loop(cols, comment=_PLACEHOLDER_COMMENT), {}, comment
    if way == 'Loop(custom_mapping,comment=)':
        return cif.Loop(CustomMapping(cols), comment=comment), {}, None
    if way == 'Loop(columns=OrderedDict,comment=)':
        return cif.Loop(columns=collections.OrderedDict(cols), comment=comment), {}, None
    raise AssertionError(way)


BLOCK_CONTENT_FORMS = ('list', 'tuple', 'generator', 'iter', 'keywords')


def make_block(cif, name, name_way, comment, comment_way, entries, n_ctor, content_form='list'):
    """Block from ``entries`` = [(object, add keywords, deferred comment)]: the first ``n_ctor``
    through the constructor (``content`` is an Iterable: ``content_form``), the others through
    Block.add; deferred comments are assigned to the objects after they are part of the block."""
    first = [e[0] for e in entries[:n_ctor]]
    kw = {'comment': comment} if comment_way == 'Block(comment=)' else {}
    nm = name if name_way == 'Block(name)' else 'placeholder'
    if content_form == 'keywords':
        blk = cif.Block(name=nm, content=first, **kw)
    elif content_form == 'list' and not first and len(entries) % 2:
        blk = cif.Block(nm, **kw)                   # content left at its default
    else:
        blk = cif.Block(nm, {'list': list, 'tuple': tuple, 'generator': lambda f: (e for e in f),
                             'iter': iter}[content_form](first), **kw)
    if comment_way != 'Block(comment=)':
        blk.comment = comment
    for obj, add_kw, _ in entries[n_ctor:]:
        if add_kw.get('positional'):
            blk.add(obj, add_kw['comment'])
            continue
        if add_kw.get('comment') == '' and len(entries) % 2:
            add_kw = {}
        blk.add(obj, **add_kw)
    for obj, _, late in entries:
        if late is not None:
            obj.comment = late
    if name_way != 'Block(name)':
        blk.name = name
    return blk


def _pick(rng, seq):
    return seq[int(rng.integers(0, len(seq)))]


# ---- "content: Block | Iterable[Block] | CIF": every form an iterable of blocks can take ----------
class ReIterable:
    """A user-defined iterable (only ``__iter__``; a fresh iterator each time)."""

    def __init__(self, items):
        self._items = list(items)

    def __iter__(self):
        return iter(self._items)


class OneShotIterator:
    """A user-defined iterator: ``__iter__`` returns self, it can be walked once."""

    def __init__(self, items):
        self._it = iter(list(items))

    def __iter__(self):
        return self

    def __next__(self):
        return next(self._it)


def _generator_function(items):
    yield from items


def _object_array(items):
    a = np.empty(len(items), dtype=object)
    for i, it in enumerate(items):
        a[i] = it
    return a


CONTENT_FORMS = {
    'list': list,
    'tuple': tuple,
    'generator_expression': lambda bs: (b for b in bs),
    'generator_function': _generator_function,
    'map': lambda bs: map(lambda b: b, bs),
    'filter': lambda bs: filter(lambda b: True, bs),
    'iter(list)': lambda bs: iter(list(bs)),
    'iter(tuple)': lambda bs: iter(tuple(bs)),
    'reversed(list)': lambda bs: reversed(list(bs)[::-1]),
    'dict.values()': lambda bs: dict(enumerate(bs)).values(),
    'dict.keys()': lambda bs: dict.fromkeys(bs).keys(),
    'dict_of_blocks': lambda bs: dict.fromkeys(bs),
    'deque': collections.deque,
    'itertools.chain': lambda bs: itertools.chain(bs[:1], bs[1:]),
    'itertools.islice': lambda bs: itertools.islice(list(bs) + list(bs), len(bs)),
    'zip_unzipped': lambda bs: (b for b, _ in zip(bs, itertools.count(), strict=False)),
    'numpy_object_array': _object_array,
    'user_iterable': ReIterable,
    'user_iterator': OneShotIterator,
}
CONTENT_FORM_NAMES = tuple(CONTENT_FORMS)
SINGLE_BLOCK_FORMS = ('block', 'frozenset_of_one', 'set_of_one')
SAVE_CIF_CONVENTIONS = ('positional', 'keywords', 'mixed')


def make_content(form, blocks):
    if form == 'block':
        assert len(blocks) == 1
        return blocks[0]
    if form == 'frozenset_of_one':
        return frozenset(blocks)
    if form == 'set_of_one':
        return set(blocks)
    return CONTENT_FORMS[form](list(blocks))


def call_save_cif(cif, conv, target, content, comment=''):
    kw = {'comment': comment} if comment else {}
    if conv == 'keywords':
        cif.save_cif(fname=target, content=content, **kw)
    elif conv == 'mixed':
        cif.save_cif(target, content=content, **kw)
    else:
        cif.save_cif(target, content, **kw)


def path_target(kind, tmpdir, name):
    """A path in one of the forms "str | Path" (and os.PathLike) can take."""
    p = os.path.join(tmpdir, name)
    if kind == 'Path':
        return pathlib.Path(p)
    if kind == 'PurePosixPath':
        return pathlib.PurePosixPath(p)
    if kind == 'PathLike':
        return FsPath(p)
    if kind == 'exists_longer':
        with open(p, 'w') as f:
            f.write(MAGIC + 'data_old_content\n\n' + ''.join(f'_old.tag{i} old_value_{i}\n' for i in range(400)))
        return p
    if kind == 'exists_shorter':
        with open(p, 'w') as f:
            f.write('#')
        return p
    return p


PATH_KINDS = ('str', 'Path', 'PurePosixPath', 'PathLike', 'exists_longer', 'exists_shorter')


class FsPath:
    """An os.PathLike object that is not a pathlib path."""

    def __init__(self, p):
        self._p = p

    def __fspath__(self):
        return self._p


def gen_lowlevel(rng, cif, tmpdir, k, force_via=None, big=None, name_prefix=''):
    """A document from Blocks / Chunks / Loops; returns (callable performing the save, XDoc).
    The callable takes an optional open handle to write into."""
    nblocks = [1, 1, 1, 1, 2, 2, 3][int(rng.integers(0, 7))]
    via = force_via or ['save_cif:buffer', 'save_cif:path', 'Block.write'][int(rng.choice(3, p=[0.6, 0.25, 0.15]))]
    if via == 'Block.write':
        nblocks = 1
    blocks, xblocks, classes, ways = [], [], set(), set()
    if big is None:
        big = rng.random() < 0.12
    for _ in range(nblocks):
        used = set()
        entries, xitems, scalars = [], [], []
        nitems = int(rng.integers(1, 5))
        n_ctor = int(rng.integers(0, nitems + 1)) if rng.random() < 0.5 else nitems
        for i in range(nitems):
            comment = hostile_comment(rng) if rng.random() < 0.4 else ''
            if rng.random() < 0.5:
                pairs, xs = {}, []
                for _ in range(int(rng.integers(1, 6))):
                    tag = _tag(rng, used)
                    if scalars and rng.random() < 0.2:
                        obj, ev, cls = _pick(rng, scalars)      # a value equal to an earlier one
                        classes.add('dup_value')
                    else:
                        obj, ev, cls = gen_scalar(rng, cif)
                        scalars.append((obj, ev, cls))
                    pairs[tag] = obj
                    xs.append(XItem('pair', [tag], [[ev]]))
                    classes.add(cls)
                pool = CHUNK_WAYS + (CHUNK_ADD_WAYS if i >= n_ctor else ())
                if not comment and rng.random() < 0.4:
                    way = _pick(rng, MAPPING_WAYS) if rng.random() < 0.4 else 'mapping'
                    if way != 'mapping':
                        ways.add(way)
                else:
                    way = _pick(rng, pool)
                entries.append(make_chunk(cif, way, pairs, comment))
                xitems += xs
            else:
                nrows = int(rng.integers(9, 51)) if big else int(rng.integers(1, 9))
                ncols = int(rng.integers(1, 7))
                multi = rng.random() < 0.5
                dim = _pick(rng, LOOP_DIMS) if rng.random() < 0.5 else 'row'
                cols, tags, evs = {}, [], []
                for _ in range(ncols):
                    tag = _tag(rng, used)
                    var, ev, cls = gen_column(rng, nrows, multi, dim)
                    cols[tag] = var
                    tags.append(tag)
                    evs.append(ev)
                    classes.add(cls.split('|')[0][:40])
                way = _pick(rng, LOOP_WAYS)
                entries.append(make_loop(cif, way, cols, comment))
                xitems.append(XItem('loop', tags, evs, comment=comment))
                classes.add(f'loop{"L" if nrows > 8 else "S"}x{ncols}')
            if comment:
                ways.add(way)
        name = name_prefix + _block_name(rng)
        bcomment = hostile_comment(rng) if rng.random() < 0.3 else ''
        name_way, bc_way = _pick(rng, BLOCK_NAME_WAYS), _pick(rng, BLOCK_COMMENT_WAYS)
        cform = _pick(rng, BLOCK_CONTENT_FORMS) if rng.random() < 0.4 else 'list'
        blocks.append(make_block(cif, name, name_way, bcomment, bc_way, entries, n_ctor, cform))
        xblocks.append(XBlock(name, xitems, bcomment))
        ways.add(name_way)
        if cform != 'list':
            ways.add('Block(content=' + cform + ')')
        if bcomment:
            ways.add(bc_way)
    top = hostile_comment(rng) if (via != 'Block.write' and rng.random() < 0.4) else ''
    trivial = all(c in ('str:plain', 'int') for c in classes if not c.startswith('loop')) and not top
    # how the blocks are handed to save_cif
    if nblocks == 1 and rng.random() < 0.6:
        form = 'block' if rng.random() < 0.9 else _pick(rng, SINGLE_BLOCK_FORMS)
    else:
        form = _pick(rng, CONTENT_FORM_NAMES)
    conv = _pick(rng, SAVE_CIF_CONVENTIONS) if rng.random() < 0.3 else 'positional'
    pkind = _pick(rng, PATH_KINDS)
    if via == 'Block.write':
        form = conv = ''
    x = XDoc('lowlevel', via, xblocks, strict=True, top_comment=top, trivial=trivial,
             sig=('lowlevel', via, nblocks, tuple(sorted(classes))[:8], bool(top), tuple(sorted(ways))[:4],
                  form, conv, pkind if via.endswith('path') else ''),
             heading=via != 'Block.write')
    kw_write = rng.random() < 0.3

    def act(target=None):
        if via == 'Block.write':
            t = io.StringIO() if target is None else target
            if kw_write:
                blocks[0].write(f=t)
            else:
                blocks[0].write(t)
            return
        if target is None:
            target = io.StringIO() if via.endswith('buffer') else path_target(pkind, tmpdir, f'd{k}.cif')
        call_save_cif(cif, conv, target, make_content(form, blocks), top)
    return act, x


def simple_lowlevel(cif, name, nrows, via='save_cif:buffer', form='block', nblocks=1, top='', conv='positional'):
    """A plain document of ``nblocks`` blocks (one chunk and one loop of ``nrows`` rows each) whose
    length is governed by ``nrows``: the building brick of the forced call sequences."""
    blocks, xblocks = [], []
    for j in range(nblocks):
        nm = name if nblocks == 1 else f'{name}-{j}'
        ids = [int(i) for i in range(nrows)]
        env = [f'{nm} env {i}' for i in range(nrows)]
        tof = [100.0 + 2.5 * i + j for i in range(nrows)]
        blocks.append(cif.Block(nm, [
            {'diffrn_source.beamline': f'beamline of {nm}', 'diffrn.ambient_temperature': sc.scalar(2.5 + j, unit='K')},
            cif.Loop({'pd_data.point_id': sc.array(dims=['x'], values=ids, unit=None, dtype='int64'),
                      'pd_meas.time_of_flight': sc.array(dims=['x'], values=tof, unit='us'),
                      'diffrn.ambient_environment': sc.array(dims=['x'], values=env)})]))
        xblocks.append(XBlock(nm, [
            XItem('pair', ['diffrn_source.beamline'], [[('str', f'beamline of {nm}')]]),
            XItem('pair', ['diffrn.ambient_temperature'], [[('f64', 2.5 + j)]]),
            XItem('loop', ['pd_data.point_id', 'pd_meas.time_of_flight', 'diffrn.ambient_environment'],
                  [[('int', i) for i in ids], [('f64', t) for t in tof], [('str', e) for e in env]])]))
    x = XDoc('lowlevel', via, xblocks, strict=True, top_comment=top, heading=via != 'Block.write',
             sig=('lowlevel', 'simple', via, form, conv, nblocks, 'L' if nrows > 8 else 'S'))

    def act(target=None):
        t = io.StringIO() if target is None else target
        if via == 'Block.write':
            blocks[0].write(t)
        else:
            call_save_cif(cif, conv, t, make_content(form, blocks), top)
    return act, x


def gen_atom(rng, cif, name, s, variant):
    """One forced string as the only value of a chunk / only cell / first cell of a loop row."""
    if variant == 'chunk':
        block = cif.Block('atom', [{'t.v': s}])
        x = [XItem('pair', ['t.v'], [[('str', s)]])]
    elif variant == 'loop_first':
        block = cif.Block('atom', [cif.Loop({'t.a': sc.array(dims=['r'], values=[s, 'p']),
                                             't.b': sc.array(dims=['r'], values=['q', 'r'])})])
        x = [XItem('loop', ['t.a', 't.b'], [[('str', s), ('str', 'p')], [('str', 'q'), ('str', 'r')]])]
    else:
        block = cif.Block('atom', [cif.Loop({'t.a': sc.array(dims=['r'], values=['p', 'q']),
                                             't.b': sc.array(dims=['r'], values=[s, 'r'])})])
        x = [XItem('loop', ['t.a', 't.b'], [[('str', 'p'), ('str', 'q')], [('str', s), ('str', 'r')]])]
    xd = XDoc('atom', 'save_cif:buffer', [XBlock('atom', x)], strict=True,
              sig=('atom', name, variant), trivial=False)
    return (lambda: cif.save_cif(io.StringIO(), block)), xd


# ------------------------------------------------------------- builder ---
def _orcid(rng):
    d = [int(v) for v in rng.integers(0, 10, size=15)]
    total = 0
    for v in d:
        total = (total + v) * 2
    chk = (12 - total % 11) % 11
    s = ''.join(map(str, d)) + ('X' if chk == 10 else str(chk))
    return '-'.join(s[i:i + 4] for i in range(0, 16, 4))


def _email(rng):
    lead = ['', '', '', '_', '#', '$', "o'"][int(rng.integers(0, 7))]
    return f'{lead}{benign_string(rng, 1, 8).lower()}@{benign_string(rng, 2, 8).lower()}.org'


def _nonempty(rng, p=0.12):
    while True:
        s = any_string(rng, p)
        if s.strip(BLANKS):
            return s


# A builder program is plain data: how the builder is created, a list of operations (each a
# with_* call; 'side' operations are applied to the intermediate builder and their result is thrown
# away), and how the result is saved.  ``build_program`` performs the calls on the real builder and
# derives the expected document from the program alone: everything supplied is expected in the
# file as often as it was supplied and in the order of the calls - equal reducers, equal persons
# and repeated calls with equal arguments included.
INTENSITY_UNITS = ('one', 'counts', 'counts/angstrom', '1/angstrom**2', 'angstrom', 'us', 'um', 'degC',
                   '1/degC', 'uA*h', 'counts/s', 'percent', 'counts/deg', 'K')
BUILDER_VIAS = ('CIF.save:buffer', 'CIF.save:path', 'save_cif(cif):buffer', 'save_cif(cif,comment):buffer',
                'CIF.save:twice')
STD_CALIB_IDS = {0: 'ZERO', 1: 'DIFC', 2: 'DIFA', -1: 'DIFB'}


def person(name, corresponding=False, role=None, orcid=None, email=None, address=None):
    return {'name': name, 'corresponding': corresponding, 'role': role, 'orcid': orcid, 'email': email,
            'address': address}


def unit_text_is_ascii(unit):
    return unit is None or str(sc.Unit(unit)).isascii()


# How the strings of the metadata objects are handed over ("style" of a program):
#   plain     Python str
#   variable  scalar scipp variables (the metadata models unpack them: metadata._model._unpack_variable)
#   np.str_   numpy strings (and np.bool_ for ``corresponding``)
#   duck      stand-ins that only have the attributes the writer reads (types.SimpleNamespace)
META_STYLES = ('plain', 'variable', 'np.str_', 'duck')


def _wrap(style, s, unit=None):
    if s is None:
        return None
    if style == 'variable':
        return sc.scalar(s) if unit is None else sc.scalar(s, unit=unit)
    if style == 'np.str_':
        return np.str_(s)
    return s


def _apply_op(cif, md, b, op, style=None):
    """Perform one with_* call of a program on the real builder."""
    kind = op['op']
    style = style or {}
    meta = op.get('meta', style.get('meta', 'plain'))
    kwcall = op.get('kw', style.get('kw', False))
    if kind == 'authors':
        people = []
        for p in op['people']:
            orcid = (('https://orcid.org/' if op.get('url') else '') + p['orcid']) if p['orcid'] else None
            if meta == 'duck':
                people.append(types.SimpleNamespace(
                    name=p['name'], corresponding=p['corresponding'], role=p['role'], orcid_id=orcid,
                    email=p['email'], address=p['address']))
                continue
            people.append(md.Person(
                name=_wrap(meta, p['name'], op.get('unit')),
                corresponding=np.bool_(p['corresponding']) if meta == 'np.str_' else p['corresponding'],
                role=_wrap(meta, p['role']), orcid_id=_wrap(meta, orcid), email=_wrap(meta, p['email']),
                address=_wrap(meta, p['address'])))
        return b.with_authors(*people)
    if kind == 'reducers':
        items = [_wrap('np.str_' if meta == 'np.str_' else 'plain', r) for r in op['items']]
        if op.get('splat') == 'generator':
            return b.with_reducers(*(r for r in items))
        return b.with_reducers(*items)
    if kind == 'beamline':
        src = None
        if op['source'] is not None:
            st = [md.SourceType.SpallationNeutronSource, md.SourceType.ReactorNeutronSource,
                  md.SourceType.SynchrotronXraySource][op['source']]
            pr = md.RadiationProbe.Xray if op['source'] == 2 else md.RadiationProbe.Neutron
            if meta == 'duck':
                src = types.SimpleNamespace(source_type=st, probe=pr, name=None)
            else:
                src = md.Source(source_type=st, probe=pr, name=_wrap(meta, 'the source'))
        if meta == 'duck':
            bl = types.SimpleNamespace(name=op['name'], facility=op['facility'])
        else:
            bl = md.Beamline(name=_wrap(meta, op['name']), facility=_wrap(meta, op['facility']))
        kw = {'comment': op['comment']} if 'comment' in op else {}
        if kwcall:
            return b.with_beamline(beamline=bl, source=src, **kw)
        if src is None and not kw and op.get('source_omitted'):
            return b.with_beamline(bl)
        return b.with_beamline(bl, src, **kw)
    if kind == 'reduced':
        dim = op['dim']
        dt = 'float32' if op['f32'] else 'float64'
        coord = sc.array(dims=[dim], values=op['cx'], variances=op['cv'],
                         unit='us' if dim == 'tof' else 'angstrom')
        data = sc.array(dims=[dim], values=op['dx'], variances=op['dv'], unit=op['unit'], dtype=dt)
        da = sc.DataArray(data, coords={dim: coord}, name=op['dname'])
        if op.get('masked'):
            # masks do not take values away: what was supplied is the data of every point
            n = len(op['dx'])
            da.masks['bad'] = sc.array(dims=[dim], values=[i % 2 == 1 for i in range(n)])
            da.masks['all'] = sc.array(dims=[dim], values=[True] * n)
        if op.get('bystanders'):
            da.coords['temperature'] = sc.scalar(4.2, unit='K')
            da.coords['run'] = sc.array(dims=[dim], values=[f'r{i}' for i in range(len(op['dx']))])
        kw = {'comment': op['comment']} if 'comment' in op else {}
        if kwcall:
            return b.with_reduced_powder_data(data=da, **kw)
        return b.with_reduced_powder_data(da, **kw)
    if kind == 'calibration':
        cdim = op.get('cdim', 'cal')
        cal = sc.DataArray(sc.array(dims=[cdim], values=op['cx'], variances=op['cv'], unit='us'),
                           coords={'power': sc.array(dims=[cdim], values=op['powers'], unit=None)})
        if op.get('masked'):
            cal.masks['bad'] = sc.array(dims=[cdim], values=[i % 2 == 0 for i in range(len(op['cx']))])
        kw = {'comment': op['comment']} if 'comment' in op else {}
        if kwcall:
            return b.with_powder_calibration(cal=cal, **kw)
        return b.with_powder_calibration(cal, **kw)
    raise AssertionError(kind)


def _expect_op(op, st):
    """Add what one call supplied to the expected state ``st``."""
    kind = op['op']
    classes = st['classes']
    if kind == 'authors':
        st['people'] += op['people']
        classes.add(f'authors{min(len(op["people"]), 3)}')
    elif kind == 'reducers':
        st['reducers'] += op['items']
        classes.add(f'reducers{len(op["items"])}')
    elif kind == 'beamline':
        fac, src = op['facility'], op['source']
        probes, devices = {'neutron', 'x-ray'}, {'spallation', 'nuclear', 'synch'}
        if src is not None:
            probes = {['neutron', 'neutron', 'x-ray'][src]}
            devices = {['spallation', 'nuclear', 'synch'][src]}
        opt = set() if src is not None else {'diffrn_radiation.probe', 'diffrn_source.device'}
        for tag, ev in (('diffrn_radiation.probe', ('oneof', probes)),
                        ('diffrn_source.beamline', ('str', op['name'])),
                        ('diffrn_source.facility', ('str', fac) if fac is not None else None),
                        ('diffrn_source.device', ('oneof', devices))):
            if ev is not None:
                st['content'].append(XItem('pair', [tag], [[ev]], group='auto' if tag in opt else 'user',
                                           optional={tag} & opt, comment=op.get('comment', '')))
        classes.add('beamline:' + ('src' if src is not None else 'nosrc') + ':' + string_class(op['name']))
    elif kind == 'reduced':
        n, f32, cv, dv = len(op['cx']), op['f32'], op['cv'], op['dv']
        ctag = 'pd_meas.time_of_flight' if op['dim'] == 'tof' else 'pd_proc.d_spacing'
        dtag = 'pd_proc.' + (op['dname'] or 'intensity_norm')
        tags = ['pd_data.point_id', ctag]
        cols = [[('unique',)] * n, [('f64', x) for x in op['cx']]]
        if cv is not None:
            tags.append(ctag + '_su')
            cols.append([('su', v, False) for v in cv])
        tags.append(dtag)
        cols.append([('f32' if f32 else 'f64', x) for x in op['dx']])
        if dv is not None:
            tags.append(dtag + '_su')
            cols.append([('su', v, f32) for v in dv])
        st['content'].append(XItem('loop', tags, cols, group='user', col_order=False,
                                   comment=op.get('comment', '')))
        st['schemas'].add('pdCIF')
        classes.add(f'reduced:{op["dim"]}:{"f32" if f32 else "f64"}:{"su" if dv else "nosu"}:'
                    f'{"csu" if cv else ""}:{op["unit"]}')
        if not unit_text_is_ascii(op['unit']):
            st['unit_non_ascii'] = True
    elif kind == 'calibration':
        powers, cv = op['powers'], op['cv']
        fl = any(isinstance(p, float) for p in powers)
        tags = ['pd_calib_d_to_tof.id', 'pd_calib_d_to_tof.power', 'pd_calib_d_to_tof.coeff']
        cols = [[('str', STD_CALIB_IDS[p]) if p in STD_CALIB_IDS else ('nonblank',) for p in powers],
                [('f64', p) if fl else ('int', p) for p in powers],
                [('f64', x) for x in op['cx']]]
        if cv is not None:
            tags.append('pd_calib_d_to_tof.coeff_su')
            cols.append([('su', v, False) for v in cv])
        st['content'].append(XItem('loop', tags, cols, group='user', col_order=False,
                                   comment=op.get('comment', '')))
        st['schemas'].add('pdCIF')
        classes.add(f'calib:{"float" if fl else "int"}:{"su" if cv else "nosu"}')
    else:
        raise AssertionError(kind)


def _has_repeats(seq):
    seen = []
    for s in seq:
        if s in seen:
            return True
        seen.append(s)
    return False


def build_program(cif, md, prog, tmpdir, k):
    """(callable performing the save, XDoc) for a builder program."""
    name, top = prog['name'], prog.get('top', '')
    name_way, top_way = prog.get('name_way', 'CIF(name)'), prog.get('top_way', 'CIF(comment=)')
    kw = {'comment': top} if top_way == 'CIF(comment=)' else {}
    if name_way == 'CIF(name)':
        b = cif.CIF(name, **kw)
    elif name_way == 'CIF(name=)':
        b = cif.CIF(name=name, **kw)
    else:
        b = cif.CIF(**kw)                   # default name, assigned through the property below
    if top_way == 'CIF.comment=':
        b.comment = top
    if name_way == 'CIF.name=':
        b.name = name
    st = {'people': [], 'reducers': [], 'content': [], 'schemas': {'coreCIF'}, 'classes': set()}
    style = prog.get('style', {})
    for op in prog['ops']:
        if op.get('side'):
            _apply_op(cif, md, b, op, style)   # a branch that is thrown away: must not change ``b``
            st['classes'].add('side:' + op['op'])
            continue
        b = _apply_op(cif, md, b, op, style)
        _expect_op(op, st)
        for flag in ('masked', 'bystanders', 'cdim', 'splat'):
            if op.get(flag):
                st['classes'].add(f'{op["op"]}:{flag}')
    if style.get('meta', 'plain') != 'plain':
        st['classes'].add('meta:' + style['meta'])
    if style.get('kw'):
        st['classes'].add('with_*(keywords)')
    if top_way == 'CIF.comment=end':
        b.comment = top
    if name_way == 'CIF.name=end':
        b.name = name
    people, reducers, classes = st['people'], st['reducers'], st['classes']
    # ---- expected file ----
    items = [XItem('loop', ['audit_conform.dict_name', 'audit_conform.dict_version',
                            'audit_conform.dict_location'],
                   [[('str', s) for s in sorted(st['schemas'])], [], []], group='auto', special='schema')]
    items.append(XItem('pair', ['audit.creation_date'], [[('now',)]], group='auto'))
    items.append(XItem('pair', ['audit.creation_method'], [[('nonblank',)]], group='auto'))
    if len(reducers) == 1:
        items.append(XItem('pair', ['computing.diffrn_reduction'], [[('str', reducers[0])]], group='auto'))
    elif len(reducers) > 1:
        items.append(XItem('loop', ['computing.diffrn_reduction'], [[('str', r) for r in reducers]],
                           group='auto'))
    contact = [p for p in people if p['corresponding']]
    regular = [p for p in people if not p['corresponding']]
    for cat, group in (('audit_contact_author', contact), ('audit_author', regular)):
        if not group:
            continue
        tags, cols, opt = [], [], set()
        for key, tag, mk in (('name', 'name', 'str'), ('email', 'email', 'str'),
                             ('address', 'address', 'str'), ('orcid', 'id_orcid', 'orcid')):
            vals = [p[key] for p in group]
            tags.append(f'{cat}.{tag}')
            cols.append([(mk, v) if v else ('str', '') for v in vals])
            if not any(vals):
                opt.add(f'{cat}.{tag}')
        tags.append(f'{cat}.id')
        cols.append([('nonblank',)] * len(group))
        if not any(p['role'] for p in group):
            opt.add(f'{cat}.id')
        if len(group) == 1:
            for t, c in zip(tags, cols, strict=True):
                items.append(XItem('pair', [t], [c], group='auto', optional={t} & opt))
        else:
            items.append(XItem('loop', tags, cols, group='auto', optional=opt, col_order=False))
    n_roles = sum(1 for p in people if p['role'])
    if n_roles:
        items.append(XItem('loop', ['audit_author_role.id', 'audit_author_role.role'],
                           [[('nonblank',)] * n_roles, [('any',)] * n_roles], group='auto',
                           special='roles', col_order=False))
    items += st['content']
    via = prog.get('via', 'CIF.save:buffer')
    top2 = prog.get('top2', 'second comment') if via.startswith('save_cif(cif,comment)') else top
    classes.add(f'people:{min(len(contact), 2)}c{min(len(regular), 2)}r:{"roles" if n_roles else "noroles"}')
    if _has_repeats(reducers):
        classes.add('dup:reducers')
    if _has_repeats(people):
        classes.add('dup:persons')
    if _has_repeats([p['role'] for p in people if p['role']]):
        classes.add('dup:roles')
    if st.get('unit_non_ascii'):
        classes.add('unit_non_ascii')
    if name_way != 'CIF(name)' or top_way != 'CIF(comment=)':
        classes.add(f'{name_way}|{top_way}')
    x = XDoc('builder', via, [XBlock(name, items)], strict=False, top_comment=top2,
             sig=('builder', via, tuple(sorted(classes))[:10]) + tuple(prog.get('sig', ())), trivial=False,
             builder={'contact': contact, 'regular': regular})

    kwsave = bool(style.get('kw'))
    pkind = prog.get('path_kind', 'str')

    def act(target=None):
        if target is None:
            target = path_target(pkind, tmpdir, f'b{k}.cif') if via.endswith('path') else io.StringIO()
        if via == 'CIF.save:twice':
            b.save(io.StringIO())       # ids continue from the builder-wide generator
            b.save(target)
        elif via.startswith('CIF.save'):
            if kwsave:
                b.save(fname=target)
            else:
                b.save(target)
        elif via.startswith('save_cif(cif,comment)'):
            call_save_cif(cif, 'keywords' if kwsave else 'positional', target, b, top2)
        else:
            call_save_cif(cif, 'keywords' if kwsave else 'positional', target, b)
    act.builder = b
    return act, x


def _again(rng, pool, fresh, p=0.3):
    """A value for a repeated item: with probability ``p`` exactly one that this program used
    before (independent random strings never collide), otherwise a new one."""
    if pool and rng.random() < p:
        return pool[int(rng.integers(0, len(pool)))]
    v = fresh()
    pool.append(v)
    return v


def gen_program(rng):
    """Random builder program: 0..8 calls; with_authors / with_reducers any number of times,
    the calls that define fixed tags (beamline, reduced data, calibration) at most once."""
    prog = {'name': _block_name(rng) if rng.random() < 0.9 else 'b',
            'top': hostile_comment(rng) if rng.random() < 0.5 else '',
            'name_way': ['CIF(name)', 'CIF(name)', 'CIF(name=)', 'CIF.name=', 'CIF.name=end'][int(rng.integers(0, 5))],
            'top_way': ['CIF(comment=)', 'CIF(comment=)', 'CIF.comment=', 'CIF.comment=end'][int(rng.integers(0, 4))]}
    pools = {k: [] for k in ('name', 'role', 'address', 'email', 'orcid', 'reducer', 'person')}
    once = {'beamline', 'reduced', 'calibration'}
    ops = []
    last = {}
    for _ in range(int(rng.integers(0, 9))):
        kind = ['authors', 'authors', 'reducers', 'reducers', 'beamline', 'reduced', 'calibration'][
            int(rng.integers(0, 7))]
        if kind in once:
            if any(o['op'] == kind and not o.get('side') for o in ops):
                continue
        if kind in last and kind not in once and rng.random() < 0.15:
            op = dict(last[kind])           # the same call with equal arguments once more
        elif kind == 'authors':
            ps = []
            for _ in range(int(rng.integers(0, 6))):
                if pools['person'] and rng.random() < 0.15:
                    ps.append(dict(_pick(rng, pools['person'])))     # the same person again
                    continue
                p = person(
                    _again(rng, pools['name'], lambda: _nonempty(rng), 0.15),
                    bool(rng.random() < 0.4),
                    _again(rng, pools['role'], lambda: _nonempty(rng), 0.4) if rng.random() < 0.5 else None,
                    _again(rng, pools['orcid'], lambda: _orcid(rng), 0.1) if rng.random() < 0.5 else None,
                    _again(rng, pools['email'], lambda: _email(rng), 0.1) if rng.random() < 0.5 else None,
                    _again(rng, pools['address'], lambda: _nonempty(rng), 0.3) if rng.random() < 0.4 else None)
                pools['person'].append(p)
                ps.append(p)
            op = {'op': 'authors', 'people': ps, 'url': bool(rng.random() < 0.5)}
        elif kind == 'reducers':
            op = {'op': 'reducers', 'items': [_again(rng, pools['reducer'], lambda: _nonempty(rng))
                                              for _ in range(int(rng.integers(0, 4)))]}
        elif kind == 'beamline':
            op = {'op': 'beamline', 'facility': [None, 'ESS', 'isis', _nonempty(rng)][int(rng.integers(0, 4))],
                  'name': _nonempty(rng),
                  'source': int(rng.integers(0, 3)) if rng.random() < 0.5 else None}
        elif kind == 'reduced':
            n = int(rng.integers(1, 51)) if rng.random() < 0.2 else int(rng.integers(1, 8))
            f32 = bool(rng.random() < 0.25)
            cx, _ = _with_repeats(rng, n, lambda: abs(rand_float(rng)))
            dx, _ = _with_repeats(rng, n, lambda: rand_float(rng, f32))
            op = {'op': 'reduced', 'dim': ['tof', 'dspacing'][int(rng.integers(0, 2))], 'f32': f32,
                  'cx': cx, 'cv': [rand_var(rng, x) for x in cx] if rng.random() < 0.3 else None,
                  'dx': dx, 'dv': [rand_var(rng, x, f32) for x in dx] if rng.random() < 0.7 else None,
                  'unit': _unit(rng, INTENSITY_UNITS) if rng.random() < 0.6 else _unit(rng, ('one', 'counts')),
                  'dname': ['', 'intensity_net', 'intensity_norm', 'intensity_total'][int(rng.integers(0, 4))]}
        else:
            pool = [0, 1, 2, -1, 3, -2, 4]
            n = int(rng.integers(1, 6))
            powers = [pool[int(i)] for i in rng.permutation(len(pool))[:n]]
            if rng.random() < 0.3:
                powers = [float(p) + (0.5 if rng.random() < 0.3 else 0.0) for p in powers]
            cx, _ = _with_repeats(rng, n, lambda: rand_float(rng))
            op = {'op': 'calibration', 'powers': powers, 'cx': cx,
                  'cv': [rand_var(rng, x) for x in cx] if rng.random() < 0.5 else None}
        if kind in once and 'comment' not in op and rng.random() < 0.85:
            op['comment'] = hostile_comment(rng)        # else: the keyword is not passed at all
        last[kind] = op
        if rng.random() < 0.08:
            op = dict(op, side=True)
        ops.append(op)
    prog['ops'] = ops
    prog['style'] = {'meta': _pick(rng, META_STYLES) if rng.random() < 0.3 else 'plain',
                     'kw': bool(rng.random() < 0.25)}
    for op in ops:
        if op['op'] in ('reduced', 'calibration') and rng.random() < 0.2:
            op['masked'] = True
        if op['op'] == 'reduced' and rng.random() < 0.2:
            op['bystanders'] = True
        if op['op'] == 'calibration' and rng.random() < 0.4:
            op['cdim'] = _pick(rng, LOOP_DIMS)
    prog['path_kind'] = _pick(rng, PATH_KINDS)
    prog['via'] = BUILDER_VIAS[int(rng.choice(5, p=[0.4, 0.2, 0.15, 0.15, 0.1]))]
    if prog['via'].startswith('save_cif(cif,comment)'):
        prog['top2'] = hostile_comment(rng) or 'second comment'
    return prog


def gen_builder(rng, cif, md, tmpdir, k):
    return build_program(cif, md, gen_program(rng), tmpdir, k)


# ---- forced programs and documents: one per class named in requirements() -------------------
_NA_COMMENTS = ('d-spacing in \xc5, λ = 1.5 \xc5', 'caf\xe9\nsecond line \xb5m at 20 \xb0C', '日本語 # data_x',
                # not in NFC / NFKC form
                'Jose\u0301 at 1.54 \u212b, 293 \u212a\n\u037e e\ufb03cient \uff03\uff44ata_x')
_NA_NAME = 'r\xe9sum\xe9_\xc5'
_NA_NAMES = (('', _NA_NAME), (':nonnfc', 'Jose\u0301_\u212b_\u212a\u037e\ufb01\uff21'),
             (':nonnfc_lead', '\u037e\uff3fA\u030a'))


def _reduced_op(unit, dim='dspacing', **kw):
    return dict({'op': 'reduced', 'dim': dim, 'f32': False, 'cx': [0.8, 1.1, 1.9], 'cv': None,
                 'dx': [13.6, 26.0, 9.7], 'dv': [0.7, 1.1, 0.5], 'unit': unit, 'dname': ''}, **kw)


def forced_programs():
    """[(forced class, program)]"""
    a, b_ = 'mantid 6.9', 'scipp 24.11'
    p1 = person('Jane Doe', True, 'principal investigator', '0000-0002-1825-0097')
    p2 = person('Max Mustermann', False, 'data curation')
    out = [
        ('dup:reducers_same_call', [{'op': 'reducers', 'items': ['prog 1', 'prog 1']}]),
        ('dup:reducers_across_calls', [{'op': 'reducers', 'items': [a, b_]}, {'op': 'reducers', 'items': [a]}]),
        ('dup:reducers_call_repeated', [{'op': 'reducers', 'items': [a, b_]}, {'op': 'reducers', 'items': [a, b_]}]),
        ('dup:reducers_three_equal', [{'op': 'reducers', 'items': [a]}] * 3),
        ('dup:reducers_non_adjacent', [{'op': 'reducers', 'items': [a, b_, "o'x", a, b_]}]),
        ('dup:person_same_call', [{'op': 'authors', 'people': [p2, dict(p2)]}]),
        ('dup:person_across_calls', [{'op': 'authors', 'people': [p1, p2]}, {'op': 'authors', 'people': [p1]},
                                     {'op': 'authors', 'people': [p2]}]),
        ('dup:contact_person_twice', [{'op': 'authors', 'people': [p1, dict(p1)]}]),
        ('dup:roles_equal', [{'op': 'authors', 'people': [person('A B', False, 'formal analysis'),
                                                         person('C D', False, 'formal analysis'),
                                                         person('E F', True, 'formal analysis')]}]),
        ('dup:names_equal', [{'op': 'authors', 'people': [person('A B', False, 'software'),
                                                         person('A B', False, 'validation'),
                                                         person('A B', True, None), person('A B', True, 'software')]}]),
        ('dup:everything_equal_no_roles', [{'op': 'authors', 'people': [person('A B'), person('A B'),
                                                                       person('A B')]}]),
        ('side:reducers', [{'op': 'reducers', 'items': [a]}, {'op': 'reducers', 'items': ['side'], 'side': True},
                           {'op': 'reducers', 'items': [b_]}]),
        ('side:authors', [{'op': 'authors', 'people': [p1]}, {'op': 'authors', 'people': [p2], 'side': True},
                          {'op': 'authors', 'people': [dict(p2, name='X Y')]}]),
        ('side:content', [_reduced_op('counts', side=True), {'op': 'reducers', 'items': [a]}]),
    ]
    out = [(n, {'name': 'forced', 'ops': ops}) for n, ops in out]
    for u in INTENSITY_UNITS:
        for dim in ('dspacing', 'tof'):
            out.append((f'intensity_unit:{u}:{dim}',
                        {'name': 'forced', 'ops': [_reduced_op(u, dim, comment='normalised')]}))
    out.append(('intensity_unit:counts/angstrom:no_comment',
                {'name': 'forced', 'ops': [_reduced_op('counts/angstrom')]}))
    for i, c in enumerate(_NA_COMMENTS):
        for way in ('CIF(comment=)', 'CIF.comment=', 'CIF.comment=end'):
            out.append((f'comment_way:{way}:{i}', {'name': 'forced', 'top': c, 'top_way': way,
                                                   'ops': [{'op': 'reducers', 'items': [a]}]}))
        out.append((f'comment_way:save_cif(CIF,comment=):{i}',
                    {'name': 'forced', 'top': 'first', 'top2': c, 'via': 'save_cif(cif,comment):buffer', 'ops': []}))
        out.append((f'comment_way:with_beamline(comment=):{i}',
                    {'name': 'forced', 'ops': [{'op': 'beamline', 'facility': 'ESS', 'name': 'DREAM',
                                                'source': None, 'comment': c}]}))
        out.append((f'comment_way:with_reduced_powder_data(comment=):{i}',
                    {'name': 'forced', 'ops': [_reduced_op('counts/angstrom', comment=c)]}))
        out.append((f'comment_way:with_powder_calibration(comment=):{i}',
                    {'name': 'forced', 'ops': [{'op': 'calibration', 'powers': [0, 1], 'cx': [3.4, 0.2],
                                                'cv': None, 'comment': c}]}))
    for way in ('CIF(name)', 'CIF(name=)', 'CIF.name=', 'CIF.name=end'):
        for suffix, nm in _NA_NAMES:
            out.append((f'name_way:{way}{suffix}', {'name': nm, 'name_way': way,
                                                    'ops': [{'op': 'reducers', 'items': [a]}]}))
    # every free-text string of the builder, not in NFC / NFKC form: names, addresses, roles, beamline,
    # facility, reducers
    for label, t in NON_NORMALISED:
        # (not the e-mail address: metadata.Person validates it as pydantic.EmailStr, which normalises
        # internationalised addresses - a validated entity, not one of the free-text strings)
        out.append((f'nonnfc:builder:{label}', {'name': 'forced', 'ops': [
            {'op': 'beamline', 'facility': t, 'name': t, 'source': None},
            {'op': 'authors', 'people': [person(t, True, t, None, 'jane@ess.eu', t),
                                         person('Second Author', False, None, None, None, t),
                                         person(t, False, 'reviewer')]},
            {'op': 'reducers', 'items': [t, 'other software 1.0']}]}))
    for via in BUILDER_VIAS:
        out.append((f'save_way:{via}', {'name': 'forced', 'via': via, 'top': 'top', 'ops': [
            {'op': 'authors', 'people': [p1, p2]}, {'op': 'reducers', 'items': [a, a]}]}))
    # metadata handed over as scalar scipp variables / numpy strings / duck-typed stand-ins
    full1 = person('Jane Doe', True, 'principal investigator', '0000-0002-1825-0097', "o'jane@ess.eu",
                   'Partikelgatan 2, 224 84 Lund')
    full2 = person("Max O'Mustermann", False, 'data curation', None, None, 'K\xf8benhavn \xd8')
    everything = [{'op': 'authors', 'people': [full1, full2], 'url': True},
                  {'op': 'reducers', 'items': [a, 'data_reduction v2']},
                  {'op': 'beamline', 'facility': 'ESS', 'name': 'DREAM', 'source': 0, 'comment': 'the beamline'},
                  _reduced_op('counts', comment='reduced'),
                  {'op': 'calibration', 'powers': [0, 1, 2], 'cx': [3.4, 0.2, -0.01], 'cv': [0.01, 0.02, 0.0],
                   'comment': 'calibration'}]
    for meta in META_STYLES[1:]:
        out.append((f'meta:{meta}:everything', {'name': 'forced', 'style': {'meta': meta}, 'ops': everything}))
        out.append((f'meta:{meta}:one_author_no_source',
                    {'name': 'forced', 'style': {'meta': meta},
                     'ops': [{'op': 'authors', 'people': [full2]},
                             {'op': 'beamline', 'facility': None, 'name': '_POWGEN #1', 'source': None}]}))
    out.append(('meta:variable:dimensionless_unit',
                {'name': 'forced', 'style': {'meta': 'variable'},
                 'ops': [{'op': 'authors', 'people': [p1, p2], 'unit': 'one'}]}))
    out.append(('call:with_*(keywords)', {'name': 'forced', 'style': {'kw': True}, 'via': 'CIF.save:buffer',
                                          'ops': everything}))
    out.append(('call:save_cif(fname=,content=CIF,comment=)',
                {'name': 'forced', 'style': {'kw': True}, 'via': 'save_cif(cif,comment):buffer', 'top2': 'kw',
                 'ops': everything[:2]}))
    out.append(('call:with_beamline(source omitted)',
                {'name': 'forced', 'ops': [{'op': 'beamline', 'facility': 'isis', 'name': 'POLARIS', 'source': None,
                                            'source_omitted': True}]}))
    out.append(('oneshot:with_reducers(*generator)',
                {'name': 'forced', 'ops': [{'op': 'reducers', 'items': [a, b_, a], 'splat': 'generator'}]}))
    # masks and bystander coordinates do not take supplied values away
    out.append(('masks:reduced', {'name': 'forced', 'ops': [_reduced_op('counts', masked=True)]}))
    out.append(('masks:reduced:tof_with_coord_su',
                {'name': 'forced', 'ops': [_reduced_op('counts', 'tof', masked=True, cv=[0.01, 0.04, 0.09])]}))
    out.append(('masks:calibration', {'name': 'forced', 'ops': [
        {'op': 'calibration', 'powers': [0, 1, 2], 'cx': [3.4, 0.2, -0.01], 'cv': [0.01, 0.02, 0.0],
         'masked': True}]}))
    out.append(('coords:bystanders', {'name': 'forced', 'ops': [_reduced_op('counts', bystanders=True)]}))
    # caller dims named like the dims the writer uses for its own loops
    for d in LOOP_DIMS:
        out.append((f'dims:calibration:{d}', {'name': 'forced', 'ops': [
            {'op': 'reducers', 'items': [a, b_]}, {'op': 'authors', 'people': [p1, p2, dict(p2, name='Third')]},
            {'op': 'calibration', 'powers': [1, 0], 'cx': [0.2, 3.4], 'cv': None, 'cdim': d}]}))
    # beyond the sizes of the random documents
    n = 600
    out.append(('size:reduced_600_points', {'name': 'forced', 'ops': [dict(
        _reduced_op('counts', 'tof'), cx=[100.0 + 0.25 * i for i in range(n)], cv=None,
        dx=[float((i * 37) % 101) + 0.5 for i in range(n)], dv=[1.0 + (i % 7) for i in range(n)])]}))
    for pk in PATH_KINDS:
        out.append((f'target:CIF.save:{pk}', {'name': 'forced', 'via': 'CIF.save:path', 'path_kind': pk,
                                              'ops': [{'op': 'reducers', 'items': [a]}]}))
    return out


def forced_lowlevel():
    """[(forced class, chunk way | None, loop way | None, block comment way, block name way, comment index)]
    for every public way of attaching a comment / a name to Chunk, Loop and Block."""
    out = []
    for i in range(len(_NA_COMMENTS)):
        for w in CHUNK_WAYS + CHUNK_ADD_WAYS:
            out.append((f'comment_way:{w}:{i}', w, None, None, 'Block(name)', i))
        for w in LOOP_WAYS:
            out.append((f'comment_way:{w}:{i}', None, w, None, 'Block(name)', i))
        for w in BLOCK_COMMENT_WAYS:
            out.append((f'comment_way:{w}:{i}', None, None, w, 'Block(name)', i))
    for w in BLOCK_NAME_WAYS:
        for j, (suffix, _) in enumerate(_NA_NAMES):
            out.append((f'name_way:{w}{suffix}', None, None, None, w, j))
    out.append(('dup:loop_rows_equal', None, None, None, 'Block(name)', 0))
    out.append(('dup:chunk_values_equal', None, None, None, 'Block(name)', 0))
    return out


def gen_forced_lowlevel(cif, spec):
    cls, cway, lway, bway, nway, i = spec
    c = _NA_COMMENTS[0 if cls.startswith('name_way') else i]
    name = _NA_NAMES[i][1] if cls.startswith('name_way') else 'forced'
    pairs = {'t.a': 'x', 't.b': sc.scalar(1.5, unit='angstrom')}
    vals = ['p', 'q', 'p']
    if cls == 'dup:loop_rows_equal':
        vals = ['same row', 'same row', 'same row']
    if cls == 'dup:chunk_values_equal':
        pairs = {'t.a': 'same', 't.b': 'same', 't.c': 'same'}
    cols = {'l.s': sc.array(dims=['r'], values=vals),
            'l.x': sc.array(dims=['r'], values=[1.0, 1.0, 1.0] if cls.startswith('dup') else [1.0, 2.5, 1.0],
                            unit='angstrom')}
    entries = [make_chunk(cif, cway or 'Chunk(dict,comment=)', pairs, c if cway else ''),
               make_loop(cif, lway or 'Loop(dict,comment=)', cols, c if lway else '')]
    blk = make_block(cif, name, nway, c if bway else '', bway or 'Block(comment=)', entries,
                     0 if cway in CHUNK_ADD_WAYS else 1)
    xitems = [XItem('pair', [t], [[model_of(v)]]) for t, v in pairs.items()]
    xitems.append(XItem('loop', list(cols), [[('str', v) for v in vals],
                                             [('f64', float(v)) for v in cols['l.x'].values]]))
    x = XDoc('lowlevel', 'save_cif:buffer', [XBlock(name, xitems, c if bway else '')], strict=True,
             sig=('lowlevel', 'forced', cls))
    return (lambda: cif.save_cif(io.StringIO(), blk)), x


# ======================================================================
# call sequences into one open handle
# ======================================================================
# A handle belongs to the caller: a call writes its document at the position the handle stands at
# and touches nothing else.  Three families of handles:
#   * any call, the handle only ever grows: the whole text is judged as well (all blocks, in order)
#   * any call, the handle stands in front of older text: the call overwrites part of it, only the
#     fragment between the positions before and after the call is the document
#   * handles that only Block.write takes on the unchanged tree (save_cif / CIF.save refuse real
#     file objects with TypeError: recorded in DESIGN.md as outside the listed properties)
HANDLES_GROWING = ('StringIO', 'TeeStringIO', 'StringIO(initial)@end', 'StringIO:written_by_caller')
HANDLES_OVERWRITING = ('StringIO(initial)@0', 'StringIO@middle', 'StringIO@0_after_write')
HANDLES_WRITE_ONLY = ('file:w', 'file:a', 'file:r+@end', 'file:w+', 'WriteOnly')
CALLER_PREFACE = "# notes of the caller\ndata_caller_block\n_caller.note 'written by hand'\n_caller.n 3\n"
OLD_TEXT = MAGIC + 'data_old_document\n\n' + ''.join(f'_old.tag{i} old_value_{i}\n' for i in range(120))


def _caller_blocks(name='caller_block'):
    return [XBlock(name, [XItem('pair', ['caller.note'], [[('str', 'written by hand')]]),
                          XItem('pair', ['caller.n'], [[('int', 3)]])], strict=True)]


def open_handle(kind, tmpdir, key):
    """-> (handle, blocks the caller wrote himself, judge the whole text?, close)"""
    path = os.path.join(tmpdir, f'h{key}.cif')
    if kind == 'StringIO':
        return io.StringIO(), [], True, lambda: None
    if kind == 'TeeStringIO':
        return TeeStringIO(), [], True, lambda: None
    if kind == 'StringIO(initial)@end':
        h = io.StringIO(CALLER_PREFACE)
        h.seek(0, 2)
        return h, _caller_blocks(), True, lambda: None
    if kind == 'StringIO:written_by_caller':
        h = io.StringIO()
        h.write(CALLER_PREFACE)
        return h, _caller_blocks(), True, lambda: None
    if kind == 'StringIO(initial)@0':
        return io.StringIO(OLD_TEXT), [], False, lambda: None
    if kind == 'StringIO@middle':
        h = io.StringIO()
        h.write(OLD_TEXT)
        h.seek(len(OLD_TEXT) // 3)
        return h, [], False, lambda: None
    if kind == 'StringIO@0_after_write':
        h = io.StringIO()
        h.write(OLD_TEXT)
        h.seek(0)
        return h, [], False, lambda: None
    if kind == 'WriteOnly':
        return WriteOnly(), [], True, lambda: None
    if kind == 'file:w':
        h = open(path, 'w')  # noqa: SIM115
        return h, [], True, h.close
    if kind == 'file:w+':
        h = open(path, 'w+')  # noqa: SIM115
        h.write(CALLER_PREFACE)
        return h, _caller_blocks(), True, h.close
    with open(path, 'w') as f:
        f.write(CALLER_PREFACE)
    if kind == 'file:a':
        h = open(path, 'a')  # noqa: SIM115
        return h, _caller_blocks(), True, h.close
    if kind == 'file:r+@end':
        h = open(path, 'r+')  # noqa: SIM115
        h.seek(0, 2)
        return h, _caller_blocks(), True, h.close
    raise AssertionError(kind)


def _session_program(letter, j):
    p1 = person('Jane Doe', True, 'measurement', '0000-0002-1825-0097')
    p2 = person('Max Mustermann', False, 'analysis')
    n = 12
    reduced = dict(_reduced_op('counts', 'tof'), cx=[100.0 + 2.5 * i for i in range(n)],
                   dx=[10.0 + i for i in range(n)], dv=[0.25 * (i + 1) for i in range(n)])
    ops = {
        'B': [{'op': 'authors', 'people': [p1, p2]}, {'op': 'reducers', 'items': ['some package 1.0', 'other 2.0']},
              {'op': 'beamline', 'facility': 'ESS', 'name': 'DREAM', 'source': None}, reduced],
        'R': [{'op': 'authors', 'people': [p1, p2]}, reduced],
        'C': [{'op': 'calibration', 'powers': [0, 1], 'cx': [3.5, 0.25], 'cv': None}],
        'S': [{'op': 'reducers', 'items': ['tiny 0.1']}],
        'K': [{'op': 'authors', 'people': [p2]}, {'op': 'reducers', 'items': ['tiny 0.1']}],
    }[letter]
    via = {'S': 'save_cif(cif):buffer', 'K': 'save_cif(cif,comment):buffer'}.get(letter, 'CIF.save:buffer')
    return {'name': f'call{j}_{letter}', 'via': via, 'top': 'comment of the builder' if letter in 'BK' else '',
            'top2': 'comment given to save_cif', 'ops': ops, 'sig': ('session', letter)}


def session_steps(cif, md, pattern, tmpdir, key):
    """Steps of a forced call sequence.  Letters: L / l save_cif(Block) with a long / short loop,
    M save_cif(generator of two blocks), W / w Block.write short / long, B R C builder documents saved
    with CIF.save, S save_cif(CIF), K save_cif(CIF, comment=), T / D text the caller writes himself
    (a comment / a data block), = the previous call once more with the same objects."""
    steps = []
    for j, c in enumerate(pattern):
        nm = f'call{j}_{c}'
        if c == 'T':
            steps.append(('caller', f'# the caller writes between the calls ({j})\n', []))
        elif c == 'D':
            steps.append(('caller', CALLER_PREFACE.replace('caller_block', nm), _caller_blocks(nm)))
        elif c == '=':
            _, act, x = steps[-1]
            x2 = _copy.copy(x)
            x2.env = {}
            x2.sig = x.sig + ('again',)
            steps.append(('call', act, x2))
        elif c in 'LlMWw':
            act, x = simple_lowlevel(cif, nm, {'L': 20, 'l': 2, 'M': 3, 'W': 3, 'w': 15}[c],
                                     via='Block.write' if c in 'Ww' else 'save_cif:buffer',
                                     form='generator_expression' if c == 'M' else 'block',
                                     nblocks=2 if c == 'M' else 1,
                                     top='file comment' if c == 'L' else '')
            steps.append(('call', act, x))
        else:
            act, x = build_program(cif, md, _session_program(c, j), tmpdir, f'{key}_{j}')
            steps.append(('call', act, x))
    return steps


FORCED_SESSIONS = (
    [('StringIO', p) for p in ('Ll', 'lL', 'BMW', 'TlDS', 'RC', 'B=', 'l=', 'KwK')]
    + [('TeeStringIO', 'lL'), ('TeeStringIO', 'BW'), ('StringIO(initial)@end', 'lB'),
       ('StringIO:written_by_caller', 'Ml')]
    + [(k, p) for k in HANDLES_OVERWRITING for p in ('l', 'B', 'L')]
    + [('file:w', 'Ww'), ('file:w', 'wTW'), ('file:w', 'W='), ('file:a', 'Ww'), ('file:r+@end', 'wW'),
       ('file:w+', 'WDw'), ('WriteOnly', 'wTW')]
)


def forced_session_classes():
    return [f'handle:{k}:{p}' for k, p in FORCED_SESSIONS]


def run_session(env, kind, steps, key, sig):
    """Perform the steps on one handle of the given kind; every call is judged on the fragment it
    wrote, and the whole text of a growing handle against all blocks in the order of the calls."""
    ctx, mon = env.ctx, env.mon
    h, pre_blocks, whole, close = open_handle(kind, env.tmpdir, key)
    t0 = _dt.datetime.now(_dt.timezone.utc).replace(microsecond=0)
    all_blocks = list(pre_blocks)
    clean, n_calls = True, 0
    try:
        for st in steps:
            if st[0] == 'caller':
                h.write(st[1])
                all_blocks += st[2]
                continue
            _, act, x = st
            x.sig = tuple(x.sig) + ('handle', kind, min(n_calls, 3))
            before = ctx.n_violations
            env.execute(lambda act=act: act(h), x)
            n_calls += 1
            if mon.refusal is not None or ctx.n_violations != before:
                clean = False
            all_blocks += [XBlock(b.name, b.items, b.comment, strict=x.strict,
                                  builder=x.builder if x.builder is not None else {'contact': [], 'regular': []},
                                  env=x.env) for b in x.blocks]
        ctx.event('handle.calls', n_calls)
        if n_calls > 1:
            ctx.event('handle.reused')
        if whole and clean:
            xs = XDoc('handle', kind, all_blocks, strict=True, heading=False, sig=('handle', kind) + tuple(sig))
            xs.env['t0'] = t0
            mon.judge_handle(xs, h, f'{n_calls} calls into one handle ({kind})')
            ctx.case(xs.sig)
        elif whole:
            ctx.count('handle.whole_text_not_judged_after_refusal_or_violation')
    finally:
        close()


def gen_session(rng, env, k):
    """A random call sequence: 2..4 documents into one handle, the caller's own text between them."""
    cif, md = env.cif, env.md
    kind = _pick(rng, HANDLES_GROWING + HANDLES_GROWING + HANDLES_OVERWRITING + HANDLES_WRITE_ONLY)
    n = 1 if kind in HANDLES_OVERWRITING and rng.random() < 0.5 else int(rng.integers(2, 5))
    steps, kinds = [], []
    for j in range(n):
        if rng.random() < 0.2:
            steps.append(('caller', f'# the caller writes between the calls ({j})\n', []))
        big = bool(rng.random() < 0.3)
        if kind in HANDLES_WRITE_ONLY or rng.random() < 0.15:
            act, x = gen_lowlevel(rng, cif, env.tmpdir, f's{k}_{j}', force_via='Block.write', big=big,
                                  name_prefix=f'c{j}_')
            kinds.append('W')
        elif rng.random() < 0.55:
            act, x = gen_lowlevel(rng, cif, env.tmpdir, f's{k}_{j}', force_via='save_cif:buffer', big=big,
                                  name_prefix=f'c{j}_')
            kinds.append('L')
        else:
            prog = gen_program(rng)
            prog['name'] = f'c{j}_' + prog['name']
            prog['via'] = _pick(rng, ('CIF.save:buffer', 'save_cif(cif):buffer', 'save_cif(cif,comment):buffer'))
            if prog['via'].startswith('save_cif(cif,comment)'):
                prog['top2'] = hostile_comment(rng) or 'second comment'
            act, x = build_program(cif, md, prog, env.tmpdir, f's{k}_{j}')
            kinds.append('B')
        steps.append(('call', act, x))
    return kind, steps, ('random', ''.join(kinds))


# ======================================================================
# forced scenarios that are more than one document
# ======================================================================
def _sp_content_form(form, target_kind):
    def fn(env):
        nblocks = 1 if form in SINGLE_BLOCK_FORMS else 3
        for conv, tk in (('positional', target_kind), ('keywords', 'path' if target_kind == 'buffer' else 'buffer')):
            act, x = simple_lowlevel(env.cif, 'run', 3, form=form, nblocks=nblocks, conv=conv,
                                     top='written from ' + form, via='save_cif:' + tk)
            if tk == 'path':
                env.execute(lambda act=act: act(os.path.join(env.tmpdir, 'content_form.cif')), x)
            else:
                env.execute(act, x)
    return fn


def _open_file_refusal(exc):
    # io/_files.open_or_pass does not recognise real file objects and hands them to open():
    # known behaviour of the unchanged tree, outside the listed properties (DESIGN.md)
    return isinstance(exc, TypeError) and 'PathLike' in str(exc)


def _sp_open_text_file(env):
    for how in ('save_cif', 'CIF.save'):
        path = os.path.join(env.tmpdir, f'open_{how}.cif')
        with open(path, 'w') as h:
            h.write('# opened by the caller\n')
            if how == 'save_cif':
                act, x = simple_lowlevel(env.cif, 'into_open_file', 3)
            else:
                act, x = build_program(env.cif, env.md, _session_program('S', 0), env.tmpdir, 'openfile')
            x.sig = tuple(x.sig) + ('open text file',)
            env.execute(lambda act=act, h=h: act(h), x, allow=_open_file_refusal)
            env.ctx.count(('refused' if env.mon.refusal is not None else 'accepted') + f':{how}_into_open_text_file')


def _sp_metadata_values(env):
    """Strings that went through the metadata models as scalar variables, written as chunk values."""
    md, cif = env.md, env.cif
    title, run, site = 'Si powder; 300 K', '_run #12', "l'\xeele"
    m = md.Measurement(title=sc.scalar(title), run_number=sc.scalar(run), experiment_id=sc.scalar('p 1'),
                       experiment_doi=sc.scalar('10.1000/182'))
    bl = md.Beamline(name=sc.scalar('DREAM'), facility=sc.scalar('ESS'), site=sc.scalar(site),
                     revision=sc.scalar('2025-1'))
    src = md.Source(name=sc.scalar('ESS Butterfly'), source_type=md.SourceType.SpallationNeutronSource,
                    probe=md.RadiationProbe.Neutron)
    pairs = {'m.title': (m.title, title), 'm.run': (m.run_number, run), 'm.id': (m.experiment_id, 'p 1'),
             'm.doi': (m.experiment_doi, '10.1000/182'), 'b.name': (bl.name, 'DREAM'),
             'b.facility': (bl.facility, 'ESS'), 'b.site': (bl.site, site), 'b.revision': (bl.revision, '2025-1'),
             's.name': (src.name, 'ESS Butterfly')}
    blk = cif.Block('metadata', [{k: v[0] for k, v in pairs.items()}])
    x = XDoc('lowlevel', 'save_cif:buffer', [XBlock('metadata', [
        XItem('pair', [k], [[('str', v[1])]]) for k, v in pairs.items()])], strict=True,
        sig=('lowlevel', 'forced', 'metadata values from scalar variables'))
    env.execute(lambda: cif.save_cif(io.StringIO(), blk), x)
    # what the models refuse stays refused, and the next use is not affected
    for label, make in (('unit', lambda: md.Person(name=sc.scalar('Jane', unit='m'))),
                        ('not_scalar', lambda: md.Person(name=sc.array(dims=['x'], values=['Jane']))),
                        ('not_a_string', lambda: md.Beamline(name=sc.scalar(3)))):
        try:
            make()
            env.ctx.count('accepted:metadata_variable:' + label)
        except ValueError:
            env.ctx.count('refused:metadata_variable:' + label)
    act, x = build_program(cif, md, {'name': 'after_refusals', 'style': {'meta': 'variable'}, 'ops': [
        {'op': 'authors', 'people': [person('Jane Doe', True, 'software')]}], 'sig': ('after model refusals',)},
        env.tmpdir, 'metaref')
    env.execute(act, x)


def _sp_numpy_types(env):
    """numpy strings / integers, StrEnum / IntEnum members wherever str / int are documented."""
    cif = env.cif
    vals = {
        'v.npstr': (np.str_("it's"), ('str', "it's")), 'v.npstr_multi': (np.str_('a\nb'), ('str', 'a\nb')),
        'v.npstr_lead': (np.str_('_tag'), ('str', '_tag')), 'v.npstr_empty': (np.str_(''), ('str', '')),
        'v.strenum': (str_enum_member('alpha beta'), ('str', 'alpha beta')),
        'v.strenum_reserved': (str_enum_member('loop_'), ('str', 'loop_')),
        'v.intenum': (int_enum_member(7), ('int', 7)), 'v.int8': (np.int8(-7), ('int', -7)),
        'v.int16': (np.int16(-300), ('int', -300)), 'v.int32': (np.int32(70000), ('int', 70000)),
        'v.uint8': (np.uint8(200), ('int', 200)), 'v.uint64': (np.uint64(2**63 + 5), ('int', 2**63 + 5)),
        'v.f64': (np.float64(1.5e-7), ('f64', 1.5e-7)), 'v.f32': (np.float32(0.1), ('f32', float(np.float32(0.1)))),
    }
    name, tagged, comment = np.str_('numpy_named'), np.str_('v.np_tag'), np.str_('comment given as numpy string')
    pairs = {k: v[0] for k, v in vals.items()}
    pairs[tagged] = np.str_('x')
    blk = cif.Block(name, [cif.Chunk(pairs, comment=comment)], comment=comment)
    blk.add(cif.Loop({np.str_('l.a'): sc.array(dims=[np.str_('r')], values=[np.str_('p q'), np.str_('#r')])},
                     comment=comment))
    x = XDoc('lowlevel', 'save_cif:buffer', [XBlock('numpy_named', [
        XItem('pair', [k], [[v[1]]]) for k, v in vals.items()] + [
        XItem('pair', ['v.np_tag'], [[('str', 'x')]]),
        XItem('loop', ['l.a'], [[('str', 'p q'), ('str', '#r')]])], str(comment))], strict=True,
        top_comment=str(comment), sig=('lowlevel', 'forced', 'numpy scalar types'))
    env.execute(lambda: cif.save_cif(io.StringIO(), blk, comment=comment), x)


def _sp_block_names(env):
    cif, ctx = env.cif, env.ctx
    # a block code cannot hold blanks or line ends: either the name is refused (ValueError), or the
    # document that is written has to parse to the name that was supplied
    for ws, label in ((' ', 'blank'), ('\t', 'tab'), ('\n', 'newline')):
        bad = f'two{ws}words'
        for how in ('Block(name)', 'Block.name=', 'CIF(name)', 'CIF.name=', 'np.str_'):
            try:
                if how == 'Block(name)':
                    obj = cif.Block(bad, [{'k.v': 'x'}])
                elif how == 'np.str_':
                    obj = cif.Block(np.str_(bad), [{'k.v': 'x'}])
                elif how == 'Block.name=':
                    obj = cif.Block('fine', [{'k.v': 'x'}])
                    obj.name = bad
                elif how == 'CIF(name)':
                    obj = cif.CIF(bad)
                else:
                    obj = cif.CIF('fine')
                    obj.name = bad
            except ValueError:
                ctx.count(f'refused:block_name_with_{label}')
                continue
            ctx.count(f'accepted:block_name_with_{label}')
            if how.startswith('CIF'):
                x = XDoc('builder', 'CIF.save:buffer', [XBlock(bad, _audit_items())], strict=False,
                         sig=('builder', 'forced', 'name with ' + label), builder={'contact': [], 'regular': []})
                env.execute(lambda obj=obj: obj.save(io.StringIO()), x)
            else:
                x = XDoc('lowlevel', 'save_cif:buffer', [XBlock(bad, [XItem('pair', ['k.v'], [[('str', 'x')]])])],
                         strict=True, sig=('lowlevel', 'forced', 'name with ' + label))
                env.execute(lambda obj=obj: cif.save_cif(io.StringIO(), obj), x)
    # names at and beyond the 75 characters CIF 1.1 allows for a block code: a warning, the name is written
    for n in (75, 76, 120):
        nm = ('n%d_' % n + 'abcdefghij' * 12)[:n]
        try:
            with warnings.catch_warnings(record=True) as caught:
                warnings.simplefilter('always')
                blk = cif.Block(nm, [{'k.v': 'x'}])
                b2 = cif.Block('short', [{'k.v': 'x'}])
                b2.name = nm
        except UserWarning:
            # a caller who turned warnings into errors (the runner's strict-caller variant): the documented
            # warning about more than 75 characters reaches him as an exception - a refusal he asked for
            ctx.count(f'refused:block_name_{n}_chars:warning_as_error')
            continue
        ctx.count(f'block_name_{n}_chars.warnings', len(caught))
        for obj in (blk, b2):
            x = XDoc('lowlevel', 'save_cif:buffer', [XBlock(nm, [XItem('pair', ['k.v'], [[('str', 'x')]])])],
                     strict=True, sig=('lowlevel', 'forced', 'name length', n))
            env.execute(lambda obj=obj: cif.save_cif(io.StringIO(), obj), x)


def _sp_after_refused_name(env):
    """A refused call leaves the document unchanged: after an assignment to ``Block.name`` /
    ``CIF.name`` that was refused with ValueError, every later save of the object - and of copies
    made afterwards - is valid CIF 1.1 and parses to the supplied content under the block code
    the object had before the assignment."""
    cif, ctx = env.cif, env.ctx
    pair = [XItem('pair', ['k.v'], [[('str', 'x y')]]), XItem('loop', ['l.a'], [[('str', 'p'), ('str', '#q')]])]
    for ws, label in ((' ', 'blank'), ('\t', 'tab'), ('\n', 'newline')):
        bad = f'two{ws}words'
        # ---- a block
        blk = cif.Block('fine', [{'k.v': 'x y'}, cif.Loop({'l.a': sc.array(dims=['r'], values=['p', '#q'])})])
        try:
            blk.name = bad
            ctx.count('accepted:block_name_assignment_with_' + label)   # judged by block_name:whitespace_and_length
        except ValueError:
            ctx.count('refused:block_name_assignment_with_' + label)
            for saved_by, act, heading in (
                    ('save_cif', lambda blk=blk: cif.save_cif(io.StringIO(), blk), True),
                    ('save_cif(iterable)', lambda blk=blk: cif.save_cif(io.StringIO(), iter([blk])), True),
                    ('Block.write', lambda blk=blk: blk.write(io.StringIO()), False),
                    ('copy', lambda blk=blk: cif.save_cif(io.StringIO(), _copy.copy(blk)), True)):
                x = XDoc('lowlevel', 'save_cif:buffer' if heading else 'Block.write', [XBlock('fine', pair)],
                         strict=True, heading=heading, sig=('lowlevel', 'forced', 'after refused name', label, saved_by))
                x.report_as = ('doc_after_refused_name',
                               {'mechanism': 'after_refused_name', 'object': 'block', 'way': 'Block.name=',
                                'saved_by': saved_by})
                env.execute(act, x)
                ctx.event('after_refused_name')
        # ---- a builder
        b = cif.CIF('fine').with_reducers('prog 1')
        try:
            b.name = bad
            ctx.count('accepted:builder_name_assignment_with_' + label)
        except ValueError:
            ctx.count('refused:builder_name_assignment_with_' + label)
            items = [*_audit_items(), XItem('pair', ['computing.diffrn_reduction'], [[('str', 'prog 1')]],
                                            group='auto')]
            for saved_by, act in (
                    ('CIF.save', lambda b=b: b.save(io.StringIO())),
                    ('save_cif(CIF)', lambda b=b: cif.save_cif(io.StringIO(), b)),
                    ('copy', lambda b=b: b.copy().save(io.StringIO())),
                    ('with_*', lambda b=b: b.with_authors().save(io.StringIO()))):
                x = XDoc('builder', 'CIF.save:buffer', [XBlock('fine', items)], strict=False,
                         sig=('builder', 'forced', 'after refused name', label, saved_by),
                         builder={'contact': [], 'regular': []})
                x.report_as = ('doc_after_refused_name',
                               {'mechanism': 'after_refused_name', 'object': 'builder', 'way': 'CIF.name=',
                                'saved_by': saved_by})
                env.execute(act, x)
                ctx.event('after_refused_name')


def _audit_items(reducers=()):
    items = [XItem('loop', ['audit_conform.dict_name', 'audit_conform.dict_version', 'audit_conform.dict_location'],
                   [[('str', 'coreCIF')], [], []], group='auto', special='schema'),
             XItem('pair', ['audit.creation_date'], [[('now',)]], group='auto'),
             XItem('pair', ['audit.creation_method'], [[('nonblank',)]], group='auto')]
    return items


def _sp_loop_refusals(env):
    """What a loop cannot hold (columns that are not 1-d, columns of another length or dim) is refused
    when it is supplied, and the refused call leaves the loop as it was: the next save writes the
    columns that were accepted."""
    cif, ctx = env.cif, env.ctx
    good = sc.array(dims=['x'], values=[1.5, 2.5])
    bad = {'2d': sc.zeros(dims=['x', 'y'], shape=[2, 3]), '2d_outer_matches': sc.zeros(dims=['x', 'y'], shape=[2, 1]),
           '0d': sc.scalar(1.0), 'longer': sc.array(dims=['x'], values=[1.0, 2.0, 3.0]),
           'other_dim': sc.array(dims=['y'], values=[1.0, 2.0]), 'empty': sc.array(dims=['x'], values=[])}
    for label, var in bad.items():
        loop = cif.Loop({'l.good': good}, comment='kept')
        tags, cols = ['l.good'], [[('f64', 1.5), ('f64', 2.5)]]
        try:
            loop['l.bad'] = var
            ctx.count('accepted:loop_column_' + label)
            tags.append('l.bad')
            cols.append([('any',), ('any',)])
        except sc.DimensionError:
            ctx.count('refused:loop_column_' + label)
        x = XDoc('lowlevel', 'save_cif:buffer', [XBlock('after', [XItem('loop', tags, cols)])], strict=True,
                 sig=('lowlevel', 'forced', 'loop after refused column', label))
        env.execute(lambda loop=loop: cif.save_cif(io.StringIO(), cif.Block('after', [loop])), x)
        try:
            cif.Loop({'l.bad': var, 'l.good': good} if label not in ('longer', 'other_dim', 'empty')
                     else {'l.good': good, 'l.bad': var})
            ctx.count('accepted:Loop(' + label + ')')
        except sc.DimensionError:
            ctx.count('refused:Loop(' + label + ')')


def _sp_second_use(env):
    cif, md, ctx = env.cif, env.md, env.ctx
    # the same block saved again: into another buffer, to a path, through Block.write
    act, x = simple_lowlevel(cif, 'again', 4)
    for n in range(3):
        x2 = _copy.copy(x)
        x2.env, x2.sig = {}, tuple(x.sig) + ('use', n)
        env.execute(act, x2)
    # a document that is refused (a line of a text field may not start with ';'), then the same
    # objects again after the caller replaced the value: the refusal left nothing behind
    chunk = cif.Chunk({'t.ok': 'fine', 't.bad': 'l1\n;l2', 't.late': 'never reached'})
    blk = cif.Block('retry', [chunk, cif.Loop({'l.a': sc.array(dims=['r'], values=['p', 'q'])})])

    def xdoc(bad, n):
        return XDoc('lowlevel', 'save_cif:buffer', [XBlock('retry', [
            XItem('pair', ['t.ok'], [[('str', 'fine')]]), XItem('pair', ['t.bad'], [[('str', bad)]]),
            XItem('pair', ['t.late'], [[('str', 'never reached')]]),
            XItem('loop', ['l.a'], [[('str', 'p'), ('str', 'q')]])])], strict=True,
            sig=('lowlevel', 'forced', 'after a refusal', n))
    buf = io.StringIO()
    env.execute(lambda: cif.save_cif(buf, blk), xdoc('l1\n;l2', 0))
    refused = env.mon.refusal is not None
    ctx.count('second_use.first_call_' + ('refused' if refused else 'written'))
    chunk['t.bad'] = 'l1\n l2'
    env.execute(lambda: cif.save_cif(io.StringIO(), blk), xdoc('l1\n l2', 1))
    # ... and into the handle the refused call left half written: the new document starts where the
    # handle stands
    env.execute(lambda: cif.save_cif(buf, blk), xdoc('l1\n l2', 2))
    # a builder whose save is refused, saved again; then builders without the offending item
    p = person('Jane Doe', True, 'software')
    base = {'name': 'builder_retry', 'ops': [{'op': 'authors', 'people': [p]},
                                             {'op': 'reducers', 'items': ['ok 1.0', 'l1\n;l2']}]}
    act, x = build_program(cif, md, dict(base, sig=('after a refusal', 0)), env.tmpdir, 'retry0')
    env.execute(act, x)
    x2 = _copy.copy(x)
    x2.env = {}
    env.execute(act, x2)                # the same builder again: the same answer
    good = {'name': 'builder_retry', 'ops': [{'op': 'authors', 'people': [p]},
                                             {'op': 'reducers', 'items': ['ok 1.0']},
                                             {'op': 'authors', 'people': [person('Max Mustermann', False, 'analysis')]}]}
    act, x = build_program(cif, md, dict(good, sig=('after a refusal', 1)), env.tmpdir, 'retry1')
    env.execute(act, x)
    env.execute(act, _copy.copy(x))     # and once more: ids go on, the document is complete


def _sp_interleave(env):
    """repr / str / == / copy / deepcopy / pickle of the objects between building and saving and
    between two saves change nothing; a copy that could be made is written like the original."""
    cif, md, ctx = env.cif, env.md, env.ctx

    def poke(obj, label):
        out = {}
        for name, f in (('repr', repr), ('str', str), ('eq', lambda o: (o == o, o != o, o == 1)),
                        ('copy', _copy.copy), ('deepcopy', _copy.deepcopy),
                        ('pickle', lambda o: pickle.loads(pickle.dumps(o)))):
            try:
                out[name] = f(obj)
                ctx.count(f'interleave.{label}.{name}.ok')
            except Exception as e:  # noqa: BLE001  whether the objects support it is not C14's business
                ctx.count(f'interleave.{label}.{name}.{type(e).__name__}')
        return out

    chunk = cif.Chunk({'t.a': "it's", 't.b': sc.scalar(1.5, variance=0.04, unit='angstrom')}, comment='chunk')
    loop = cif.Loop({'l.s': sc.array(dims=['r'], values=['p q', '_r']),
                     'l.x': sc.array(dims=['r'], values=[1.0, 2.5], variances=[0.01, 0.04])}, comment='loop')
    blk = cif.Block('poked', [chunk, loop], comment='block')

    def xdoc(n, strict=True):
        items = [
            XItem('pair', ['t.a'], [[('str', "it's")]]), XItem('pair', ['t.b'], [[('fvar', 1.5, 0.04, False)]]),
            XItem('loop', ['l.s', 'l.x'], [[('str', 'p q'), ('str', '_r')],
                                           [('fvar', 1.0, 0.01, False), ('fvar', 2.5, 0.04, False)]])]
        if not strict:
            # Block.copy() of a block without schema lists coreCIF (observed on the unchanged tree;
            # generated content like the audit section of the builder, not judged as a difference)
            tags = ['audit_conform.dict_name', 'audit_conform.dict_version', 'audit_conform.dict_location']
            items.insert(0, XItem('loop', tags, [[('str', 'coreCIF')], [], []], group='auto', optional=tags,
                                  special='schema'))
        return XDoc('lowlevel', 'save_cif:buffer', [XBlock('poked', items, 'block')],
                    strict=strict, sig=('lowlevel', 'forced', 'interleaved', n))
    poke(chunk, 'Chunk')
    poke(loop, 'Loop')
    copies = poke(blk, 'Block')
    env.execute(lambda: cif.save_cif(io.StringIO(), blk), xdoc(0))
    poke(blk, 'Block')
    env.execute(lambda: cif.save_cif(io.StringIO(), blk), xdoc(1))
    for name in ('copy', 'deepcopy', 'pickle'):
        if isinstance(copies.get(name), cif.Block):
            env.execute(lambda c=copies[name]: cif.save_cif(io.StringIO(), c), xdoc(name))
    env.execute(lambda: cif.save_cif(io.StringIO(), blk.copy()), xdoc('Block.copy()', strict=False))
    prog = {'name': 'poked_builder', 'top': 'top', 'ops': [
        {'op': 'authors', 'people': [person('Jane Doe', True, 'software'), person('Max Mustermann', False, 'analysis')]},
        {'op': 'reducers', 'items': ['a 1', 'b 2']}, _reduced_op('counts')]}
    act, x = build_program(cif, md, dict(prog, sig=('interleaved', 0)), env.tmpdir, 'poke0')
    copies = poke(act.builder, 'CIF')
    env.execute(act, x)
    poke(act.builder, 'CIF')
    x2 = _copy.copy(x)
    x2.env = {}
    env.execute(act, x2)
    for name in ('copy', 'deepcopy', 'pickle'):
        c = copies.get(name)
        if isinstance(c, cif.CIF):
            x3 = _copy.copy(x)
            x3.env, x3.sig = {}, tuple(x.sig) + (name,)
            env.execute(lambda c=c: c.save(io.StringIO()), x3)
    x4 = _copy.copy(x)
    x4.env, x4.sig = {}, tuple(x.sig) + ('CIF.copy()',)
    env.execute(lambda: act.builder.copy().save(io.StringIO()), x4)


def _sp_loop_dims(env):
    """One loop per dim name a caller may choose (the names the writer uses internally among them)."""
    cif = env.cif
    content, xitems = [], []
    for i, d in enumerate(LOOP_DIMS):
        vals = [f'{d} {j}' for j in range(3)]
        xs = [0.5 * j + i for j in range(3)]
        content.append(cif.Loop({f'd{i}.s': sc.array(dims=[d], values=vals),
                                 f'd{i}.x': sc.array(dims=[d], values=xs, variances=[0.04] * 3, unit='us')}))
        xitems.append(XItem('loop', [f'd{i}.s', f'd{i}.x'], [[('str', v) for v in vals],
                                                               [('fvar', v, 0.04, False) for v in xs]]))
    x = XDoc('lowlevel', 'save_cif:buffer', [XBlock('dims', xitems)], strict=True,
             sig=('lowlevel', 'forced', 'loop dims'))
    env.execute(lambda: cif.save_cif(io.StringIO(), cif.Block('dims', content)), x)


def _schema_item(names):
    return XItem('loop', ['audit_conform.dict_name', 'audit_conform.dict_version', 'audit_conform.dict_location'],
                 [[('str', n) for n in names], [], []], special='schema')


def _sp_schema(env):
    """schema=: one schema, a list, a one-shot iterable; on chunk, loop and block.  The block lists
    the dictionaries in a loop in front of the content."""
    cif = env.cif
    core, pd = cif.CORE_SCHEMA, cif.PD_SCHEMA
    pair = XItem('pair', ['k.v'], [[('str', 'x')]])
    loop_x = XItem('loop', ['l.a'], [[('int', 1), ('int', 2)]])

    def col():
        return {'l.a': sc.array(dims=['r'], values=[1, 2], unit=None)}
    cases = [
        ('chunk:core', lambda: cif.Block('s', [cif.Chunk({'k.v': 'x'}, schema=core)]), ['coreCIF'], [pair]),
        ('chunk:pd', lambda: cif.Block('s', [cif.Chunk({'k.v': 'x'}, schema=pd)]), ['coreCIF', 'pdCIF'], [pair]),
        ('chunk:list', lambda: cif.Block('s', [cif.Chunk({'k.v': 'x'}, schema=[core, pd])]), ['coreCIF', 'pdCIF'],
         [pair]),
        ('chunk:generator', lambda: cif.Block('s', [cif.Chunk({'k.v': 'x'}, schema=(q for q in (pd,)))]),
         ['coreCIF', 'pdCIF'], [pair]),
        ('loop:pd', lambda: cif.Block('s', [cif.Loop(col(), schema=pd)]), ['coreCIF', 'pdCIF'], [loop_x]),
        ('loop:iter', lambda: cif.Block('s', [cif.Loop(col(), schema=iter([core]))]), ['coreCIF'], [loop_x]),
        ('block:pd', lambda: cif.Block('s', [{'k.v': 'x'}], schema=pd), ['coreCIF', 'pdCIF'], [pair]),
        ('block:generator+chunk', lambda: cif.Block('s', [cif.Chunk({'k.v': 'x'}, schema=pd), cif.Loop(col())],
                                                    schema=(q for q in (core,))), ['coreCIF', 'pdCIF'], [pair, loop_x]),
        ('added_later', lambda: _added_later(cif, pd), ['coreCIF', 'pdCIF'], [pair]),
    ]
    for label, make, names, items in cases:
        blk = make()
        x = XDoc('lowlevel', 'save_cif:buffer', [XBlock('s', [_schema_item(names), *items])], strict=True,
                 sig=('lowlevel', 'forced', 'schema', label))
        env.execute(lambda blk=blk: cif.save_cif(io.StringIO(), blk), x)
        x2 = _copy.copy(x)
        x2.env, x2.via, x2.heading = {}, 'Block.write', False
        env.execute(lambda blk=blk: blk.write(io.StringIO()), x2)


def _added_later(cif, schema):
    blk = cif.Block('s')
    blk.add(cif.Chunk({'k.v': 'x'}, schema=schema))
    return blk


def _sp_subclasses(env):
    """Subclasses of Block / Chunk / Loop (some overriding ``write``) are blocks / chunks / loops."""
    cif = env.cif

    class MyChunk(cif.Chunk):
        def write(self, f):
            f.write('# written by a subclass of Chunk\n')
            super().write(f)

    class MyLoop(cif.Loop):
        def write(self, f):
            f.write('# written by a subclass of Loop\n')
            return super().write(f)

    class MyBlock(cif.Block):
        def write(self, f):
            f.write('# written by a subclass of Block\n')
            super().write(f)

    class PlainBlock(cif.Block):
        pass

    def content():
        return [MyChunk({'k.v': 'x y'}, comment='c'), MyLoop({'l.a': sc.array(dims=['r'], values=['p', '#q'])})]
    items = [XItem('pair', ['k.v'], [[('str', 'x y')]]), XItem('loop', ['l.a'], [[('str', 'p'), ('str', '#q')]])]
    for label, make in (('items', lambda: cif.Block('sub', content())),
                        ('block', lambda: MyBlock('sub', content())),
                        ('plain_block', lambda: PlainBlock('sub', content())),
                        ('added', lambda: _add_all(MyBlock('sub'), content()))):
        for form in ('block', 'generator_expression'):
            blk = make()
            x = XDoc('lowlevel', 'save_cif:buffer', [XBlock('sub', items)], strict=True,
                     sig=('lowlevel', 'forced', 'subclass', label, form))
            env.execute(lambda blk=blk, form=form: cif.save_cif(io.StringIO(), make_content(form, [blk])), x)


def _add_all(blk, content):
    for c in content:
        blk.add(c)
    return blk


def _sp_targets(env):
    cif = env.cif
    for pk in PATH_KINDS:
        for form in ('block', 'iter(list)'):
            act, x = simple_lowlevel(cif, 'target', 3, form=form, nblocks=1 if form == 'block' else 2,
                                     via='save_cif:path')
            x.sig = tuple(x.sig) + (pk,)
            t = path_target(pk, env.tmpdir, f'target_{pk}.cif')
            env.execute(lambda act=act, t=t: act(t), x)


def _sp_block_content_forms(env):
    cif = env.cif
    for cform in BLOCK_CONTENT_FORMS:
        entries = [make_chunk(cif, 'mapping', {'k.v': 'x'}, ''),
                   make_loop(cif, 'Loop(dict,comment=)', {'l.a': sc.array(dims=['r'], values=['p', 'q'])}, ''),
                   make_chunk(cif, 'mapping:custom', {'k.w': 'y z'}, '')]
        blk = make_block(cif, 'content', 'Block(name)', '', 'Block(comment=)', entries, 3, cform)
        x = XDoc('lowlevel', 'save_cif:buffer', [XBlock('content', [
            XItem('pair', ['k.v'], [[('str', 'x')]]), XItem('loop', ['l.a'], [[('str', 'p'), ('str', 'q')]]),
            XItem('pair', ['k.w'], [[('str', 'y z')]])])], strict=True,
            sig=('lowlevel', 'forced', 'Block(content=)', cform))
        env.execute(lambda blk=blk: cif.save_cif(io.StringIO(), blk), x)
    for way in MAPPING_WAYS:
        obj, _, _ = make_chunk(cif, way, {'k.v': 'x', 'k.w': sc.scalar(2.5, unit='K')}, '')
        x = XDoc('lowlevel', 'save_cif:buffer', [XBlock('content', [
            XItem('pair', ['k.v'], [[('str', 'x')]]), XItem('pair', ['k.w'], [[('f64', 2.5)]])])], strict=True,
            sig=('lowlevel', 'forced', 'mapping item', way))
        env.execute(lambda obj=obj: cif.save_cif(io.StringIO(), cif.Block('content', [obj])), x)


# ======================================================================
# file-system forms of a path target
# ======================================================================
# "fname: Path or file handle for the output file": the document goes into the file the name DENOTES
# when the call is made - resolved here with os.path.realpath / os.stat before the call, never by asking
# the package.  Whoever opens that file afterwards (under its real name, through the other hard link,
# through a descriptor opened earlier) finds the supplied document; a link stays a link; files that
# merely have a similar name are left alone.
FS_FORMS = ('symlink_abs:str', 'symlink_rel:Path', 'symlink_dangling:PathLike', 'symlink_chain:str',
            'symlink_to_other_dir_dangling:Path', 'hardlink:str', 'hardlink_other_name:Path',
            'symlinked_dir/../name:str', 'relative:cwd_changed_between_calls', 'relative_symlink:cwd_changed',
            'reader_holds_target_open:str', 'name_255_bytes:str', 'mode_0640_existing:str')
FS_SAVERS = ('save_cif(Block)', 'CIF.save', 'save_cif(CIF)')
WRONG_FILE_MECH = 'path_target_not_the_denoted_file'


def _fs_document(env, saver, tag, n):
    """(act(target), XDoc): a document of a length governed by ``n``."""
    if saver == 'save_cif(Block)':
        return simple_lowlevel(env.cif, f'run-{tag}', n, via='save_cif:path')
    prog = _session_program('B', 0)
    prog = dict(prog, name=f'reduced-{tag}', sig=('fs', saver),
                via='CIF.save:path' if saver == 'CIF.save' else 'save_cif(cif):path')
    prog['ops'] = [*prog['ops'][:3], dict(_reduced_op('counts', 'tof'), cx=[100.0 + 2.5 * i for i in range(n)],
                                          dx=[10.0 + i for i in range(n)], dv=[0.25 * (i + 1) for i in range(n)])]
    return build_program(env.cif, env.md, prog, env.tmpdir, f'fs{tag}')


def judge_named_file(env, x, source, form, label):
    """Judge what ``source`` (a path, or an open reader positioned anywhere) holds against ``x``."""
    ctx, mon = env.ctx, env.mon
    x2 = _copy.copy(x)
    x2.report_as = ('doc_wrong_file', {'mechanism': WRONG_FILE_MECH, 'form': form})
    mon.begin(x2, keep_t0=True)
    try:
        case = x2.describe()
        case['read_as'] = label
        mon._set_reporter(x2, case, f'{x.via} to {form}, reading {label}')
        mon.judged_docs += 1
        try:
            if hasattr(source, 'read'):
                source.seek(0)
                raw = source.read()
            else:
                with open(source, 'rb') as fh:
                    raw = fh.read()
        except FileNotFoundError:
            ctx.event('document.denoted_file')
            mon._report('missing', f'the file {label} does not exist after the call')
            return
        except Exception:  # noqa: BLE001
            ctx.oracle_error('C14 reading the denoted file')
            return
        ctx.event('document')
        ctx.event('document.denoted_file')
        try:
            text = raw.decode('ascii')
        except UnicodeDecodeError:
            text = raw.decode('utf-8', 'replace')
        mon.judge_text(x2, text, case)
    finally:
        mon.end()


def _write_old(path, marker='old'):
    with open(path, 'w') as f:
        f.write(OLD_TEXT.replace('old_document', marker + '_document'))


def _fs_case(env, saver, form, root, tag):
    """One file-system form: set it up, note what the name denotes, call, read every name of the file."""
    ctx = env.ctx
    kind, _, how = form.partition(':')
    store, results = os.path.join(root, 'store'), os.path.join(root, 'results')
    os.makedirs(store)
    os.makedirs(results)
    wrap = {'Path': pathlib.Path, 'PathLike': FsPath}.get(how, str)
    act, x = _fs_document(env, saver, tag, 3)
    x.sig = tuple(x.sig) + ('fs', form, saver)
    reads, still_links, untouched, reader, cwd = [], [], [], None, None
    real = os.path.join(store, 'run-0042.cif')
    link = os.path.join(results, 'latest.cif')
    if kind == 'symlink_abs':
        _write_old(real)
        os.symlink(real, link)
        target = link
    elif kind == 'symlink_rel':
        _write_old(real)
        os.symlink(os.path.join('..', 'store', 'run-0042.cif'), link)
        target = link
    elif kind == 'symlink_dangling':
        os.symlink(real, link)
        target = link
    elif kind == 'symlink_chain':
        _write_old(real)
        mid = os.path.join(store, 'current.cif')
        os.symlink('run-0042.cif', mid)
        os.symlink(mid, link)
        still_links.append(mid)
        target = link
    elif kind == 'symlink_to_other_dir_dangling':
        os.symlink(os.path.join('..', 'store', 'run-0042.cif'), link)
        target = link
    elif kind in ('hardlink', 'hardlink_other_name'):
        _write_old(real)
        link = os.path.join(results, 'archive-0042.cif')
        os.link(real, link)
        target = real if kind == 'hardlink' else link
        reads.append(('the other hard link', link if kind == 'hardlink' else real))
    elif kind == 'symlinked_dir/../name':
        # <link to store/deep>/../x.cif is store/x.cif, not results/x.cif
        os.makedirs(os.path.join(store, 'deep'))
        os.symlink(os.path.join(store, 'deep'), os.path.join(results, 'deep'))
        decoy = os.path.join(results, 'run-0042.cif')
        _write_old(real)
        _write_old(decoy, 'decoy')
        untouched.append(decoy)
        target = os.path.join(results, 'deep', '..', 'run-0042.cif')
    elif kind in ('relative', 'relative_symlink'):
        # the same relative name from two working directories: two files
        first_act, first_x = _fs_document(env, saver, tag + '-first', 9)
        first_x.sig = tuple(first_x.sig) + ('fs', form, saver, 'first')
        for d in (store, results):
            _write_old(os.path.join(d, 'run-0042.cif'))
        name = 'run-0042.cif'
        if kind == 'relative_symlink':
            for d in (store, results):
                os.symlink('run-0042.cif', os.path.join(d, 'latest.cif'))
            name = 'latest.cif'
        os.chdir(store)
        env.execute(lambda: first_act(name), first_x)
        os.chdir(results)
        target = name
        real = os.path.join(results, 'run-0042.cif')
        cwd = results
    elif kind == 'reader_holds_target_open':
        _write_old(real)
        reader = open(real, 'rb', buffering=0)  # noqa: SIM115  (unbuffered: what the inode holds)
        reader.read(100)
        target = real
    elif kind == 'name_255_bytes':
        real = os.path.join(store, ('n' * 251) + '.cif')
        target = real
    elif kind == 'mode_0640_existing':
        _write_old(real)
        os.chmod(real, 0o640)
        target = real
    else:
        raise AssertionError(form)
    denoted = os.path.realpath(target)          # resolved before the call, in the working directory of the call
    assert os.path.samefile(denoted, real) if os.path.exists(real) else denoted == os.path.realpath(real), \
        (denoted, real)
    links_before = {p: os.readlink(p) for p in ([link] if os.path.islink(link) else []) + still_links}
    mode_before = os.stat(denoted).st_mode if os.path.exists(denoted) else None
    try:
        env.execute(lambda: act(wrap(target)), x)
        if env.mon.refusal is not None:
            ctx.count('refused:fs_form:' + form)
            return
        keys = {'mechanism': WRONG_FILE_MECH, 'form': form}
        where = f'{saver} to {form}'
        for label, src in [('the file the name denotes (os.path.realpath)', denoted), *reads]:
            judge_named_file(env, x, src, form, label)
        if reader is not None:
            same = os.fstat(reader.fileno()).st_ino == os.stat(denoted).st_ino
            ctx.count('fs.reader_inode_' + ('kept' if same else 'replaced'))
            judge_named_file(env, x, reader, form, 'through the descriptor a reader opened before the call')
        for p, dest in links_before.items():
            ctx.event('fs.link_checked')
            if not os.path.islink(p) or os.readlink(p) != dest:
                ctx.violation('doc_wrong_file', f'{where}: {os.path.relpath(p, root)} was a symbolic link to {dest!r} '
                              'and is ' + (f'a link to {os.readlink(p)!r}' if os.path.islink(p) else 'no link')
                              + ' after the call', dict(x.describe(), read_as='link'), **keys)
        for p in untouched:
            ctx.event('fs.bystander_checked')
            with open(p) as fh:
                if fh.read() != OLD_TEXT.replace('old_document', 'decoy_document'):
                    ctx.violation('doc_wrong_file', f'{where}: {os.path.relpath(p, root)}, which the name does not '
                                  'denote, was changed', dict(x.describe(), read_as='bystander'), **keys)
        if kind in ('relative', 'relative_symlink'):
            # the document of the first call is still where it was written
            judge_named_file(env, first_x, os.path.join(store, 'run-0042.cif'), form,
                             'the file of the first call (other working directory)')
        left = sorted(f for d in (store, results) for f in os.listdir(d)
                      if not f.endswith('.cif') and f != 'deep')
        if left:
            ctx.count('fs.other_files_left_in_the_folder', len(left))
        if mode_before is not None and os.stat(denoted).st_mode != mode_before:
            ctx.count('fs.mode_of_existing_file_changed')
    finally:
        if reader is not None:
            reader.close()


def _sp_fs_forms_for(saver):
    def fn(env):
        cwd0 = os.getcwd()
        top = tempfile.mkdtemp(prefix='rv-c14-fs-')
        try:
            for i, form in enumerate(FS_FORMS):
                try:
                    _fs_case(env, saver, form, os.path.join(top, f'f{i}'), f'{i}')
                finally:
                    os.chdir(cwd0)
                env.ctx.hit(f'fs:{saver}:{form}')
        finally:
            os.chdir(cwd0)
            shutil.rmtree(top, ignore_errors=True)
    return fn


def _bytes_refusal(exc):
    # a binary buffer cannot take text: TypeError (unchanged tree: from the buffer's write())
    return isinstance(exc, TypeError)


def _sp_binary_buffers(env):
    """BytesIO targets (fresh, with initial content, rewound): a text document cannot go there; either the
    call is refused or what the buffer holds from the position it stood at is the document."""
    for label, make in (('fresh', io.BytesIO), ('initial', lambda: io.BytesIO(OLD_TEXT.encode())),
                        ('initial@end', lambda: _at_end(io.BytesIO(OLD_TEXT.encode())))):
        for saver in ('save_cif(Block)', 'CIF.save'):
            act, x = _fs_document(env, saver, 'bytes', 3)
            x.sig = tuple(x.sig) + ('BytesIO', label, saver)
            h = make()
            pos0, before = h.tell(), h.getvalue()
            env.execute(lambda act=act, h=h: act(h), x, allow=_bytes_refusal)
            if env.mon.refusal is not None:
                env.ctx.count(f'refused:BytesIO:{label}')
                if h.getvalue() != before:
                    env.ctx.count('BytesIO.changed_by_refused_call')
                continue
            env.ctx.count(f'accepted:BytesIO:{label}')
            judge_named_file(env, x, io.BytesIO(h.getvalue()[pos0:h.tell()]), 'BytesIO:' + label, 'the buffer')


def _at_end(h):
    h.seek(0, 2)
    return h


# ======================================================================
# in-place modification between two calls, aliasing, fresh interpreter, coinciding sizes
# ======================================================================
def _sp_inplace_between_calls(env):
    """The very same objects saved, modified in place, saved again: the second document is the
    document of the NEW contents (nothing is remembered per object).  Chunk / Loop / Block hold the
    objects they were given; the builder's with_* calls take the data as it is when they are called."""
    cif, md, ctx = env.cif, env.md, env.ctx
    num = sc.array(dims=['r'], values=[1.0, 2.0, 3.0], variances=[0.01, 0.04, 0.09], unit='us')
    col = sc.array(dims=['r'], values=['p', 'q', 'r'])
    val = sc.scalar(1.5, unit='K')
    txt = sc.scalar('first text')
    chunk = cif.Chunk({'t.a': 'first', 't.v': val, 't.s': txt})
    loop = cif.Loop({'l.s': col, 'l.x': num})
    blk = cif.Block('inplace', [chunk, loop])
    state = {'a': 'first', 'v': 1.5, 's': 'first text', 'col': ['p', 'q', 'r'], 'x': [1.0, 2.0, 3.0],
             'var': [0.01, 0.04, 0.09], 'name': 'inplace', 'extra': []}

    def xdoc(step):
        items = [XItem('pair', ['t.a'], [[('str', state['a'])]]), XItem('pair', ['t.v'], [[('f64', state['v'])]]),
                 XItem('pair', ['t.s'], [[('str', state['s'])]]),
                 *[XItem('pair', [t], [[('str', v)]]) for t, v in state['extra'] if t.startswith('t.')],
                 XItem('loop', ['l.s', 'l.x'] + (['l.n'] if 'n' in state else []),
                       [[('str', v) for v in state['col']],
                        [('fvar', x, v, False) for x, v in zip(state['x'], state['var'], strict=True)]]
                       + ([[('int', v) for v in state['n']]] if 'n' in state else [])),
                 *[XItem('pair', [t], [[('str', v)]]) for t, v in state['extra'] if not t.startswith('t.')]]
        return XDoc('lowlevel', 'save_cif:buffer', [XBlock(state['name'], items)], strict=True,
                    sig=('lowlevel', 'forced', 'in place between calls', step))

    def save(step):
        env.execute(lambda: cif.save_cif(io.StringIO(), blk), xdoc(step))
        ctx.event('inplace.saved_again')

    save('first')
    num.values[1] = 20.5                # values of a column, in place
    num.variances[1] = 0.25
    state.update(x=[1.0, 20.5, 3.0], var=[0.01, 0.25, 0.09])
    save('column values')
    col.values[0] = "it's #changed"     # a string cell: now needs quoting
    state.update(col=["it's #changed", 'q', 'r'])
    save('string cell')
    col['r', 2] = sc.scalar('l1\nl2')   # a slice: the loop now needs the one-value-per-line layout
    state.update(col=["it's #changed", 'q', 'l1\nl2'])
    save('slice, multi-line')
    val.value = -2.5
    txt.value = '_second text'
    state.update(v=-2.5, s='_second text')
    save('scalar variables')
    num *= 2.0                          # arithmetic in place
    state.update(x=[2.0, 41.0, 6.0], var=[0.04, 1.0, 0.36])
    save('arithmetic in place')
    # through the objects' own interface
    chunk['t.a'] = 'second'
    chunk['t.late'] = 'added later'
    loop['l.n'] = sc.array(dims=['r'], values=[7, 8, 9], unit=None)
    blk.add({'u.k': 'added chunk'})
    blk.name = 'inplace_renamed'
    state.update(a='second', name='inplace_renamed', n=[7, 8, 9],
                 extra=[('t.late', 'added later'), ('u.k', 'added chunk')])
    save('setitem, add, name')
    loop['l.s'] = sc.array(dims=['r'], values=['x', 'y', 'z'])     # an existing column replaced
    state['col'] = ['x', 'y', 'z']
    save('column replaced')

    # the builder: the same data array handed to with_reduced_powder_data before and after it was
    # modified in place -> two builders, each writes the data as it was when it was handed over
    def reduced(n, scale, dv=True, cv=False):
        return dict(_reduced_op('counts', 'tof'), cx=[100.0 + 2.5 * i for i in range(n)],
                    cv=[0.04 * (i + 1) for i in range(n)] if cv else None,
                    dx=[scale * (10.0 + i) for i in range(n)], dv=[0.25 * (i + 1) for i in range(n)] if dv else None)
    n = 4
    for j, (dv, cv) in enumerate(((True, False), (False, False), (True, True), (False, True))):
        tag = f'{"su" if dv else "nosu"}_{"csu" if cv else "nocsu"}'
        op = reduced(n, 1.0, dv, cv)
        da = sc.DataArray(sc.array(dims=['tof'], values=op['dx'], variances=op['dv'], unit='counts'),
                          coords={'tof': sc.array(dims=['tof'], values=op['cx'], variances=op['cv'], unit='us')})
        b1 = cif.CIF('before').with_reduced_powder_data(da)
        _, x1 = build_program(cif, md, {'name': 'before', 'ops': [op], 'sig': ('in place', 'builder', 0, tag)},
                              env.tmpdir, f'ip0{j}')
        env.execute(lambda b1=b1: b1.save(io.StringIO()), x1)
        da.values[:] = [3.0 * v for v in op['dx']]
        da.coords['tof'].values[0] = 50.0
        if dv:
            da.variances[0] = 9.0
        if cv:
            da.coords['tof'].variances[1] = 4.0
        op2 = dict(reduced(n, 3.0, dv, cv), cx=[50.0, *op['cx'][1:]])
        if dv:
            op2['dv'] = [9.0, *op['dv'][1:]]
        if cv:
            op2['cv'] = [op['cv'][0], 4.0, *op['cv'][2:]]
        b2 = cif.CIF('after').with_reduced_powder_data(da)
        _, x2 = build_program(cif, md, {'name': 'after', 'ops': [op2], 'sig': ('in place', 'builder', 1, tag)},
                              env.tmpdir, f'ip1{j}')
        env.execute(lambda b2=b2: b2.save(io.StringIO()), x2)
        ctx.event('inplace.saved_again')
        # ... and the builder made EARLIER still writes what it was given (the result does not alias the argument)
        x1b = _copy.copy(x1)
        x1b.env, x1b.sig = {}, tuple(x1.sig) + ('argument modified afterwards',)
        env.execute(lambda b1=b1: b1.save(io.StringIO()), x1b)
        ctx.event('aliasing.checked')
    # calibration: coefficients modified after the call (the 'power' coordinate is left alone: the unchanged
    # tree keeps a reference to it while it derives the ids at the time of the call - counted, see report)
    cal = sc.DataArray(sc.array(dims=['cal'], values=[3.4, 0.2], variances=[0.01, 0.04], unit='us'),
                       coords={'power': sc.array(dims=['cal'], values=[0, 1], unit=None)})
    bc = cif.CIF('cal').with_powder_calibration(cal)
    cal.values[:] = [9.0, 9.5]
    cal.variances[:] = [1.0, 4.0]
    _, xc = build_program(cif, md, {'name': 'cal', 'ops': [
        {'op': 'calibration', 'powers': [0, 1], 'cx': [3.4, 0.2], 'cv': [0.01, 0.04]}],
        'sig': ('aliasing', 'calibration')}, env.tmpdir, 'ipc')
    env.execute(lambda: bc.save(io.StringIO()), xc)
    ctx.event('aliasing.checked')
    # observation only (reported to the maintainer, not judged): the power coordinate written into afterwards
    cal.coords['power'].values[:] = [2, -1]
    buf = io.StringIO()
    try:
        bc.save(buf)
        rows = [r for b in cif11.parse(buf.getvalue()).blocks for it in b.items if isinstance(it, cif11.Loop)
                and 'pd_calib_d_to_tof.power' in it.tags for r in it.rows]
        powers = [r[1].text for r in rows]
        ctx.count('aliasing.calibration_power_coordinate_' + ('kept' if powers == ['0', '1'] else 'follows_the_argument'))
    except Exception:  # noqa: BLE001
        ctx.count('aliasing.calibration_power_probe_failed')


def _sp_aliasing_of_results(env):
    """with_* / copy() return new objects: writing into the result leaves the object it was made
    from unchanged and the other way round."""
    cif, md, ctx = env.cif, env.md, env.ctx
    p1 = person('Jane Doe', True, 'measurement')
    base = {'name': 'original', 'top': 'c1', 'ops': [{'op': 'authors', 'people': [p1]},
                                                     {'op': 'reducers', 'items': ['r1 1.0']}]}
    act, x = build_program(cif, md, dict(base, sig=('aliasing', 'builder', 'original')), env.tmpdir, 'al0')
    b = act.builder
    env.execute(act, x)
    # write into results made from b
    d1 = b.with_reducers('r2 2.0')
    d1.name = 'derived'
    d1.comment = 'c2'
    d2 = b.copy()
    d2.name = 'copied'
    d2 = d2.with_authors(md.Person(name='Max Mustermann', role='analysis'))
    for k in range(2):                  # b is unchanged, and saving it again gives the original result again
        xk = _copy.copy(x)
        xk.env, xk.sig = {}, tuple(x.sig) + ('after writing into results', k)
        env.execute(act, xk)
        ctx.event('aliasing.checked')
    _, xd1 = build_program(cif, md, {'name': 'derived', 'top': 'c2', 'ops': [
        *base['ops'], {'op': 'reducers', 'items': ['r2 2.0']}], 'sig': ('aliasing', 'builder', 'derived')},
        env.tmpdir, 'al1')
    _, xd2 = build_program(cif, md, {'name': 'copied', 'top': 'c1', 'ops': [
        *base['ops'], {'op': 'authors', 'people': [person('Max Mustermann', False, 'analysis')]}],
        'sig': ('aliasing', 'builder', 'copy')}, env.tmpdir, 'al2')
    # write into b: the results made EARLIER are unchanged
    b.name = 'original_renamed'
    b.comment = 'c3'
    env.execute(lambda: d1.save(io.StringIO()), xd1)
    env.execute(lambda: d2.save(io.StringIO()), xd2)
    ctx.event('aliasing.checked', 2)
    # Block.copy(): content added to the copy / to the original afterwards stays there
    pair = XItem('pair', ['k.v'], [[('str', 'x y')]])
    blk = cif.Block('blk', [{'k.v': 'x y'}], schema=cif.CORE_SCHEMA)
    cp = blk.copy()
    cp.add({'k.copy': 'only in the copy'})
    cp.name = 'blk_copy'
    blk.add({'k.orig': 'only in the original'})
    for obj, name, extra in ((blk, 'blk', ('k.orig', 'only in the original')),
                             (cp, 'blk_copy', ('k.copy', 'only in the copy'))):
        xb = XDoc('lowlevel', 'save_cif:buffer', [XBlock(name, [
            _schema_item(['coreCIF']), pair, XItem('pair', [extra[0]], [[('str', extra[1])]])])], strict=True,
            sig=('lowlevel', 'forced', 'aliasing', 'Block.copy', name))
        env.execute(lambda obj=obj: cif.save_cif(io.StringIO(), obj), xb)
        ctx.event('aliasing.checked')


_FRESH_PRELUDE = """
import io, sys, json
import scipp as sc
from scippneutron.io import cif
assert not any(m.startswith('rv') for m in sys.modules), 'harness imported'
"""
_FRESH_SCRIPTS = {
    'save_cif': """
blk = cif.Block('fresh', [{'k.v': 'x y', 'k.u': 'caf\\xe9 \\u212b', 'k.n': sc.scalar(1.5, variance=0.04, unit='K')},
                          cif.Loop({'l.s': sc.array(dims=['r'], values=['p q', '_r', 'l1\\nl2']),
                                    'l.x': sc.array(dims=['r'], values=[1.0, 2.5, 4.0], unit='us')})])
f = io.StringIO()
cif.save_cif(f, blk, comment='first call')
""",
    'Block.write': """
blk = cif.Block('fresh', [{'k.v': 'x y', 'k.u': 'caf\\xe9 \\u212b', 'k.n': sc.scalar(1.5, variance=0.04, unit='K')},
                          cif.Loop({'l.s': sc.array(dims=['r'], values=['p q', '_r', 'l1\\nl2']),
                                    'l.x': sc.array(dims=['r'], values=[1.0, 2.5, 4.0], unit='us')})])
f = io.StringIO()
blk.write(f)
""",
    'CIF.save': """
da = sc.DataArray(sc.array(dims=['tof'], values=[13.6, 26.0, 9.7], variances=[0.7, 1.1, 0.5], unit='counts'),
                  coords={'tof': sc.array(dims=['tof'], values=[1.2, 1.4, 2.3], unit='us')})
cal = sc.DataArray(sc.array(dims=['cal'], values=[3.4, 0.2]), coords={'power': sc.array(dims=['cal'], values=[0, 1])})
b = (cif.CIF('fresh', comment='first call')
     .with_authors(cif.Person(name='Jane Doe', role='measurement', corresponding=True, address='Lund'),
                   cif.Person(name="Max O'Mustermann", role='analysis'))
     .with_reducers('some package 1.0', 'other 2.0')
     .with_beamline(cif.Beamline(name='DREAM', facility='ESS'))
     .with_reduced_powder_data(da).with_powder_calibration(cal))
f = io.StringIO()
b.save(f)
""",
}


def _fresh_expectation(which):
    if which in ('save_cif', 'Block.write'):
        items = [XItem('pair', ['k.v'], [[('str', 'x y')]]), XItem('pair', ['k.u'], [[('str', 'caf\xe9 Å')]]),
                 XItem('pair', ['k.n'], [[('fvar', 1.5, 0.04, False)]]),
                 XItem('loop', ['l.s', 'l.x'], [[('str', 'p q'), ('str', '_r'), ('str', 'l1\nl2')],
                                                [('f64', 1.0), ('f64', 2.5), ('f64', 4.0)]])]
        return None, XDoc('lowlevel', 'save_cif:buffer' if which == 'save_cif' else 'Block.write',
                          [XBlock('fresh', items)], strict=True, heading=which == 'save_cif',
                          top_comment='first call' if which == 'save_cif' else '',
                          sig=('fresh interpreter', which))
    prog = {'name': 'fresh', 'top': 'first call', 'sig': ('fresh interpreter', which), 'ops': [
        {'op': 'authors', 'people': [person('Jane Doe', True, 'measurement', None, None, 'Lund'),
                                     person("Max O'Mustermann", False, 'analysis')]},
        {'op': 'reducers', 'items': ['some package 1.0', 'other 2.0']},
        {'op': 'beamline', 'facility': 'ESS', 'name': 'DREAM', 'source': None, 'source_omitted': True},
        dict(_reduced_op('counts', 'tof'), cx=[1.2, 1.4, 2.3]),
        {'op': 'calibration', 'powers': [0, 1], 'cx': [3.4, 0.2], 'cv': None}]}
    return prog, None


def _sp_fresh_interpreter_for(which):
    def fn(env):
        """First call in a fresh interpreter that imported only scippneutron.io.cif (and scipp for the
        operands): the document is judged like any other and equals what this process writes."""
        import subprocess
        import sys
        ctx, mon = env.ctx, env.mon
        prog, x = _fresh_expectation(which)
        if prog is not None:
            act, x = build_program(env.cif, env.md, prog, env.tmpdir, 'fresh')
        script = _FRESH_PRELUDE + _FRESH_SCRIPTS[which] + "sys.stdout.write(json.dumps(f.getvalue()))\n"
        x.report_as = ('doc_fresh_interpreter', {'mechanism': 'first_call_in_fresh_interpreter', 'entry': which})
        mon.begin(x)
        try:
            case = x.describe()
            mon._set_reporter(x, case, f'{which} as the first call of a fresh interpreter')
            try:
                proc = subprocess.run([sys.executable, '-c', script], capture_output=True, text=True,
                                      timeout=600, env=dict(os.environ), check=False)
            except Exception:  # noqa: BLE001
                ctx.oracle_error('C14 starting a fresh interpreter')
                return
            x.env['t1'] = _dt.datetime.now(_dt.timezone.utc)
            mon.judged_docs += 1
            ctx.event('document')
            ctx.event('document.fresh_interpreter')
            if proc.returncode != 0:
                case['stderr'] = proc.stderr[-1500:]
                last = proc.stderr.strip().splitlines()[-1:] or ['']
                mon._report('raised', f'exit status {proc.returncode}: {last[0][:200]}')
                return
            try:
                import json
                text = json.loads(proc.stdout)
            except Exception:  # noqa: BLE001
                ctx.oracle_error('C14 decoding the output of the fresh interpreter')
                return
            mon.judge_text(x, text, case)
        finally:
            mon.end()
        ctx.case(x.sig)
        # the same calls in this process
        ns = {}
        exec(compile("import io\nimport scipp as sc\n" + _FRESH_SCRIPTS[which], '<fresh>', 'exec'),  # noqa: S102
             {'cif': env.cif}, ns)
        here = ns['f'].getvalue()
        strip = re.compile(r'^_audit\.creation_date .*$', re.MULTILINE)
        ctx.event('fresh.compared_with_worker')
        if strip.sub('', here) != strip.sub('', text):
            ctx.violation('doc_fresh_interpreter', f'{which}: the first call of a fresh interpreter writes another '
                          'text than this process', {'fresh': text[:1500], 'here': here[:1500]},
                          mechanism='first_call_in_fresh_interpreter', entry=which)
    return fn


def _sp_coinciding_sizes(env):
    """Sizes that coincide with sizes the writer uses itself, one below and one above: 1 / 2 reducers and
    authors (pair versus loop), the 3 columns and 1 / 2 rows of the schema loop, the 4 standard calibration
    powers, the 75 characters of a block code."""
    cif, md, ctx = env.cif, env.md, env.ctx
    k = 0
    for n in range(4):
        for nc, nr in ((0, n), (n, 0), (n, n)):
            if n == 0 and (nc, nr) != (0, 0):
                continue
            people = [person(f'Contact {i}', True, f'role c{i}' if i % 2 == 0 else None) for i in range(nc)] + \
                     [person(f'Author {i}', False, f'role r{i}' if i % 2 == 1 or nr == 1 else None) for i in range(nr)]
            prog = {'name': f'sizes_{nc}_{nr}', 'sig': ('sizes', 'authors', nc, nr), 'ops': [
                {'op': 'authors', 'people': people}, {'op': 'reducers', 'items': [f'prog {i}' for i in range(n)]}]}
            env.execute(*build_program(cif, md, prog, env.tmpdir, f'sz{k}'))
            k += 1
    pool = [0, 1, 2, -1, 3, -2]
    for n in (1, 3, 4, 5, 6):
        prog = {'name': f'sizes_cal_{n}', 'sig': ('sizes', 'calibration', n), 'ops': [
            {'op': 'calibration', 'powers': pool[:n], 'cx': [0.5 + i for i in range(n)],
             'cv': [0.01 * (i + 1) for i in range(n)] if n % 2 else None}]}
        env.execute(*build_program(cif, md, prog, env.tmpdir, f'sz{k}'))
        k += 1
    for rows in (1, 2, 3):
        for cols in (1, 2, 3, 4):
            d = {f's.c{c}': sc.array(dims=['schema'], values=[f'v {r} {c}' for r in range(rows)]) for c in range(cols)}
            x = XDoc('lowlevel', 'save_cif:buffer', [XBlock('sizes', [XItem(
                'loop', list(d), [[('str', v) for v in col.values] for col in d.values()])])], strict=True,
                sig=('lowlevel', 'forced', 'sizes', rows, cols))
            env.execute(lambda d=d: cif.save_cif(io.StringIO(), cif.Block('sizes', [cif.Loop(d)])), x)
    for n in (1, 2, 74):
        nm = ('n%d_' % n + 'abcdefghij' * 12)[:n]
        x = XDoc('lowlevel', 'save_cif:buffer', [XBlock(nm, [XItem('pair', ['k.v'], [[('str', 'x')]])])],
                 strict=True, sig=('lowlevel', 'forced', 'name length', n))
        env.execute(lambda nm=nm: cif.save_cif(io.StringIO(), cif.Block(nm, [{'k.v': 'x'}])), x)
    ctx.event('sizes.checked', k)


# ---- forked builder chains ---------------------------------------------------------
# A builder is a value: with_* returns a new builder and leaves the one it was called on - and every
# other builder derived from it - as it was.  The document of a builder is the document of the calls on
# ITS path from CIF(...), however many relatives were derived from its ancestors before it is saved.
FORK_KINDS = ('authors', 'reducers', 'beamline', 'reduced', 'calibration')
_FIXED_TAG_KINDS = ('beamline', 'reduced', 'calibration')


def _fork_op(kind, v):
    """The ``v``-th (0, 1, 2) argument set for one combinator: all three differ in every supplied value."""
    L = 'ABC'[v]
    if kind == 'authors':
        return {'op': 'authors', 'people': [person(f'Author {L}1', v == 1, f'role of {L}1', None, None, f'Address {L}'),
                                            person(f'Author {L}2', v == 2, None if v == 0 else f'role of {L}2')]}
    if kind == 'reducers':
        return {'op': 'reducers', 'items': [f'reducer {L} {v + 1}.0'] + ([f'second reducer {L}'] if v == 1 else [])}
    if kind == 'beamline':
        return {'op': 'beamline', 'facility': [f'Facility {L}', None, f'Facility {L}'][v], 'name': f'Beamline {L}',
                'source': v, 'comment': f'beamline comment {L}'}
    if kind == 'reduced':
        n = 3 + v
        return dict(_reduced_op(('counts', 'one', 'counts')[v], ('tof', 'dspacing', 'tof')[v]),
                    cx=[10.0 * (v + 1) + 1.5 * i for i in range(n)], cv=None,
                    dx=[100.0 * (v + 1) + 2.25 * i for i in range(n)],
                    dv=[0.25 * (v + 1) * (i + 1) for i in range(n)] if v != 1 else None, comment=f'data comment {L}')
    if kind == 'calibration':
        n = 2 + v
        return {'op': 'calibration', 'powers': [0, 1, 2, -1][:n], 'cx': [0.5 * (v + 1) + i for i in range(n)],
                'cv': [0.01 * (v + 1) * (i + 1) for i in range(n)] if v != 2 else None, 'comment': f'cal comment {L}'}
    raise AssertionError(kind)


def _fork_tree(kind):
    """[(node name, parent name | None, op | None)] in the order of derivation: the chain and the branches
    around one combinator - applied once, twice and three times along a chain (directly and with another
    call in between), twice on two branches from one parent, next to every other combinator on sibling branches."""
    other = FORK_KINDS[(FORK_KINDS.index(kind) + 1) % len(FORK_KINDS)]
    tree = [('R', None, None), ('P', 'R', _fork_op(kind, 0))]
    for j in FORK_KINDS:
        tree.append((f'P+{j}', 'P', _fork_op(j, 1)))                   # j == kind: twice along the chain
    tree += [('P+again', 'P', _fork_op(kind, 2)),                      # the same combinator on a second branch
             ('P+twice+again', f'P+{kind}', _fork_op(kind, 2)),        # three times along the chain
             ('P+other+again', f'P+{other}', _fork_op(kind, 1)),       # twice, another call in between
             ('R+again', 'R', _fork_op(kind, 1)),                      # a second branch from the root
             ('P+equal', 'P', _fork_op(kind, 0))]                      # the call repeated with equal arguments
    return tree


def _fork_ops(tree, name):
    by = {n: (p, op) for n, p, op in tree}
    ops = []
    while by[name][0] is not None:
        ops.append(by[name][1])
        name = by[name][0]
    return ops[::-1]


_CREATION_DATE = re.compile(r'^_audit\.creation_date .*$', re.MULTILINE)


def _sp_forked_chains_for(kind):
    def fn(env):
        """Forked builder chains around one combinator; every builder is saved only after ALL its relatives
        were derived, in several orders (fresh tree per order, every builder saved once).  Judged (1) by the
        independent parser against the calls on the builder's own path (documents in which the caller supplied
        the fixed tags twice: the user content in the order of the calls), (2) text equality - up to the creation
        date - with the document of an identically constructed builder that never had relatives."""
        cif, md, ctx = env.cif, env.md, env.ctx
        tree = _fork_tree(kind)
        names = [n for n, _, _ in tree]
        keys = {'mechanism': 'forked_builder_chain', 'combinator': 'with_' + kind}
        small = ['P', f'P+{kind}', 'P+again']
        perm = [int(i) for i in np.random.Generator(np.random.PCG64([FORK_KINDS.index(kind), 1414])).permutation(len(names))]
        orders = [('derivation order', names), ('reverse order', names[::-1]),
                  ('shuffled', [names[i] for i in perm])]
        orders += [('parent and two children: ' + '>'.join(o), list(o)) for o in itertools.permutations(small)]
        for oi, (oname, order) in enumerate(orders):
            built = {}
            for n, parent, op in tree:
                if parent is None:
                    built[n] = cif.CIF('forked', comment='top comment')
                else:
                    built[n] = _apply_op(cif, md, built[parent], op)
            for n in order:
                ops = _fork_ops(tree, n)
                ref_act, x = build_program(cif, md, {'name': 'forked', 'top': 'top comment', 'ops': ops,
                                                     'sig': ('forked chain', kind, n, oi)}, env.tmpdir, f'fk{oi}')
                fixed = [o['op'] for o in ops if o['op'] in _FIXED_TAG_KINDS]
                dup = len(set(fixed)) != len(fixed)
                x.report_as = ('doc_forked_builder', keys)
                buf = io.StringIO()
                if not dup:
                    before = ctx.n_violations
                    env.execute(lambda b=built[n], buf=buf: b.save(buf), x)
                    text = buf.getvalue()
                    if ctx.n_violations != before:
                        continue
                else:
                    # fixed tags supplied twice by the caller: not a document the tag-matching comparison takes;
                    # the user content is compared item by item in the order of the calls
                    case = dict(x.describe(), node=n, order=oname)
                    try:
                        built[n].save(buf)
                    except Exception as e:  # noqa: BLE001
                        ctx.violation('doc_forked_builder', f'{n} ({oname}): CIF.save raised {type(e).__name__}: {e}',
                                      case, **keys)
                        ctx.case(x.sig)
                        continue
                    text = buf.getvalue()
                    ctx.case(x.sig)
                    case['written'] = text[:1500]
                    try:
                        doc = cif11.parse(text)
                        want = [it for it in x.blocks[0].items if it.group == 'user']
                        got = [p for p in doc.blocks[0].items
                               if (p.tag if isinstance(p, cif11.Pair) else p.tags[0]).startswith(('diffrn_', 'pd_'))]
                        x.env['t1'] = _dt.datetime.now(_dt.timezone.utc)
                        problems = []
                        if len(doc.blocks) != 1 or len(want) != len(got):
                            problems.append(f'{len(want)} items of user content supplied, {len(got)} read back')
                        else:
                            for it, p in zip(want, got, strict=True):
                                problems += [m for _, m in _compare_item(it, p, x.env)]
                    except cif11.CifSyntaxError as e:
                        problems = [f'output is not CIF 1.1: {e}']
                    except Exception:  # noqa: BLE001
                        ctx.oracle_error('C14 forked chain: comparing the user content')
                        continue
                    ctx.event('fork.user_content_in_call_order')
                    if problems:
                        ctx.violation('doc_forked_builder', f'{n} ({oname}): {problems[0]}', case, **keys)
                        continue
                # (2) the builder that never had relatives (saved outside the document monitor: it is the same
                # program the random workload judges)
                ref = io.StringIO()
                try:
                    ref_act(ref)
                except Exception:  # noqa: BLE001
                    ctx.count('fork.reference_refused')
                    continue
                ctx.event('fork.compared_with_unshared')
                if _CREATION_DATE.sub('', ref.getvalue()) != _CREATION_DATE.sub('', text):
                    ctx.violation('doc_forked_builder', f'{n} ({oname}): the document differs from the document of an '
                                  'identically constructed builder without relatives',
                                  {'node': n, 'order': oname, 'calls': [o['op'] for o in ops],
                                   'written': text[:1500], 'unshared': ref.getvalue()[:1500]}, **keys)
    return fn


# ---- tags from the whole CIF 1.1 data-name alphabet -----------------------------------
# <Tag> = '_' {<NonBlankChar>}+ : every printable ASCII character 33..126 may occur anywhere behind the
# underscore the writer adds.  The unchanged tree takes all of them in every position (refusals would be
# counted); whatever is accepted must read back as exactly the supplied tag.
TAG_WAYS = ('Chunk(dict)', 'Chunk(None)+setitem', 'Block([dict])', 'Block.add(dict)', 'Loop(dict)', 'Loop+setitem')
DICTIONARY_TAGS = ('refine_ls.shift/su_max', 'refine_ls_shift/su_max', 'diffrn_reflns.av_unetI/netI',
                   'diffrn_reflns_av_sigmaI/netI', 'atom_site_aniso.U[1][1]', 'refine.ls_R_factor_%',
                   'exptl_crystal.density_(meas)', 'refln.F^2^_calc', "atom_site.label'", 'cell.angle_alpha:su',
                   'refine_ls_restrained_S_all+gt', 'chemical_formula.sum*', 'journal.page_first&last',
                   'diffrn.ambient_temperature<gt>', 'pd_proc.2theta_range_{min,max}', 'a=b', 'x|y~z', 'who?', 'q!@`\\"')


def _tag_sets():
    """[(label, [tags])]: per character its four positions; then the names of the official dictionaries."""
    out = []
    for cp in range(33, 127):
        ch = chr(cp)
        out.append((f'U+{cp:04X}', [ch + 'ab.cd', 'ab' + ch + 'x.c' + ch + 'd', 'ab.cd' + ch, ch]))
    for i in range(0, len(DICTIONARY_TAGS), 4):
        out.append((f'dictionary names {i // 4}', list(DICTIONARY_TAGS[i:i + 4])))
    return out


def _sp_tag_alphabet_for(way):
    def fn(env):
        cif, ctx = env.cif, env.ctx
        seen = set()
        for label, tags in _tag_sets():
            strs = [f'value of {j} #{j}' for j in range(len(tags))]
            if way.startswith('Loop'):
                cols = {t: sc.array(dims=['r'], values=[strs[j], f'_{j}']) for j, t in enumerate(tags)}
                xitems = [XItem('loop', tags, [[('str', strs[j]), ('str', f'_{j}')] for j in range(len(tags))])]
            else:
                pairs = {t: (strs[j] if j % 2 == 0 else sc.scalar(1.5 + j, unit='K')) for j, t in enumerate(tags)}
                xitems = [XItem('pair', [t], [[model_of(v)]]) for t, v in pairs.items()]

            def act(way=way):
                # the objects are made inside the judged call: a refusal of a legal tag is a refusal to write it
                if way == 'Chunk(dict)':
                    content = [cif.Chunk(pairs)]
                elif way == 'Chunk(None)+setitem':
                    ch = cif.Chunk(None)
                    for t, v in pairs.items():
                        ch[t] = v
                    content = [ch]
                elif way == 'Block([dict])':
                    content = [dict(pairs)]
                elif way == 'Loop(dict)':
                    content = [cif.Loop(cols)]
                elif way == 'Loop+setitem':
                    lp = cif.Loop({})
                    for t, v in cols.items():
                        lp[t] = v
                    content = [lp]
                else:
                    content = None
                if content is None:
                    blk = cif.Block('tags')
                    blk.add(dict(pairs))
                else:
                    blk = cif.Block('tags', content)
                cif.save_cif(io.StringIO(), blk)

            x = XDoc('lowlevel', 'save_cif:buffer', [XBlock('tags', xitems)], strict=True,
                     sig=('lowlevel', 'forced', 'tag alphabet', way, label))
            x.report_as = ('doc_tag_alphabet', {'mechanism': 'tag_from_cif11_alphabet', 'way': way})
            env.execute(act, x)
            ctx.event('tags.alphabet_document')
            seen.update(c for t in tags for c in t)
        if not all(chr(cp) in seen for cp in range(33, 127)):
            ctx.inconclusive_because('C14 tag alphabet: not every printable ASCII character was supplied')
    return fn


def forced_specials():
    """[(forced class, function(env))]"""
    out = []
    for i, form in enumerate(CONTENT_FORM_NAMES + SINGLE_BLOCK_FORMS):
        out.append((f'content:{form}', _sp_content_form(form, 'buffer' if i % 2 == 0 else 'path')))
    out += [
        ('handle:open_text_file:save_cif_and_CIF.save', _sp_open_text_file),
        ('meta:variable:values_and_refusals', _sp_metadata_values),
        ('nptypes:values_names_comments', _sp_numpy_types),
        ('block_name:whitespace_and_length', _sp_block_names),
        ('block_name:after_refused_assignment', _sp_after_refused_name),
        ('loop:refused_columns', _sp_loop_refusals),
        ('second_use:same_objects_and_after_refusal', _sp_second_use),
        ('interleave:repr_eq_copy_deepcopy_pickle', _sp_interleave),
        ('dims:loop_every_name', _sp_loop_dims),
        ('schema:every_form', _sp_schema),
        ('subclass:write_override', _sp_subclasses),
        ('target:every_path_kind', _sp_targets),
        ('forms:Block(content=)_and_mappings', _sp_block_content_forms),
        ('target:BytesIO', _sp_binary_buffers),
        ('inplace:modified_between_two_calls', _sp_inplace_between_calls),
        ('aliasing:results_of_with_and_copy', _sp_aliasing_of_results),
        ('sizes:coinciding_with_internal_sizes', _sp_coinciding_sizes),
    ]
    out += [(f'fresh_interpreter:{w}', _sp_fresh_interpreter_for(w)) for w in _FRESH_SCRIPTS]
    out += [(f'fs:{saver}', _sp_fs_forms_for(saver)) for saver in FS_SAVERS]
    out += [(f'fork:with_{kind}:chains_and_branches_saved_in_every_order', _sp_forked_chains_for(kind))
            for kind in FORK_KINDS]
    out += [(f'tags:cif11_alphabet:{way}', _sp_tag_alphabet_for(way)) for way in TAG_WAYS]
    return out


# ======================================================================
# driver
# ======================================================================
N_SHARDS = 16
DOCS = {'quick': 2000, 'thorough': 100_000}


def plan(tier, seed):
    per = DOCS[tier] // N_SHARDS
    return [{'docs': per, 'of': N_SHARDS} for _ in range(N_SHARDS)]


def requirements(tier):
    # minimum number of *judged* observations; the quick tier produces 4x..20x these
    return {
        'events': {'token': 20000, 'document': int(0.9 * DOCS[tier]), 'comment': 2000, 'roles': 30,
                   'su_column': 80, 'value_su': 1500, 'document.save_cif': 1500,
                   'document.Block.write': 40, '_quotes_for_string_value': 20000,
                   '_encode_non_ascii': 20000, 'Chunk.write': 1000, 'Loop.write': 1000,
                   '_serialize_authors': 200, '_serialize_roles': 100, 'CIF.save': 300,
                   # handles: judged on the text between the positions before and after the call;
                   # in use = the handle already held text / stood behind position 0 when the call began
                   'document.handle': 1000, 'document.handle_in_use': 100, 'handle.reused': 40,
                   'document.concatenation': 30,
                   # saves after a refused assignment to Block.name / CIF.name (3 kinds of blank x 8 ways of saving)
                   'after_refused_name': 24,
                   # path targets in their file-system forms: reads of the file the name denotes (os.path.realpath,
                   # the other hard link, a descriptor opened before the call); links that must stay links
                   'document.denoted_file': 40, 'fs.link_checked': 15,
                   # the same objects saved again after an in-place modification; results / arguments written into
                   # after a call; first calls of fresh interpreters; sizes coinciding with internal ones
                   'inplace.saved_again': 12, 'aliasing.checked': 11, 'document.fresh_interpreter': 3,
                   'fresh.compared_with_worker': 3, 'sizes.checked': 1,
                   # forked builder chains: 5 combinators x (3 orders x 13 builders + 6 orders x 3); every printable
                   # ASCII character in the four positions of a tag x 6 ways of supplying tags (+ dictionary names)
                   'fork.compared_with_unshared': 250, 'fork.user_content_in_call_order': 30,
                   'tags.alphabet_document': 6 * 94},
        'forced': ['str:' + n for n, _ in FORCED] + ['empty_block_name', 'file_comment_non_ascii',
                                                      'loop_50_rows', 'loop_6_columns']
        + [n for n, _ in forced_programs()] + [s[0] for s in forced_lowlevel()]
        + [n for n, _ in forced_specials()] + forced_session_classes()
        + [f'fs:{sv}:{f}' for sv in FS_SAVERS for f in FS_FORMS],
    }


def run(shard, ctx):
    bad = cif11.self_test()
    if bad:
        ctx.inconclusive_because('CIF 1.1 oracle self-test failed: ' + '; '.join(bad[:5]))
        return
    from scippneutron import metadata as md
    from scippneutron.io import cif

    seed, index = int(shard['seed']), int(shard['index'])
    rng = np.random.Generator(np.random.PCG64([seed, index, 14]))
    mon = Monitors(ctx)
    tr = Tracer()

    def counter(name):
        return lambda ev: ctx.event(name)

    tr.watch(cif._format_value, '_format_value', on_return=mon.on_format_value)
    tr.watch(cif._write_comment, '_write_comment', on_start=mon.on_comment_start,
             on_return=mon.on_comment_return)
    tr.watch(cif.save_cif, 'save_cif', on_start=mon.on_save_start, on_return=mon.on_save_return)
    tr.watch(cif.CIF.save, 'CIF.save', on_start=mon.on_cifsave_start,
             on_return=lambda ev: (ctx.event('CIF.save'), mon.on_cifsave_return(ev)))
    tr.watch(cif.Block.write, 'Block.write', on_start=mon.on_blockwrite_start,
             on_return=mon.on_blockwrite_return)
    for fn, nm in ((cif._quotes_for_string_value, '_quotes_for_string_value'),
                   (cif._encode_non_ascii, '_encode_non_ascii'), (cif.Chunk.write, 'Chunk.write'),
                   (cif.Loop.write, 'Loop.write'), (cif._serialize_authors, '_serialize_authors'),
                   (cif._serialize_roles, '_serialize_roles')):
        tr.watch(fn, nm, on_return=counter(nm))

    tmpdir = tempfile.mkdtemp(prefix='rv-c14-')
    n_samples = 0

    def execute(act, x, allow=None):
        nonlocal n_samples
        before = ctx.n_violations
        mon.begin(x)
        mon.allow_exc = allow
        try:
            act()
        except Exception as e:  # noqa: BLE001  judged by the document monitor through PY_UNWIND
            if mon.judged_docs == 0:
                if x.report_as is not None:
                    ctx.violation(x.report_as[0], f'{x.via}: raised {type(e).__name__}: {e}', x.describe(),
                                  **x.report_as[1])
                else:
                    ctx.violation('doc_raised_outside_monitors',
                                  f'{x.via}: raised {type(e).__name__}: {e}', x.describe(),
                                  mechanism='raised')
        finally:
            mon.end()
        ctx.case(x.sig, trivial=x.trivial)
        if n_samples < 2 and x.kind != 'atom' and 'forced' not in x.sig and ctx.n_violations == before:
            ctx.sample(x.describe())
            n_samples += 1

    try:
        with tr:
            # (a) atoms: every forced class, distributed over the shards; three placements
            variants = ('chunk', 'loop_first', 'loop_other')
            for i, (name, s) in enumerate(FORCED):
                for j, variant in enumerate(variants):
                    if (i * 3 + j + seed) % shard.get('of', N_SHARDS) != index % shard.get('of', N_SHARDS):
                        continue
                    execute(*gen_atom(rng, cif, name, s, variant))
            # forced structural classes
            if index % 4 == 0:
                f = io.StringIO()
                x = XDoc('builder', 'CIF.save:buffer', [XBlock('', [
                    XItem('loop', ['audit_conform.dict_name', 'audit_conform.dict_version',
                                   'audit_conform.dict_location'], [[('str', 'coreCIF')], [], []],
                          group='auto', special='schema'),
                    XItem('pair', ['audit.creation_date'], [[('now',)]], group='auto'),
                    XItem('pair', ['audit.creation_method'], [[('nonblank',)]], group='auto')])],
                    strict=False, sig=('builder', 'default_name'), builder={'contact': [], 'regular': []})
                execute(lambda: cif.CIF().save(f), x)
                ctx.hit('empty_block_name')
            if index % 4 == 1:
                top = ['caf\xe9', 'line one\n日本', '\xb5m scale'][(index // 4) % 3]
                x = XDoc('lowlevel', 'save_cif:buffer', [XBlock('b', [XItem('pair', ['k.v'], [[('str', 'x')]])])],
                         strict=True, top_comment=top, sig=('lowlevel', 'file_comment_non_ascii'))
                execute(lambda: cif.save_cif(io.StringIO(), cif.Block('b', [{'k.v': 'x'}]), comment=top), x)
                ctx.hit('file_comment_non_ascii')
            if index % 4 == 2:
                cols = {f'big.c{c}': sc.array(dims=['r'], values=[benign_string(rng) for _ in range(50)])
                        for c in range(6)}
                x = XDoc('lowlevel', 'save_cif:buffer', [XBlock('big', [XItem(
                    'loop', list(cols), [[('str', v) for v in col.values] for col in cols.values()])])],
                    strict=True, sig=('lowlevel', 'loop50x6'))
                execute(lambda: cif.save_cif(io.StringIO(), cif.Block('big', [cif.Loop(cols)])), x)
                ctx.hit('loop_50_rows')
                ctx.hit('loop_6_columns')
            # every public way of supplying comments / names, exact duplicates among repeated
            # items, intensity units that render with non-ASCII characters: one document each
            of = shard.get('of', N_SHARDS)
            for i, (fname, prog) in enumerate(forced_programs()):
                if (i + seed) % of == index % of:
                    execute(*build_program(cif, md, dict(prog, sig=('forced', fname)), tmpdir, f'f{i}'))
                    ctx.hit(fname)
            for i, spec in enumerate(forced_lowlevel()):
                if (i + 7 + seed) % of == index % of:
                    execute(*gen_forced_lowlevel(cif, spec))
                    ctx.hit(spec[0])
            # every form of an iterable of blocks, every kind of target, second uses, refusal paths ...
            env = types.SimpleNamespace(cif=cif, md=md, ctx=ctx, mon=mon, execute=execute, tmpdir=tmpdir, rng=rng)
            for i, (fname, fn) in enumerate(forced_specials()):
                if (i + 3 + seed) % of == index % of:
                    try:
                        fn(env)
                    except Exception as e:  # noqa: BLE001  outside the watched calls: the objects could not be built
                        ctx.violation('builder_raised', f'{fname}: building the documents raised '
                                                        f'{type(e).__name__}: {e}', {'forced_class': fname},
                                      mechanism='builder_raised')
                    ctx.hit(fname)
            # call sequences into one open handle
            for i, (kind, pattern) in enumerate(FORCED_SESSIONS):
                if (i + 11 + seed) % of == index % of:
                    fname = f'handle:{kind}:{pattern}'
                    try:
                        run_session(env, kind, session_steps(cif, md, pattern, tmpdir, f'fs{i}'), f'fs{i}',
                                    ('forced', pattern))
                    except Exception as e:  # noqa: BLE001
                        ctx.violation('builder_raised', f'{fname}: the call sequence raised outside the '
                                                        f'watched calls {type(e).__name__}: {e}',
                                      {'forced_class': fname}, mechanism='builder_raised')
                    ctx.hit(fname)
            # (b) + (c) random documents, (e) random call sequences
            for k in range(int(shard['docs'])):
                try:
                    if k % 25 == 7:
                        kind, steps, sig = gen_session(rng, env, k)
                        run_session(env, kind, steps, f'r{k}', sig)
                        continue
                    if rng.random() < 0.55:
                        act, x = gen_lowlevel(rng, cif, tmpdir, k)
                    else:
                        act, x = gen_builder(rng, cif, md, tmpdir, k)
                except Exception as e:  # noqa: BLE001
                    ctx.violation('builder_raised', f'building a document raised {type(e).__name__}: {e}',
                                  {'doc_index': k}, mechanism='builder_raised')
                    continue
                execute(act, x)
                if k % 50 == 49:
                    for fn in os.listdir(tmpdir):
                        os.unlink(os.path.join(tmpdir, fn))
    finally:
        shutil.rmtree(tmpdir, ignore_errors=True)
    ctx.extra['oracle_selftest'] = {'accept_cases': len(cif11._ACCEPT), 'reject_cases': len(cif11._REJECT),
                                    'failures': 0}
    ctx.extra['forced_string_classes'] = len(FORCED)
