"""C12 Every SQW file written is a structurally complete, self-consistent container.

Artefact monitor: the return of ``SqwBuilder.create`` is observed (sys.monitoring on
the code object); the bytes of the file that was just produced are decoded by the
independent container decoder ``rv.oracle.sqwdec`` and judged against the property:
header literal, byte order re-deduced on re-opening, block allocation table (unique
names, expected block set, order independent of the order of builder calls), extents
tiling the file from the end of the table to end-of-file, every extent decoding
completely as a block of its declared type.

History monitor (diagnosis): ``_PixWrap.write/size``, ``_DndPlaceholder.write/size``,
``LowLevelSqw.write_raw/write_array`` and ``_serialize_block_allocation_table`` are
traced, giving the bytes actually written per block next to the declared size; the
mechanism of a byte-level failure is derived from that trace.

This module also holds the SQW workload shared with C13 (cases, supplied values,
driver).
"""

from __future__ import annotations

import copy
import enum
import errno
import io
import itertools
import math
import os
import shutil
import sys
import tempfile

import numpy as np

from rv.oracle import sqwdec as D
from rv.trace import Tracer

ID = 'C12'
LEVEL = 'exploration'
RULE = (
    'case = one builder program (ordered subset of {add_pixel_data, add_default_instrument, '
    'add_default_sample, add_empty_dnd_data, add_empty_detector_params}) x byte order x pixel '
    'count x chunk size x number of runs x energy mode x string class x target (BytesIO / real '
    'file) x public keywords (rows/row_units: default, explicit, reordered, subset, superset with '
    'extra coordinates, single row, index-only, float-only, non-default declared units; n_dims '
    'default and 0..4; title given / default; byteorder as str / enum / default; chunk_size given / '
    'default) x dtype plan of the pixel rows (per-row mix of float32/float64/int32/int64, and every '
    'row of one dtype) x class of the metadata objects (random units float64, already in the written '
    'unit and dtype, float32, integer, mixed) x array size class. Every ordered subset is run (all 326; '
    'thorough: in all three byte orders), plus a pixel-count x chunk-size grid, a 1..20 run sweep, a '
    'string sweep (length 0..5000, 1-4 byte UTF-8), the row-set x dtype-plan grid, the metadata class '
    'x byte order x target grid (canonical objects are also built twice from the same objects), and a '
    'size ladder: histogram volumes and indirect-mode energy grids just below / at / just above 2^10, '
    '2^13 (=default chunk size 8192), 2^16, 2^18, 2^20 elements and random sizes in between, in '
    'memory and on disk, 1e5 pixels in one chunk, and per run two heavy files with an n-d array '
    'beyond 2^22 elements (histogram in memory ~100 MB; energy grid of a data block ~35 MB); '
    'sequences of builds on ONE real path, so that the output file already exists when create() runs: an '
    'older SQW file that is shorter / longer / of the same size / of the other byte order, the same builder '
    'created again after further calls (fewer pixels, unchanged, more blocks), other bytes of the same / a '
    'larger / a smaller size, an empty file, the path reached through a symbolic link, path as str or '
    'os.PathLike; the byteorder keyword in every public form (\'little\' / \'big\' / \'native\', Byteorder '
    'members, Byteorder.native(), left out); every file is re-opened with the byte order deduced and given '
    'explicitly (string, enum member). '
    'The FORM of the arguments (same supplied values, every form the public signatures allow; each class in every '
    'run): masks on the pixel data (flagging the pixels that hold the minimum / maximum of every written row; every '
    'pixel; several masks incl. a 0-d one); variances on pixel coordinates and on metadata quantities; pixel data '
    'without variances (rows without error); pixel data that is a strided view of a larger buffer; the pixel '
    'dimension named row / range / axis / detector / energy_transfer / _ / x / with a blank; chunk_size, n_dims, '
    'run ids as numpy integer scalars (int64, int32, intp, uint32), results of np.prod / np.ceil(..).astype(int), '
    'IntEnum members, int subclasses; strings (title, model strings, byteorder, path) as np.str_, (str, Enum) '
    'members, str subclasses; np.bool_ flags; every argument by keyword; the returned builder ignored; tuples / '
    'lists / one-shot iterators for the documented lists / tuples; a BytesIO subclass overriding write, a '
    'duck-typed os.PathLike, a PurePath; subclasses of the model classes overriding the serialisation hook; repr / '
    'str / copy / deepcopy of builder and models between the calls; a refused add_pixel_data (bin edges) followed '
    'by the right call; a create() that fails half-way (stream error, missing directory) followed by a second '
    'create(); experiment records and instrument read back with the package\'s reader fed into a second build; one '
    'pixel table of 2^20 + 7 pixels written in three chunks. '
    'Text that is not in Unicode normal form (every entry changes under NFC: decomposed accents, ANGSTROM / KELVIN / '
    'OHM SIGN, conjoining jamo, Greek question mark, compatibility ideograph; and NFC-but-not-NFKC text: MICRO SIGN, '
    'fullwidth, ligatures, superscripts) in EVERY string field of every model, and in file and directory names. '
    'File-system forms of a path target: a dangling symbolic link, one of two hard-linked names, '
    '<symlink to a directory>/../name, a relative name, an existing file that a reader holds open. '
    'Streams that are NOT EMPTY when create() runs (sequences on one BytesIO): rewound after an earlier shorter / '
    'longer / equally long file, the same builder created again at the start and behind the file just written, '
    'BytesIO created from the bytes of older files or from other bytes of the same / a larger / a smaller size, '
    'standing at the start / inside / at the end. '
    'The very same model objects modified in place (values, a slice, a unit) between two builds; sizes that '
    'coincide with the lengths the format uses (2, 3, 4, 8, 9, 10 for pixels = runs = energies = detectors = '
    'histogram axes); one build + read in a fresh interpreter that imports only scippneutron.io.sqw, compared '
    'byte for byte (time stamps blanked) with the same program run in the worker. '
    'distinct = distinct (program set, length, byte order, pixel class, chunk relation, runs class, '
    'mode, string class, target, keyword/dtype/unit/size variant, state of the output path) signatures; the '
    'empty program in native order on a fresh target is the only trivial one'
)
ASSUMPTIONS = [
    'the container layout is the one in docs/developer/file-formats/sqw.md; struct / object '
    'array / self-serialising objects (TODO in that document) follow the Horace serialiser '
    'layout as implemented by rv/oracle/sqwdec.py',
    'the size field of the block allocation table counts the bytes after itself (length-prefix '
    'convention, as Horace computes blocks_start = position + 4 + bat_bin_size)',
    'a character occupies one byte in a char array (the document: c_i :uint8), so a length or '
    'shape field of a char array counts bytes',
    'the pixel block holds as many rows as the rows keyword selects (u32 n_rows in its head); a '
    'selection has at least one row; float32 and integer pixel rows are supplied in the declared '
    'unit of their row (a unit conversion of such a row is scipp arithmetic in that dtype)',
    'the n_dims field of the file header is the n_dims keyword of add_pixel_data (default 4; 0 '
    'without pixel data)',
    'a real output path that already holds a file is replaced: after create() the file at the path is '
    'exactly the container (open mode "wb"); a second create() of one builder writes what the builder holds '
    'after all calls made so far (a repeated call replaces what the earlier one registered)',
    'a stream (BytesIO) is written from the position it stands at: the file header begins there, the positions of '
    'the allocation table are offsets in the stream (the reader is handed the stream at the same position); the '
    'bytes in front of that position are not touched; bytes the stream held BEHIND the end of the last extent stay '
    'as they were (a stream is not truncated by the writer: for such a stream "end-of-file" is the end of the last '
    'extent, counted, and every byte inside the declared extents is judged as for any other file)',
    'strings are stored code point by code point (UTF-8 of exactly the string supplied; no Unicode normalisation); '
    'a path names the file the operating system resolves it to (symbolic links first, then ..)',
    'argument forms: an int / str subclass instance (IntEnum, (str, Enum) member, numpy integer given as chunk_size '
    'or run id, np.str_) stands for its value; masks, variances on coordinates and the name of the pixel dimension '
    'do not change what is written (every pixel is written, a mask removes nothing from the file); forms outside '
    'the documented types that the builder may refuse with TypeError / ValueError / AttributeError (numpy integer '
    'as n_dims, np.bool_ flags, one-shot iterators for rows / experiments) are counted as refusals when refused and '
    'judged like every other file when accepted',
    'sizes are bounded by the memory budget: arrays up to ~4.4e6 elements; the u32 size field of the '
    'allocation table (blocks >= 4 GiB) is not exercised',
]
TECHNIQUE = ('runtime artefact monitor on SqwBuilder.create (sys.monitoring) + independent SQW '
             'container decoder; per-block bytes-written trace of the writer as diagnosis')
LEVEL_TEXT = ('exploration: every file produced by all 326 builder programs (x byte orders), a pixel-count '
              'x chunk-size grid, run and string sweeps, a row-selection x dtype grid over the public keywords, '
              'metadata unit/dtype classes and an array-size ladder up to ~100 MB, in memory and on disk, is '
              'decoded byte by byte '
              'by an independent decoder and judged against the container rules of the property; held '
              'on the files produced, exhaustive only over the finite set of builder programs')
LEVEL_NOTE = ('trusted: the independent decoder rv/oracle/sqwdec.py (format as documented + Horace '
              'serialiser layout), numpy/struct byte unpacking, scipp as container of the inputs')
DESIGN_REF = 'DESIGN.md section 4, C12'
TIMEOUT_S = {'quick': 900, 'thorough': 3 * 3600}

# ------------------------------------------------------------------ workload ---
CALLS = ('pix', 'inst', 'samp', 'dnd', 'det')
CALL_NAMES = {
    'pix': 'add_pixel_data', 'inst': 'add_default_instrument', 'samp': 'add_default_sample',
    'dnd': 'add_empty_dnd_data', 'det': 'add_empty_detector_params',
}
ROWS = ('u1', 'u2', 'u3', 'u4', 'irun', 'idet', 'ien', 'signal', 'error')
ROW_UNITS = ('1/angstrom', '1/angstrom', '1/angstrom', 'meV', None, None, None, 'count', 'count**2')
ROW_INPUT_UNITS = {
    'u1': ('1/angstrom', '1/nm'), 'u2': ('1/angstrom', '1/nm'), 'u3': ('1/angstrom', '1/nm'),
    'u4': ('meV', 'ueV', 'eV'),
}
EN_UNITS = ('meV', 'ueV', 'eV')
ANGLE_UNITS = ('rad', 'deg')
NATIVE = sys.byteorder

# blocks each builder call must contribute (docs: "Data Blocks" table)
BLOCKS_OF_CALL = {
    'pix': [('experiment_info', 'expdata'), ('pix', 'metadata'), ('pix', 'data_wrap')],
    'inst': [('experiment_info', 'instruments')],
    'samp': [('experiment_info', 'samples')],
    'dnd': [('data', 'metadata'), ('data', 'nd_data')],
    'det': [('', 'detpar')],
}
BLOCK_TYPE_OF = {('pix', 'data_wrap'): 'pix_data_block', ('data', 'nd_data'): 'dnd_data_block'}

ALPHABETS = {
    'ascii': [chr(c) for c in range(0x20, 0x7F)],
    'latin': list('äöüßéñÅØ'),          # 2-byte UTF-8
    'cjk': list('中文データ測定'),                  # 3-byte
    'astral': ['\U0001d11e', '\U00010348', '\U0001f600', '\U0002070e'],          # 4-byte
    # text that is NOT in Unicode normal form C: every entry changes under NFC (decomposed accents, the
    # ANGSTROM / KELVIN / OHM signs, conjoining Hangul jamo, Greek question mark, a combining mark that NFC
    # splits, a CJK compatibility ideograph, a composition exclusion that NFC decomposes).  Strings are
    # stored and recovered code point by code point; a string that merely normalises to another is not it.
    'non_nfc': ['e\u0301', 'A\u030a', 'o\u0308', 'n\u0303', '\u212b', '\u212a', '\u2126', '\u1112\u1161\u11ab',
                '\u1100\u1161', '\u037e', '\u0344', '\uf900', '\u0958'],
    # text that is in NFC but not in NFKC form (compatibility characters): MICRO SIGN, fullwidth letters and
    # digits, ligatures, superscripts, circled digits, squared units, vulgar fractions, long s
    'non_nfkc': ['\u00b5', '\uff21', '\uff42', '\uff11', '\ufb01', '\ufb00', '\u00b2', '\u2460', '\u2122',
                 '\u3392', '\u00bd', '\u017f'],
}
UNNORMALISED = ('non_nfc', 'non_nfkc')


def all_programs():
    """Every ordered subset of the five builder calls (326 programs)."""
    out = []
    for k in range(len(CALLS) + 1):
        for sub in itertools.combinations(CALLS, k):
            out.extend(itertools.permutations(sub))
    return out


def resolved(bo: str) -> str:
    return NATIVE if bo == 'native' else bo


def gen_string(rng, length: int, alphabet: str, path_safe: bool = False) -> str:
    if length == 0:
        return ''
    if alphabet == 'mixed':
        pool = ALPHABETS['ascii'] + ALPHABETS['latin'] + ALPHABETS['cjk'] + ALPHABETS['astral']
    else:
        pool = ALPHABETS[alphabet]
    if path_safe:
        pool = [c for c in pool if c not in '/\\\0']
    idx = rng.integers(0, len(pool), size=length)
    s = ''.join(pool[i] for i in idx)
    if alphabet != 'ascii' and all(ord(c) < 128 for c in s):
        s = ALPHABETS['latin'][0] + s[1:]
    return s


STRING_FIELDS = ('title', 'exp_filename', 'exp_filepath', 'label', 'sample_name', 'inst_name',
                 'source_name', 'axes_title', 'proj_title')


def _f32_exact(rng, n):
    return (rng.integers(-2**23, 2**23, size=n).astype(np.float64)
            * 2.0 ** rng.integers(-20, 20, size=n))


def _f32_halfway(rng, n):
    a = np.abs(_f32_exact(rng, n)).astype(np.float32) + np.float32(1.0)
    b = np.nextafter(a, np.float32(np.inf))
    return (a.astype(np.float64) + b.astype(np.float64)) / 2.0 * rng.choice([-1.0, 1.0], size=n)


F32MAX = float(np.finfo(np.float32).max)           # 2^128 - 2^104
F32_OVERFLOW = 2.0 ** 128 - 2.0 ** 103            # round-to-nearest-even: |x| >= this rounds to +-inf
F32_TINY = 2.0 ** -126                            # smallest normal float32; denormal step 2^-149
# rough factors, only used to PLACE supplied values near the ends of the float32 range after the
# unit conversion (expected values never use this table)
UNIT_SCALE = {'1/angstrom': 1.0, '1/nm': 0.1, 'meV': 1.0, 'ueV': 1e-3, 'eV': 1e3}


def f32_range_ends():
    """Magnitudes at the two ends of the float32 range (the 'rounded once to float32' clause
    at its boundaries): largest finite float32, the overflow threshold and its float64
    neighbours, 2^128, values well beyond; smallest denormal, its rounding ties, the
    normal / denormal boundary, values that round to zero."""
    t = F32_OVERFLOW
    hi = [F32MAX, np.nextafter(F32MAX, 0.0), np.nextafter(F32MAX, np.inf), F32MAX + 2.0 ** 102, t,
          np.nextafter(t, 0.0), np.nextafter(t, np.inf), 2.0 ** 128, 3.4e38, 3.5e38, 1e39, 2e39, 1e300]
    lo = [2.0 ** -149, 2.0 ** -150, np.nextafter(2.0 ** -150, 1.0), np.nextafter(2.0 ** -150, 0.0),
          1.5 * 2.0 ** -149, F32_TINY, np.nextafter(F32_TINY, 0.0), F32_TINY * (1 - 2.0 ** -24), 1e-46, 1e-310]
    return np.array(hi + lo)


def gen_row_values(rng, n, dtype, value_class, ratio=1.0):
    """Row values (numpy) of one pixel row; forced classes first when they fit.

    ``value_class`` 'extreme': finite values over the whole float64 range, i.e. also beyond
    both ends of the float32 range they are stored in (``ratio`` = rough factor of the unit
    conversion of the row: part of the values is placed so that the CONVERTED value lies at
    the ends of the float32 range)."""
    if dtype in ('int64', 'int32'):
        hi = 2**20 if value_class not in ('wide', 'extreme') or dtype == 'int32' else 2**40
        return rng.integers(0, hi, size=n).astype(dtype)
    extreme = value_class == 'extreme'
    if extreme and dtype == 'float32':
        mag = np.minimum(10.0 ** rng.uniform(-45.5, 38.6, size=n), F32MAX)
    elif extreme:
        band = rng.integers(0, 4, size=n)
        expo = np.choose(band, [rng.uniform(-30, 29, size=n), rng.uniform(37.5, 39.5, size=n),
                                rng.uniform(39.5, 299, size=n), rng.uniform(-320, -37, size=n)])
        mag = 10.0 ** expo
        mag = np.where((band == 1) & (rng.random(n) < 0.5), mag / ratio, mag)
    elif value_class == 'wide':
        mag = 10.0 ** rng.uniform(-30, 29, size=n)
    else:
        mag = 10.0 ** rng.uniform(-3, 3, size=n)
    v = mag * rng.choice([-1.0, 1.0], size=n)
    forced = np.concatenate([
        [0.0, -0.0, 5e-324, -5e-324, 1e-40, -3e-42, 1.0, -2.5],
        _f32_exact(rng, 4), _f32_halfway(rng, 4),
    ])
    if extreme:
        ends = f32_range_ends()
        if dtype == 'float32':
            with np.errstate(over='ignore'):
                rep = ends.astype(np.float32).astype(np.float64) == ends
            ends = ends[rep & (ends <= F32MAX)]
        parts = [forced, ends * rng.choice([-1.0, 1.0], size=len(ends))]
        if ratio != 1.0 and dtype != 'float32':
            parts.append(ends / ratio * rng.choice([-1.0, 1.0], size=len(ends)))
        forced = np.concatenate(parts)
    k = min(n, len(forced))
    if value_class != 'plain' and k:
        pos = rng.permutation(n)[:k]
        v[pos] = forced[rng.permutation(len(forced))[:k]]
    if dtype == 'float32':
        v = v.astype(np.float32)
    return v


# ---- pixel rows: which rows are written (public keywords rows / row_units) ----
ROW_KIND = {'u1': 'float', 'u2': 'float', 'u3': 'float', 'u4': 'float', 'irun': 'index', 'idet': 'index',
            'ien': 'index', 'signal': 'data', 'error': 'data',
            'weight': 'float', 'temperature': 'float', 'e2': 'float', 'flag': 'index'}
# extra per-pixel coordinates a caller may add to the nine standard rows: declared unit, input units
EXTRA_ROWS = {'weight': ('one', ('one',)), 'temperature': ('K', ('K',)), 'e2': ('meV', EN_UNITS),
              'flag': (None, (None,))}
CONVERTIBLE = {'1/angstrom': ('1/angstrom', '1/nm'), '1/nm': ('1/angstrom', '1/nm'),
               'meV': EN_UNITS, 'ueV': EN_UNITS, 'eV': EN_UNITS}
ROWSETS = ('default', 'explicit', 'reordered', 'subset', 'superset', 'single', 'int_only', 'float_only',
           'custom_units')
DTYPE_PLANS = ('mixed', 'all_f32', 'all_f64', 'all_i64', 'all_i32')
META_CLASSES = ('random', 'canonical', 'f32', 'int', 'mixed')
CANONICAL = {'energy': 'meV', 'angle': 'rad', 'length': 'angstrom', 'lattice_angle': 'deg',
             'q': '1/angstrom'}


def choose_rowset(rng, kind):
    """(row names, declared row units, whether rows/row_units are passed) of a row-set class."""
    std = list(zip(ROWS, ROW_UNITS, strict=True))
    ext = [(k, v[0]) for k, v in EXTRA_ROWS.items()]
    if kind == 'default':
        return list(ROWS), list(ROW_UNITS), False
    if kind == 'explicit':
        sel = std
    elif kind == 'reordered':
        sel = [std[i] for i in rng.permutation(9)]
    elif kind == 'subset':
        k = int(rng.integers(1, 9))
        sel = [std[i] for i in rng.permutation(9)[:k]]
    elif kind == 'superset':
        k = int(rng.integers(1, len(ext) + 1))
        sel = std + [ext[i] for i in rng.permutation(len(ext))[:k]]
        if rng.random() < 0.5:
            sel = [sel[i] for i in rng.permutation(len(sel))]
    elif kind == 'single':
        pool = std + ext
        sel = [pool[int(rng.integers(0, len(pool)))]]
    elif kind == 'int_only':
        pool = [x for x in std + ext if ROW_KIND[x[0]] == 'index']
        k = int(rng.integers(1, len(pool) + 1))
        sel = [pool[i] for i in rng.permutation(len(pool))[:k]]
    elif kind == 'float_only':
        pool = [x for x in std + ext if ROW_KIND[x[0]] != 'index']
        k = int(rng.integers(2, len(pool) + 1))
        sel = [pool[i] for i in rng.permutation(len(pool))[:k]]
    elif kind == 'no_error':
        sel = [x for x in std if x[0] != 'error']
    elif kind == 'custom_units':
        sel = []
        for nme, u in std:
            if u in CONVERTIBLE:
                opts = CONVERTIBLE[u]
                u = opts[int(rng.integers(0, len(opts)))]
            sel.append((nme, u))
    else:
        raise ValueError(kind)
    return [x[0] for x in sel], [x[1] for x in sel], True


def _row_dtype(rng, plan, kind):
    if plan == 'all_f32':
        return 'float32'
    if plan == 'all_f64':
        return 'float64'
    if plan in ('all_i64', 'all_i32'):
        return 'float64' if kind == 'data' else {'all_i64': 'int64', 'all_i32': 'int32'}[plan]
    if kind == 'float':
        return ('float64', 'float64', 'float64', 'float32', 'int64')[int(rng.integers(0, 5))]
    if kind == 'index':
        return ('int64', 'int32', 'float64', 'float32')[int(rng.integers(0, 4))]
    return 'float32' if rng.random() < 0.25 else 'float64'


def gen_pixels(rng, case, runs):
    """The per-pixel arrays handed to add_pixel_data and the selection of rows to write.

    float64 rows of a convertible unit come in any convertible input unit; float32 and
    integer rows are supplied in the declared unit of their row (a conversion would be
    carried out in the dtype of the row, which is scipp's arithmetic, not the writer's)."""
    n = case['npix']
    vclass = case['values']
    plan = case.get('dtypes', 'mixed')
    uplan = case.get('unit_plan')
    names, units, pass_rows = choose_rowset(rng, case.get('rowset', 'default'))
    declared = dict(zip(ROWS, ROW_UNITS, strict=True))
    declared.update({k: v[0] for k, v in EXTRA_ROWS.items()})
    declared.update(dict(zip(names, units, strict=True)))
    present = list(ROWS) + [k for k in names if k not in ROWS]
    dt_data = _row_dtype(rng, plan, 'data')
    rows = {}
    for name in present:
        kind = ROW_KIND[name]
        dt = dt_data if kind == 'data' else _row_dtype(rng, plan, kind)
        unit = declared[name]
        ratio = 1.0
        if dt == 'float64' and kind == 'float' and unit in CONVERTIBLE:
            opts = CONVERTIBLE[unit]
            pick = opts[int(rng.integers(0, len(opts)))]
            if uplan in ('up', 'down'):
                # the input unit whose conversion to the declared unit multiplies by the largest
                # ('up') / smallest ('down') factor
                pick = (max if uplan == 'up' else min)(opts, key=lambda o: UNIT_SCALE[o] / UNIT_SCALE[unit])
            ratio = UNIT_SCALE[pick] / UNIT_SCALE[unit]
            unit = pick
        if kind == 'index' and dt in ('float64', 'float32'):
            vals = rng.integers(0, 2**20, size=n).astype(dt)
        else:
            vals = gen_row_values(rng, n, dt, vclass, ratio)
        if name == 'irun':
            vals = (vals % max(runs, 1)).astype(vals.dtype)
        if name == 'error':
            vals = np.abs(vals)
        rows[name] = {'values': vals, 'unit': unit, 'dtype': dt}
    return {'n': n, 'rows': rows, 'row_names': names, 'row_units': units, 'pass_rows': pass_rows,
            'n_dims': case.get('n_dims')}


def gen_spec(rng, case) -> dict:
    """Everything that is supplied to the builder, as plain numbers / strings."""
    runs = case['nruns']
    sclass = case['string']
    long_field = sclass['field']
    meta = case.get('meta', 'random')

    def s(field, default_len=None, path_safe=False):
        if field == long_field:
            return gen_string(rng, sclass['length'], sclass['alphabet'], path_safe)
        ln = int(rng.integers(0, 12)) if default_len is None else default_len
        return gen_string(rng, ln, 'ascii', path_safe)

    def unit_of(options, family):
        u = options[int(rng.integers(0, len(options)))]
        return CANONICAL[family] if meta == 'canonical' else u

    def dtype_of():
        k = int(rng.integers(0, 4))
        if meta in ('random', 'canonical'):
            return 'float64'
        if meta == 'f32':
            return 'float32'
        if meta == 'int':
            return ('int64', 'int32')[k % 2]
        return ('float64', 'float32', 'int64', 'int32')[k]

    def q(values, unit, dt=None):
        """A supplied quantity: the values are exactly what the scipp object will hold."""
        dt = dt or dtype_of()
        a = np.asarray(values, dtype=np.float64)
        if dt == 'float32':
            a = a.astype(np.float32)
        elif dt != 'float64':
            a = np.rint(a).astype(dt)
        return {'values': a.item() if a.ndim == 0 else a, 'unit': unit, 'dtype': dt}

    spec = {'title': s('title') if case.get('pass_title', True) else ''}
    spec['pix'] = gen_pixels(rng, case, runs)
    # ---- experiments
    exps = []
    for i in range(runs):
        mode = case['mode'] if case['mode'] != 'mixed' else ('direct', 'indirect')[i % 2]
        n_en = case.get('n_en') or int(rng.integers(1, 7))
        eu = unit_of(EN_UNITS, 'energy')
        fu = unit_of(EN_UNITS, 'energy')
        if mode == 'direct':
            efix = q(10.0 ** rng.uniform(-2, 3), fu)
            en = {**q(np.sort(rng.uniform(-50, 50, size=n_en)), eu), 'dims': ['energy_transfer']}
        else:
            ndet = case.get('ndet') or int(rng.integers(2, 6))
            efix = q(10.0 ** rng.uniform(-2, 3, size=ndet), fu)
            vals = rng.uniform(-50, 50, size=(ndet, n_en))
            if rng.random() < 0.5:
                en = {**q(vals, eu), 'dims': ['detector', 'energy_transfer']}
            else:
                en = {**q(np.ascontiguousarray(vals.T), eu), 'dims': ['energy_transfer', 'detector']}
        ang = {}
        for a in ('psi', 'omega', 'dpsi', 'gl', 'gs'):
            u = unit_of(ANGLE_UNITS, 'angle')
            ang[a] = q(rng.uniform(-360, 360) if u == 'deg' else rng.uniform(-6.3, 6.3), u)
        exps.append({
            'run_id': i if case.get('run_ids', 'seq') == 'seq' else int(rng.integers(0, 10**6)),
            'efix': efix, 'emode': mode, 'en': en, **ang,
            'u': rng.uniform(-1, 1, size=3), 'v': rng.uniform(-1, 1, size=3),
            'filename': s('exp_filename') if i == 0 else gen_string(rng, int(rng.integers(0, 12)), 'ascii'),
            'filepath': s('exp_filepath') if i == 0 else gen_string(rng, int(rng.integers(0, 12)), 'ascii'),
        })
    spec['experiments'] = exps
    # ---- instrument / sample
    spec['instrument'] = {
        'name': s('inst_name'),
        'source': {'name': s('source_name'), 'target_name': gen_string(rng, int(rng.integers(0, 9)), 'ascii'),
                   'frequency': q(rng.uniform(1, 60), 'Hz')},
    }
    lu = unit_of(('angstrom', 'nm'), 'length')
    au = unit_of(ANGLE_UNITS, 'lattice_angle')
    spec['sample'] = {
        'name': s('sample_name'),
        'alatt': {'values': rng.uniform(2, 12, size=3) * (0.1 if lu == 'nm' else 1.0), 'unit': lu},
        'angdeg': {'values': rng.uniform(60, 120, size=3) if au == 'deg' else rng.uniform(1.0, 2.1, size=3),
                   'unit': au},
    }
    # ---- dnd metadata
    qunits = [unit_of(('1/angstrom', '1/nm'), 'q') for _ in range(3)] + [unit_of(EN_UNITS, 'energy')]
    hi = 4 if case.get('tier', 'quick') == 'quick' else 9
    nbins = [int(x) for x in rng.integers(1, hi, size=4)]
    if case.get('dnd_bins'):
        nbins = [int(x) for x in case['dnd_bins']]
    lu = unit_of(('angstrom', 'nm'), 'length')
    au = unit_of(ANGLE_UNITS, 'lattice_angle')
    vu = ('1/angstrom', '1/nm')
    idt = ('int64', 'int64', 'int32', 'float64')
    spec['dnd'] = {
        'axes': {
            'title': s('axes_title'),
            'label': [s('label') if j == 1 else gen_string(rng, int(rng.integers(0, 6)), 'ascii')
                      for j in range(4)],
            'img_scales': [q(rng.uniform(1, 4), u) for u in qunits],
            'img_range': [q(np.sort(rng.uniform(-5, 5, size=2)), u) for u in qunits],
            'n_bins_all_dims': nbins,
            'n_bins_dtype': 'int64' if meta in ('random', 'canonical') else idt[int(rng.integers(0, 4))],
            'single_bin_defines_iax': [bool(b) for b in rng.integers(0, 2, size=4)],
            'dax': [int(x) for x in rng.permutation(4)],
            'dax_dtype': 'int64' if meta in ('random', 'canonical') else idt[int(rng.integers(0, 3))],
            'offset': [q(rng.uniform(-1, 1), u) for u in qunits],
            'changes_aspect_ratio': bool(rng.integers(0, 2)),
        },
        'proj': {
            'alatt': {'values': rng.uniform(2, 12, size=3) * (0.1 if lu == 'nm' else 1.0), 'unit': lu},
            'angdeg': {'values': rng.uniform(60, 120, size=3) if au == 'deg' else rng.uniform(1.0, 2.1, size=3),
                       'unit': au},
            'offset': [q(rng.uniform(-1, 1), u) for u in qunits],
            'title': s('proj_title'),
            'label': [gen_string(rng, int(rng.integers(0, 6)), 'ascii') for _ in range(4)],
            'u': {'values': rng.uniform(-1, 1, size=3), 'unit': unit_of(vu, 'q')},
            'v': {'values': rng.uniform(-1, 1, size=3), 'unit': unit_of(vu, 'q')},
            'w': None if rng.random() < 0.5 else {'values': rng.uniform(-1, 1, size=3),
                                                  'unit': unit_of(vu, 'q')},
            'non_orthogonal': bool(rng.integers(0, 2)),
            'type': 'aaa',
        },
    }
    return spec


# ---- argument forms: the same values handed over in every form the public signatures allow ----
# integers (chunk_size, n_dims, run ids): Python int, numpy integer scalars of several widths, results of
# numpy arithmetic (np.prod, np.ceil(...).astype(int)), IntEnum members, int subclasses
INT_FORMS = ('np.int64', 'np.int32', 'np.intp', 'np.uint32', 'np.prod', 'ceil_astype', 'IntEnum', 'int_subclass')
STR_FORMS = ('np.str_', 'str_enum', 'str_subclass')
MASK_CLASSES = ('extremes', 'all', 'several')
PIX_DIMS = ('row', 'range', 'axis', 'detector', 'energy_transfer', '_', 'x', 'pixel index')
# what happens to the NAME of a real file between Sqw.open and Sqw.read_data_block (the reader must go on
# reading the file it opened): opened by a relative name and the working directory changes to a directory that
# holds another file of that name / no such file; the directory entry is replaced by another file (os.replace),
# removed, renamed; opened through a symbolic link that is then pointed at another file; opened by one of two
# hard-linked names which is then removed
READER_FS = ('chdir_other_file', 'chdir_no_file', 'replaced', 'unlinked', 'renamed', 'symlink_retargeted',
             'hardlink_removed')
# exception types of a refusal (argument forms outside the documented types may be refused)
REFUSAL = (TypeError, ValueError, AttributeError)


class MyInt(int):
    """An int subclass (stands for any user-defined integer type)."""


class MyStr(str):
    """A str subclass."""

    __slots__ = ()


def as_int(form, v):
    """The integer ``v`` in the given form (None: plain Python int)."""
    v = int(v)
    if form in (None, 'int'):
        return v
    if form == 'np.prod':
        return np.prod(np.array([v, 1], dtype=np.int64))
    if form == 'ceil_astype':
        return np.ceil(v - 0.5).astype(int)
    if form == 'IntEnum':
        return enum.IntEnum('Count', {'value_': v}).value_
    if form == 'int_subclass':
        return MyInt(v)
    if form.startswith('np.'):
        return getattr(np, form[3:])(v)
    raise ValueError(form)


def as_str(form, s):
    """The string ``s`` in the given form (None: plain str)."""
    if form in (None, 'str'):
        return s
    if form == 'np.str_':
        return np.str_(s)
    if form == 'str_enum':
        return enum.Enum('Text', {'value_': s}, type=str).value_
    if form == 'str_subclass':
        return MyStr(s)
    raise ValueError(form)


class CountingBytesIO(io.BytesIO):
    """A BytesIO subclass that overrides ``write`` (the writer must go through it): counts the
    calls and, when armed, fails ONE write with ENOSPC (a create() that raises half-way; the
    caller empties the stream and calls create() again)."""

    def __init__(self, *a, **kw):
        super().__init__(*a, **kw)
        self.n_writes = 0
        self.fail_at = None

    def write(self, b):
        self.n_writes += 1
        if self.fail_at is not None and self.n_writes >= self.fail_at:
            self.fail_at = None
            raise OSError(errno.ENOSPC, 'No space left on device (injected by the harness)')
        return super().write(b)


class FsPath:
    """A duck-typed os.PathLike (only ``__fspath__``)."""

    def __init__(self, p):
        self._p = p

    def __fspath__(self):
        return self._p

    def __repr__(self):
        return f'FsPath({self._p!r})'


def forms_of(case):
    return (case or {}).get('forms') or {}


def forms_class(case):
    f = forms_of(case)
    return '+'.join(f'{k}={f[k]}' for k in sorted(f)) or '-'


def mask_arrays(kind, px, n, vseed):
    """name -> bool values of the masks of a mask class.  'extremes': the pixels holding the
    minimum and the maximum of every written row (signal, variances, coordinates) are flagged;
    'all': every pixel; 'several': a random mask, a mask that flags nothing and a 0-d mask."""
    if kind == 'extremes':
        m = np.zeros(n, dtype=bool)
        if n:
            for name in px['row_names']:
                v = np.asarray(px['rows'][name]['values'])
                m[int(np.argmin(v))] = True
                m[int(np.argmax(v))] = True
        return {'hot': m}
    if kind == 'all':
        return {'bad': np.ones(n, dtype=bool)}
    r = np.random.Generator(np.random.PCG64([*vseed, 31]))
    return {'random': r.random(n) < 0.5, 'nothing': np.zeros(n, dtype=bool), 'zero_d': np.bool_(True)}


_SUBCLASSES = {}


def model_subclasses(S):
    """Subclasses of the documented model classes that override the serialisation hook the
    builder calls (delegating to the base class; the calls are counted)."""
    if not _SUBCLASSES:
        calls = {'n': 0}

        def make(base):
            def _serialize_to_dict(self):
                calls['n'] += 1
                return dict(base._serialize_to_dict(self))
            return type('Sub' + base.__name__, (base,), {'_serialize_to_dict': _serialize_to_dict})

        for k in ('SqwIXExperiment', 'SqwIXNullInstrument', 'SqwIXSource', 'SqwIXSample', 'SqwDndMetadata',
                  'SqwLineAxes', 'SqwLineProj'):
            _SUBCLASSES[k] = make(getattr(S, k))
        _SUBCLASSES['calls'] = calls
    return _SUBCLASSES


def build_models(S, sc, spec, program, case=None):
    """scipp / scippneutron input objects from the plain spec (inputs, not expectations).

    ``case['forms']`` selects the FORM in which the same supplied values are handed over: masks
    on the pixel data, variances on coordinates / metadata quantities, the name of the pixel
    dimension, pixel data that is a strided view of a larger array, data without variances,
    numpy / enum / subclass stand-ins for the documented int / bool / str arguments, tuples
    where lists are documented, subclasses of the model classes."""
    m = {}
    F = forms_of(case)
    mvar = bool(F.get('meta_variances'))
    sform = F.get('str_as')
    K = model_subclasses(S) if F.get('model_subclass') else None

    def cls(name):
        return K[name] if K else getattr(S, name)

    def st(x):
        return as_str(sform, x)

    def seq(xs):
        return tuple(xs) if F.get('lists_as') == 'tuple' else list(xs)

    def bl(x):
        return np.bool_(x) if F.get('bool_as') == 'np.bool_' else bool(x)

    def is_float(x):
        return x.get('dtype', 'float64') in ('float64', 'float32')

    def scal(x):
        kw = {'variance': abs(float(x['values'])) * 0.25 + 1.0} if mvar and is_float(x) else {}
        return sc.scalar(x['values'], unit=x['unit'], dtype=x.get('dtype', 'float64'), **kw)

    def arr(x, dims):
        kw = {'variances': np.abs(np.asarray(x['values'], dtype=np.float64)) * 0.25 + 1.0} \
            if mvar and is_float(x) else {}
        return sc.array(dims=dims, values=x['values'], unit=x['unit'], dtype=x.get('dtype', 'float64'), **kw)

    if 'pix' in program:
        px = spec['pix']
        rows = px['rows']
        n = px['n']
        dim = F.get('pix_dim', 'obs')
        view = bool(F.get('pix_view'))

        def lay(v, fill):
            """The values as they are handed over: as they are, or every second element of a
            buffer twice as long (the other elements hold ``fill``)."""
            v = np.asarray(v)
            if not view:
                return v
            buf = np.full(2 * len(v) + 1, fill, dtype=v.dtype)
            buf[1::2] = v
            return buf

        def junk(r):
            return np.nan if r['dtype'] in ('float64', 'float32') else -7

        sig, err = rows['signal'], rows['error']
        coords = {}
        for k, r in rows.items():
            if k in ('signal', 'error'):
                continue
            kw = {}
            if F.get('coord_variances') and r['dtype'] in ('float64', 'float32'):
                kw['variances'] = lay(np.ones(n, dtype=r['dtype']), 0.5)
            coords[k] = sc.array(dims=[dim], values=lay(r['values'], junk(r)), unit=r['unit'], dtype=r['dtype'],
                                 **kw)
        kw = {} if F.get('no_variances') else {'variances': lay(err['values'], junk(err))}
        data = sc.array(dims=[dim], values=lay(sig['values'], junk(sig)), unit=sig['unit'], dtype=sig['dtype'],
                        **kw)
        da = sc.DataArray(data, coords=coords)
        if view:
            da = da[dim, 1::2].copy(deep=False)      # shares the strided buffers, own coords / masks dicts
        if F.get('masks'):
            for name, mk in mask_arrays(F['masks'], px, n, case['vseed']).items():
                da.masks[name] = sc.scalar(bool(mk)) if np.ndim(mk) == 0 else \
                    sc.array(dims=[dim], values=mk)
        m['pix'] = da
        exps = []
        for e in spec['experiments']:
            efix = scal(e['efix']) if e['emode'] == 'direct' else arr(e['efix'], ['detector'])
            exps.append(cls('SqwIXExperiment')(
                run_id=as_int(F.get('run_id_as'), e['run_id']), efix=efix, emode=S.EnergyMode[e['emode']],
                en=arr(e['en'], e['en']['dims']),
                psi=scal(e['psi']), u=sc.vector(e['u']), v=sc.vector(e['v']),
                omega=scal(e['omega']), dpsi=scal(e['dpsi']), gl=scal(e['gl']), gs=scal(e['gs']),
                filename=st(e['filename']), filepath=st(e['filepath'])))
        m['experiments'] = exps
    if 'inst' in program:
        i = spec['instrument']
        m['inst'] = cls('SqwIXNullInstrument')(
            name=st(i['name']),
            source=cls('SqwIXSource')(name=st(i['source']['name']), target_name=st(i['source']['target_name']),
                                      frequency=scal(i['source']['frequency'])))
    if 'samp' in program:
        s = spec['sample']
        m['samp'] = cls('SqwIXSample')(
            name=st(s['name']),
            lattice_spacing=sc.vector(s['alatt']['values'], unit=s['alatt']['unit']),
            lattice_angle=sc.vector(s['angdeg']['values'], unit=s['angdeg']['unit']))
    if 'dnd' in program:
        a, p = spec['dnd']['axes'], spec['dnd']['proj']
        m['dnd'] = cls('SqwDndMetadata')(
            axes=cls('SqwLineAxes')(
                title=st(a['title']), label=seq(st(x) for x in a['label']),
                img_scales=seq(scal(x) for x in a['img_scales']),
                img_range=seq(arr(x, ['range']) for x in a['img_range']),
                n_bins_all_dims=sc.array(dims=['axis'], values=a['n_bins_all_dims'], unit=None,
                                         dtype=a.get('n_bins_dtype', 'int64')),
                single_bin_defines_iax=sc.array(dims=['axis'], values=a['single_bin_defines_iax']),
                dax=sc.array(dims=['axis'], values=a['dax'], unit=None, dtype=a.get('dax_dtype', 'int64')),
                offset=seq(scal(x) for x in a['offset']),
                changes_aspect_ratio=bl(a['changes_aspect_ratio'])),
            proj=cls('SqwLineProj')(
                lattice_spacing=sc.vector(p['alatt']['values'], unit=p['alatt']['unit']),
                lattice_angle=sc.vector(p['angdeg']['values'], unit=p['angdeg']['unit']),
                offset=seq(scal(x) for x in p['offset']),
                title=st(p['title']), label=seq(st(x) for x in p['label']),
                u=sc.vector(p['u']['values'], unit=p['u']['unit']),
                v=sc.vector(p['v']['values'], unit=p['v']['unit']),
                w=None if p['w'] is None else sc.vector(p['w']['values'], unit=p['w']['unit']),
                non_orthogonal=bl(p['non_orthogonal']), type=st(p['type'])))
    return m


BYTEORDER_FORMS = ('str', 'enum', 'omit')
BYTEORDER_STR_FORMS = {'np_str': 'np.str_', 'str_enum': 'str_enum', 'str_subclass': 'str_subclass'}


def byteorder_keyword(S, case):
    """The ``byteorder`` keyword of Sqw.build in the form the case asks for: the strings
    'little' / 'big' / 'native' (as str, np.str_, member of a (str, Enum), str subclass), the
    Byteorder enum members (for native: Byteorder.native()), or left out (native only)."""
    how, bo = case.get('byteorder_as', 'str'), case['byteorder']
    if how == 'enum':
        return {'byteorder': S.Byteorder.native() if bo == 'native' else S.Byteorder[bo]}
    if how == 'omit' and bo == 'native':
        return {}
    if how in BYTEORDER_STR_FORMS:
        return {'byteorder': as_str(BYTEORDER_STR_FORMS[how], bo)}
    return {'byteorder': bo}


def byteorder_form(case):
    how, bo = case.get('byteorder_as', 'str'), case['byteorder']
    if how == 'omit' and bo != 'native':
        how = 'str'
    return f'{how}:{bo}'


def _observe(objs):
    """Display / copy of objects between two computational calls (must not change anything)."""
    for o in objs:
        repr(o)
        str(o)
        copy.copy(o)


def run_program(S, case, spec, models, target, session=None, ctx=None):
    """Drive the real builder: the program of ``case`` followed by create().  Which public
    keywords are passed (title, byteorder as str / enum / default, rows + row_units, n_dims,
    chunk_size) is part of the case.  A case with ``continue_builder`` goes on with the builder
    object of the previous case of its sequence (``session``): further calls, then a second
    create() on the same path.

    ``case['forms']``: the form of the call itself -- integer keywords as numpy / enum / subclass
    integers, collections as tuples / lists / one-shot iterators, every argument by keyword, the
    returned builder ignored (calls on the first object), repr / str / copy / deepcopy of builder
    and models between the calls, a call that raises followed by the same call done right, a
    create() that fails half-way followed by a second create(), models read back from the file
    with the package's reader and fed into a second build."""
    F = forms_of(case)
    style = F.get('call_style')
    observe = bool(F.get('observe'))
    if case.get('continue_builder'):
        b = session['builder']
    else:
        kw = {}
        if case.get('pass_title', True):
            kw['title'] = as_str(F.get('str_as'), spec['title'])
        kw.update(byteorder_keyword(S, case))
        b = S.Sqw.build(path=target, **kw) if style == 'keyword' else S.Sqw.build(target, **kw)
    if session is not None:
        session['builder'] = b
    first = b
    if observe:
        models = dict(models)
        _observe([b, *models.values()])
        for k in ('samp', 'dnd', 'experiments'):
            if k in models:
                models[k] = copy.deepcopy(models[k])
        if 'inst' in models:
            models['inst'] = copy.copy(models['inst'])

    def pix_kw():
        kw = {}
        px = spec['pix']
        if px['pass_rows']:
            rows, units = tuple(px['row_names']), tuple(px['row_units'])
            if F.get('rows_as') == 'list':
                rows, units = list(rows), list(units)
            elif F.get('rows_as') == 'iterator':
                rows = iter(rows)
            kw['rows'] = rows
            kw['row_units'] = units
        if px['n_dims'] is not None:
            kw['n_dims'] = as_int(F.get('n_dims_as'), px['n_dims'])
        exps = models['experiments']
        if F.get('experiments_as') == 'tuple':
            exps = tuple(exps)
        elif F.get('experiments_as') == 'iterator':
            exps = iter(exps)
        kw['experiments'] = exps
        return kw

    def add(b, call):
        if call == 'pix':
            if F.get('retry') == 'bin_edges':
                # a call that is refused (bin-edge coordinate), then the call done right
                bad = models['pix'].copy(deep=False)
                name = next((k for k in spec['pix']['row_names'] if k not in ('signal', 'error')), None)
                if name is not None:
                    c = models['pix'].coords[name]
                    import scipp as sc
                    bad.coords[name] = sc.concat([c, c[c.dim, :1] if len(c) else
                                                  sc.zeros(dims=[c.dim], shape=[1], unit=c.unit, dtype=c.dtype)],
                                                 c.dim)
                    try:
                        b.add_pixel_data(bad, **pix_kw())
                    except sc.BinEdgeError:
                        if ctx is not None:
                            ctx.count('retry:first_call_refused')
            if style == 'keyword':
                return b.add_pixel_data(data=models['pix'], **pix_kw())
            return b.add_pixel_data(models['pix'], **pix_kw())
        if call == 'inst':
            return b.add_default_instrument(instrument=models['inst']) if style == 'keyword' else \
                b.add_default_instrument(models['inst'])
        if call == 'samp':
            return b.add_default_sample(sample=models['samp']) if style == 'keyword' else \
                b.add_default_sample(models['samp'])
        if call == 'dnd':
            return b.add_empty_dnd_data(block=models['dnd']) if style == 'keyword' else \
                b.add_empty_dnd_data(models['dnd'])
        return b.add_empty_detector_params()

    def program(b):
        for call in case.get('calls', case['program']):
            r = add(b, call)
            if style != 'unchained':
                b = r
            if observe:
                _observe([first, r])
        return b

    def create(b):
        if case['chunk'] is None:
            return b.create()
        return b.create(chunk_size=as_int(F.get('chunk_as'), case['chunk']))

    b = program(b)
    retry = F.get('retry')
    if retry in ('stream_error', 'missing_dir'):
        # a create() that raises half-way (the stream fails / the directory does not exist), the
        # cause is removed, create() is called again on the same builder
        case['_expect_create_exc'] = OSError
        if retry == 'stream_error':
            target.fail_at = target.n_writes + 8     # header: 5 writes, table: 1, then one per block / chunk
        try:
            create(b)
            case['_first_create'] = 'returned'
        except OSError:
            case['_first_create'] = 'raised'
        finally:
            case.pop('_expect_create_exc', None)
        if retry == 'stream_error':
            target.fail_at = None
            target.seek(0)
            target.truncate(0)
        else:
            os.makedirs(os.path.dirname(os.fspath(target)), exist_ok=True)
    out = create(b)
    if observe:
        _observe([first])
        if isinstance(target, io.BytesIO):
            target.seek(0)
        with S.Sqw.open(target) as q:
            _observe([q, q.file_header])
    if F.get('feedback'):
        # results fed back as inputs: the experiment records and the instrument the package's
        # reader returns for the file just written go into a second build on the same target
        fed = dict(models)
        try:
            if isinstance(target, io.BytesIO):
                target.seek(0)
            with S.Sqw.open(target) as q:
                names = set(q.data_block_names())
                if ('experiment_info', 'expdata') in names:
                    fed['experiments'] = q.read_data_block('experiment_info', 'expdata')
                if ('experiment_info', 'instruments') in names:
                    fed['inst'] = q.read_data_block('experiment_info', 'instruments')[0]
            ok = all(isinstance(e, S.SqwIXExperiment) for e in fed.get('experiments', [])) and \
                isinstance(fed.get('inst', models.get('inst')), S.SqwIXNullInstrument | None)
        except Exception:  # noqa: BLE001  (the reader is judged by C13, not here)
            ok = False
        if not ok:
            if ctx is not None:
                ctx.count('feedback:reader_result_not_usable')
            return out
        if isinstance(target, io.BytesIO):
            target.seek(0)
            target.truncate(0)
        models = fed
        kw = {}
        if case.get('pass_title', True):
            kw['title'] = spec['title']
        kw.update(byteorder_keyword(S, case))
        b = program(S.Sqw.build(target, **kw))
        out = create(b)
        case['_fed_back'] = True
    return out


# ---- sequences on one path: files that already exist when create() runs ----
SPEC_PARTS = {'pix': ('pix', 'experiments'), 'inst': ('instrument',), 'samp': ('sample',), 'dnd': ('dnd',),
              'det': ()}
CASE_PARTS = {'pix': ('npix', 'nruns', 'mode', 'values', 'rowset', 'dtypes', 'n_dims', 'run_ids', 'ndet', 'n_en',
                      'unit_plan'),
              'dnd': ('dnd_bins',)}
BUILDER_KEYS = ('byteorder', 'byteorder_as', 'pass_title', 'target', 'path', 'path_as')


def continue_from(session, case, spec):
    """The effective case / spec of a case that goes on with the builder of the previous case:
    what that builder holds after the further calls (a repeated call replaces what the earlier
    one registered; title, byte order and path are those the builder was made with)."""
    if not case.get('continue_builder'):
        return case, spec
    prev_case, prev_spec = session['case'], session['spec']
    calls = list(case['program'])
    eff_spec = dict(prev_spec)
    eff = dict(case)
    for k in BUILDER_KEYS:
        eff[k] = prev_case[k]
    for part, keys in CASE_PARTS.items():
        if part not in calls:
            for k in keys:
                eff[k] = prev_case.get(k)
    for call in calls:
        for k in SPEC_PARTS[call]:
            eff_spec[k] = spec[k]
    eff['calls'] = calls
    eff['program'] = list(prev_case['program']) + [c for c in calls if c not in prev_case['program']]
    return eff, eff_spec


def open_target(case, tmpdir, rng, session):
    """The target of a case.  Cases of a sequence share one path (``reuse_path``), so the file
    of the previous case is still there when create() runs; ``scribble`` replaces it by other
    bytes of the same / a larger / a smaller size / no bytes first; ``link`` reaches it through
    a symbolic link.  What is at the path is recorded in case['existing']."""
    F = forms_of(case)
    if case['target'] == 'bytesio':
        if F.get('target_class') == 'bytesio_subclass' or F.get('retry') == 'stream_error':
            return CountingBytesIO()
        if case.get('stream') is not None:
            return open_stream(case, session)
        return io.BytesIO()
    if case.get('reuse_path') and session.get('path'):
        path = session['path']
    else:
        path = target_for(case, tmpdir, rng)
        if case.get('reuse_path'):
            session['path'] = path
    session.setdefault('paths', [])
    if case.get('link') == 'symlink':
        # a symbolic link to the path (dangling when there is no file at the path yet)
        link = path + '.lnk'
        if not os.path.lexists(link):
            os.symlink(path, link)
        session['paths'] += [link, path]
        case['_dangling'] = not os.path.exists(path)
        path = link
    elif case.get('link') == 'hardlink' and os.path.exists(path):
        # a second name of the file that is at the path
        link = path + '.hl'
        if not os.path.lexists(link):
            os.link(path, link)
        session['paths'].append(link)
        path = link
    if case.get('continue_builder'):
        path = session['target']        # the builder holds its path
    if case.get('keep_file'):
        session['paths'].append(path)
    existed = os.path.exists(path)
    content = 'sqw' if existed else None
    how = case.get('scribble')
    if how:
        n0 = os.path.getsize(path) if existed else 4096
        size = {'same': n0, 'longer': max(3 * n0 + 17, 1 << 17), 'shorter': max(n0 // 2, 1), 'empty': 0}[how]
        fill = case.get('scribble_fill', 'random')
        data = b'\xff' * size if fill == 'ones' else bytes(size) if fill == 'zeros' else \
            np.random.Generator(np.random.PCG64([*case['vseed'], 77])).bytes(size)
        with open(path, 'wb') as fh:
            fh.write(data)
        existed, content = True, 'garbage'
    if existed:
        last = session.get('last_bo')
        case['existing'] = {'size': os.path.getsize(path), 'content': content,
                            'other_byteorder': bool(content == 'sqw' and last is not None
                                                    and last != resolved(case['byteorder']))}
        if case.get('hold_open'):
            # a reader holds the existing file open while it is written again
            session['held'] = open(path, 'rb')
            session['held'].read(16)
    if F.get('retry') == 'missing_dir':
        # the directory of the output file does not exist when create() is called first
        path = os.path.join(path + '.d', 'inner.sqw')
    if case.get('path_as') == 'relative' and not case.get('continue_builder'):
        # a relative name (with a directory part): the working directory is the grandparent of the file
        # from Sqw.build to the last read of the case (restored by close_case)
        d, name = os.path.split(path)
        session['cwd0'] = os.getcwd()
        os.chdir(os.path.dirname(d))
        path = os.path.join(os.path.basename(d), name)
    elif case.get('path_as', 'str') != 'str' and not case.get('continue_builder'):
        import pathlib
        how = case['path_as']
        path = {'Path': pathlib.Path, 'PurePath': pathlib.PurePath, 'FsPath': FsPath, 'np.str_': np.str_}[how](path)
    session['target'] = path
    return path


def open_stream(case, session):
    """The BytesIO target of a case of a sequence on ONE stream (``case['stream']``): a stream that is not
    empty when create() runs.  ``object``: 'fresh' (new, empty), 'same' (the very object of the previous
    case: an earlier file is still in it), 'new' (a BytesIO created from bytes); ``fill``: None (what the
    stream holds: the older SQW file(s)) or other bytes ('random' / 'ones') of the same / a larger / a smaller
    size than the container written last; ``at``: the position create() finds: 'start' (rewound, seek(0)),
    'keep' (where the previous create() left it: behind the older file), 'inside', 'end'.
    What the stream held and where it stood is recorded: case['_prefill'], case['_base']."""
    st = case['stream']
    prev = session.get('stream')
    if st['object'] == 'fresh' or prev is None:
        t = io.BytesIO()
        session['stream'] = t
        session['target'] = t
        return t
    n0 = session.get('last_len') or 4096
    fill = st.get('fill')
    content = 'sqw'
    data = prev.getvalue()
    if fill:
        size = {'same': n0, 'longer': max(3 * n0 + 17, 1 << 16), 'shorter': max(n0 // 2, 1)}[st.get('size', 'same')]
        data = b'\xff' * size if fill == 'ones' else \
            np.random.Generator(np.random.PCG64([*case['vseed'], 78])).bytes(size)
        content = 'garbage'
    if st['object'] == 'new' and not case.get('continue_builder'):
        t = io.BytesIO(data)            # created from existing bytes; stands at 0
        keep = 0
    else:
        t = prev
        keep = session.get('last_end') or 0       # where the create() of the previous case left the stream
        if fill:
            t.seek(0)
            t.truncate(0)
            t.write(data)
    at = st.get('at', 'start')
    pos = {'start': 0, 'keep': keep, 'inside': max(len(data) // 3, 1), 'end': len(data)}[at]
    t.seek(pos)
    case['_prefill'], case['_base'] = data, pos
    case['existing_stream'] = {'size': len(data), 'content': content, 'position': pos,
                               'object': 'same' if t is prev else 'created_from_bytes',
                               'at': 'start' if pos == 0 else 'end' if pos >= len(data) else 'inside'}
    session['stream'] = t
    session['target'] = t
    return t


def base_of(case):
    """Position of the stream when create() was called (0 for files and fresh streams): where the file
    header is; the positions of the allocation table are offsets in the stream."""
    return int((case or {}).get('_base') or 0)


def container_length(f):
    """End of the container a decoded file describes (end of the last extent)."""
    if f is None or f.header_error or f.bat_error:
        return None
    return max([f.bat_end] + [d.position + d.size for d in f.descriptors])


def close_case(session, case, spec, target, f):
    """After a case was judged: how the file that was at the path compares with the container
    now written; what the next case of the sequence needs; removal of the file."""
    ex = case.get('existing')
    n = container_length(f)
    if ex is not None and n is not None:
        ex['relation'] = 'empty' if ex['size'] == 0 else 'longer' if ex['size'] > n else \
            'shorter' if ex['size'] < n else 'same_size'
    sx = case.get('existing_stream')
    if sx is not None and n is not None:
        pre = case['_prefill']
        sx['relation'] = 'at_end' if sx['position'] >= sx['size'] else 'longer' if sx['size'] > n else \
            'shorter' if sx['size'] < n else 'same_size'
        d = next((d for d in f.descriptors if d.block_type == 'dnd_data_block'), None)
        sx['image_over_nonzero_bytes'] = bool(d is not None and any(pre[d.position:d.position + d.size]))
    if isinstance(target, io.BytesIO) and case.get('stream') is not None:
        session['last_len'] = (n - base_of(case)) if n is not None else None
        session['last_end'] = n
    held = session.pop('held', None)
    if held is not None:
        held.close()
    if case.get('reuse_path'):
        session.update(case=case, spec=spec, last_bo=resolved(case['byteorder']))
    if not isinstance(target, io.BytesIO) and not case.get('keep_file'):
        try:
            os.remove(target)
        except OSError:
            pass
    cwd0 = session.pop('cwd0', None)
    if cwd0 is not None:
        os.chdir(cwd0)


def close_item(session):
    cwd0 = session.pop('cwd0', None)
    if cwd0 is not None:
        os.chdir(cwd0)
    for p in reversed(session.get('paths', [])):
        try:
            os.remove(p)
        except OSError:
            pass
    session.clear()


def case_reps(case):
    """The executions of a case: a case with repeat=k is built k times from the SAME model
    objects; the later builds go to the other kind of target."""
    yield case
    for r in range(1, case.get('repeat', 1)):
        other = 'file' if case['target'] == 'bytesio' else 'bytesio'
        yield dict(case, rep=r, target=other if r % 2 else case['target'])


def mutated(sc, case, spec, models):
    """(spec of this execution).  The second build of a case with forms['mutate'] uses the VERY SAME model
    objects after they were modified in place: values of the signal (whole array), a slice of a coordinate, the
    unit of a float64 coordinate (relabelled in place to another convertible unit), efix / en of the first run,
    the lattice of the sample.  The file must hold the new contents."""
    if not (case.get('rep') and forms_of(case).get('mutate')):
        return spec
    spec = copy.deepcopy(spec)
    prog = case.get('calls', case['program'])
    if 'pix' in prog:
        da, rows = models['pix'], spec['pix']['rows']
        r = rows['signal']
        r['values'] = (np.asarray(r['values']) * 2 + 1).astype(r['values'].dtype)
        da.data.values[...] = r['values']
        for name in ('u1', 'u2', 'u3', 'u4'):
            r = rows[name]
            n = len(r['values'])
            r['values'] = np.array(r['values'])
            r['values'][: n // 2 + 1] = r['values'][: n // 2 + 1][::-1] + r['values'].dtype.type(3)
            da.coords[name].values[: n // 2 + 1] = r['values'][: n // 2 + 1]
            if r['dtype'] == 'float64' and r['unit'] in CONVERTIBLE:
                opts = CONVERTIBLE[r['unit']]
                r['unit'] = opts[(opts.index(r['unit']) + 1) % len(opts)]
                da.coords[name].unit = r['unit']
        e, m = spec['experiments'][0], models['experiments'][0]
        e['efix']['values'] = (np.asarray(e['efix']['values']) + 1)
        e['efix']['values'] = e['efix']['values'].item() if e['efix']['values'].ndim == 0 else e['efix']['values']
        m.efix.values[...] = e['efix']['values']
        e['en']['values'] = np.asarray(e['en']['values']) * 2
        m.en.values[...] = e['en']['values']
        e['u'] = np.asarray(e['u'])[::-1].copy()
        m.u.values[...] = e['u']
    if 'samp' in prog:
        a = spec['sample']['alatt']
        a['values'] = np.asarray(a['values']) + 0.5
        models['samp'].lattice_spacing.values[...] = a['values']
    case['_mutated'] = True
    return spec


def describe_rows(case, spec):
    """Row selection of the case, for witnesses."""
    if 'pix' in case['program']:
        px = spec['pix']
        case['rows'] = list(px['row_names']) if px['pass_rows'] else 'default'
        case['row_units'] = [str(u) for u in px['row_units']] if px['pass_rows'] else 'default'
        case['row_dtypes'] = [px['rows'][k]['dtype'] for k in px['row_names']]


def expected_n_dims(case):
    """n_dims of the file header: the keyword of add_pixel_data (default 4), 0 without pixels."""
    if 'pix' not in case['program']:
        return 0
    return 4 if case.get('n_dims') is None else int(case['n_dims'])


# ---------------------------------------------------------------- case lists ---
def _base_case(**kw):
    c = {'program': list(CALLS), 'byteorder': 'little', 'npix': 5, 'chunk': None, 'nruns': 2,
         'mode': 'direct', 'string': {'field': 'title', 'alphabet': 'ascii', 'length': 8},
         'target': 'bytesio', 'values': 'forced', 'run_ids': 'seq', 'path': 'plain',
         # public keywords / dtypes / units of the supplied objects
         'rowset': 'default', 'dtypes': 'mixed', 'meta': 'random', 'n_dims': None, 'pass_title': True,
         'byteorder_as': 'str', 'dnd_bins': None, 'ndet': None, 'n_en': None, 'repeat': 1,
         # state of the output path / further use of the builder (sequences on one path)
         'path_as': 'str', 'unit_plan': None,
         # the form in which the arguments are handed over (see build_models / run_program)
         'forms': None, 'may_refuse': None}
    c.update(kw)
    if c['byteorder'] != 'native' and c['byteorder_as'] == 'omit':
        c['byteorder_as'] = 'str'
    return c


def rand_variant(rng):
    """Random choice of the keyword / dtype / unit classes of a case."""
    r = rng.random(5)
    k = rng.integers(0, 2**31, size=6)
    return {
        'rowset': 'default' if r[0] < 0.35 else ROWSETS[1 + int(k[0] % (len(ROWSETS) - 1))],
        'dtypes': 'mixed' if r[1] < 0.6 else DTYPE_PLANS[1 + int(k[1] % (len(DTYPE_PLANS) - 1))],
        'meta': META_CLASSES[int(k[2] % len(META_CLASSES))],
        'n_dims': None if r[2] < 0.6 else int(k[3] % 5),
        'pass_title': bool(r[3] < 0.85),
        'byteorder_as': ('str', 'str', 'enum', 'omit')[int(k[4] % 4)],
    }


def chunk_grid(n, big=False):
    cs = {1, 2, 3, 8, 9, 10, n - 1, n, n + 1, 8192}
    if big:
        cs.add(100000)
    return sorted(c for c in cs if c >= 1)


NON_NATIVE = 'big' if NATIVE == 'little' else 'little'
HEAVY = 1 << 22          # elements: arrays beyond this are the (one or two) heavy cases of a run
# element counts around which array sizes are placed (both sides): the constants of the writer
# (default chunk 8192) and powers of two up to the heavy limit
SIZE_POINTS = (1 << 10, 1 << 13, 1 << 16, 1 << 18, 1 << 20)


def shape_near(rng, count, side, ndim=4):
    """A shape with ``ndim`` axes whose volume is just below / equal to / just above ``count``;
    the long axis is put at a random position."""
    small = [int(2 ** rng.integers(0, 3)) for _ in range(ndim - 1)]
    m = int(np.prod(small))
    if side == 'below':
        d = max((count - 1) // m, 1)
    elif side == 'above':
        d = count // m + 1
    else:
        d = max(count // m, 1)
    shape = [*small, d]
    k = int(rng.integers(0, ndim))
    shape[k], shape[-1] = shape[-1], shape[k]
    return shape


def make_items(tier: str, seed: int) -> list[dict]:
    """Work items; an item is a list of cases judged together (a permutation group or a
    single case).  Deterministic in (tier, seed)."""
    rng = np.random.Generator(np.random.PCG64([seed, 12, 0]))
    thorough = tier == 'thorough'
    items = []
    orders = ('native', 'little', 'big')

    def single(pin=None, **kw):
        it = {'kind': 'single', 'cases': [_base_case(**kw)]}
        if pin is not None:
            it['pin'] = pin
        items.append(it)

    def shuffled(calls):
        calls = list(calls)
        return [calls[i] for i in rng.permutation(len(calls))]

    def with_pix():
        return shuffled([x for x in CALLS if x == 'pix' or rng.random() < 0.5])

    # (A) every ordered subset of the builder calls, grouped by call set
    k = 0
    for size in range(len(CALLS) + 1):
        for sub in itertools.combinations(CALLS, size):
            perms = [list(p) for p in itertools.permutations(sub)]
            bos = orders if thorough else (orders[(k + seed) % 3],)
            if not thorough and size == len(CALLS):
                bos = orders  # the full-length programs in all byte orders
            for bo in bos:
                base = {
                    'npix': int(rng.choice([0, 1, 5, 9, 10, 23])), 'nruns': int(rng.integers(1, 5)),
                    'mode': ('direct', 'indirect')[int(rng.integers(0, 2))],
                    'target': ('bytesio', 'file')[int(rng.integers(0, 2))],
                    'chunk': [None, 1, 4, 16][int(rng.integers(0, 4))],
                    'string': {'field': STRING_FIELDS[int(rng.integers(0, len(STRING_FIELDS)))],
                               'alphabet': 'ascii', 'length': int(rng.integers(0, 40))},
                    **rand_variant(rng),
                }
                items.append({'kind': 'perm_group', 'cases': [
                    _base_case(program=p, byteorder=bo, **base) for p in perms]})
            k += 1
    # (B) pixel count x chunk size grid
    counts = [0, 1, 8, 9, 10, 20, 100, 8191, 8192, 8193] + ([10000, 100000] if thorough else [10000])
    for n in counts:
        for c in chunk_grid(n, big=thorough):
            if not thorough and n >= 8191 and c in (2, 3, 10):
                continue  # kept for the thorough tier
            prog = with_pix()
            bos = orders if thorough else (orders[int(rng.integers(0, 3))],)
            for bo in bos:
                var = rand_variant(rng)
                if n >= 8191:
                    var['meta'] = 'random'
                single(program=prog, byteorder=bo, npix=n, chunk=c, nruns=int(rng.integers(1, 4)),
                       target='file' if rng.random() < 0.3 else 'bytesio',
                       values='wide' if rng.random() < 0.5 else 'forced', **var)
    for n in (7, 10000) if not thorough else (7, 50, 10000, 20000):
        single(npix=n, chunk=None, program=['pix'])
    # (C) 1..20 runs, direct / indirect / mixed
    for runs in range(1, 21):
        modes = ('direct', 'indirect', 'mixed') if thorough else (('direct', 'indirect', 'mixed')[runs % 3],
                                                                 'indirect' if runs in (1, 20) else 'direct')
        for mode in dict.fromkeys(modes):
            single(nruns=runs, mode=mode, byteorder=orders[int(rng.integers(0, 3))],
                   program=shuffled(CALLS), run_ids='seq' if rng.random() < 0.7 else 'random',
                   ndet=1 if (mode == 'indirect' and runs == 7) else None,
                   target='file' if rng.random() < 0.3 else 'bytesio', **rand_variant(rng))
    # (D) strings: length 0..5000, 1..4 byte characters, every string-bearing field
    lengths = [0, 1, 2, 13, 255, 256, 1000, 5000] if not thorough else \
        [0, 1, 2, 3, 7, 13, 64, 255, 256, 257, 1000, 4095, 4096, 5000]
    for alphabet in ('ascii', 'latin', 'cjk', 'astral', 'mixed'):
        for ln in lengths:
            fields = STRING_FIELDS if (thorough or ln in (13, 5000)) else \
                (STRING_FIELDS[int(rng.integers(0, len(STRING_FIELDS)))],)
            for fld in fields:
                if alphabet != 'ascii' and ln == 0:
                    continue
                single(string={'field': fld, 'alphabet': alphabet, 'length': ln},
                       byteorder=orders[int(rng.integers(0, 3))], program=shuffled(CALLS),
                       target='bytesio')
    # (D') text that is not in Unicode normal form (NFC / NFKC) in EVERY string field of every model, short,
    #      long and one entry long, both targets: stored and read back code point by code point
    k = 0
    for alphabet in UNNORMALISED:
        for fld in STRING_FIELDS:
            single(string={'field': fld, 'alphabet': alphabet, 'length': 13}, byteorder=orders[(k + seed) % 3],
                   program=shuffled(CALLS), target=('bytesio', 'file')[(k // 3 + seed) % 2],
                   mode=('direct', 'indirect')[k % 2], pin=0 if fld in ('title', 'sample_name') else None)
            k += 1
        for ln in (1, 1000) if not thorough else (1, 2, 255, 1000, 5000):
            fld = STRING_FIELDS[(k + seed) % len(STRING_FIELDS)]
            single(string={'field': fld, 'alphabet': alphabet, 'length': ln}, byteorder=orders[(k + seed) % 3],
                   program=shuffled(CALLS), target='bytesio')
            k += 1
    # (E) real files: plain / deep / long / non-ASCII path; file and directory names that are not in Unicode
    #     normal form; a path through `<symbolic link to a directory>/..` (the operating system resolves the link
    #     first: the file lies next to the link's target, not next to the link)
    for pathkind in ('plain', 'deep', 'long', 'nonascii', 'nonascii_dir', 'non_nfc', 'non_nfkc', 'non_nfc_dir',
                     'dotdot_symlink'):
        for bo in orders:
            single(target='file', path=pathkind, byteorder=bo, program=shuffled(CALLS),
                   npix=int(rng.choice([0, 3, 50])))
    # (F) random mixtures
    for _ in range(60 if not thorough else 4000):
        prog = shuffled([x for x in CALLS if rng.random() < 0.7])
        n = int(rng.choice([0, 1, 2, 5, 9, 10, 11, 17, 64, 300, 1000]))
        single(
            program=prog, byteorder=orders[int(rng.integers(0, 3))], npix=n,
            chunk=[None, 1, 2, 3, 8, 9, 10, max(n - 1, 1), max(n, 1), n + 1, 8192][int(rng.integers(0, 11))],
            nruns=int(rng.integers(1, 21)) if rng.random() < 0.3 else int(rng.integers(1, 4)),
            mode=('direct', 'indirect', 'mixed')[int(rng.integers(0, 3))],
            string={'field': STRING_FIELDS[int(rng.integers(0, len(STRING_FIELDS)))],
                    'alphabet': ('ascii', 'ascii', 'latin', 'cjk', 'astral', 'mixed')[int(rng.integers(0, 6))],
                    'length': int(rng.choice([0, 1, 5, 30, 300]))},
            target='file' if rng.random() < 0.3 else 'bytesio',
            path=('plain', 'nonascii')[int(rng.integers(0, 2))],
            values=('forced', 'wide', 'plain', 'extreme')[int(rng.integers(0, 4))],
            run_ids='seq' if rng.random() < 0.7 else 'random', **rand_variant(rng))
    # (G) public keywords and dtypes: every row-set class x every dtype plan (incl. all rows of one
    #     dtype), every n_dims, title / byteorder keyword forms, both targets, all byte orders
    i = 0
    for _rep in range(1 if not thorough else 6):
        for rowset in ROWSETS:
            for plan in DTYPE_PLANS:
                n = (5, 1, 23, 300, 0, 9)[i % 6]
                single(program=with_pix(), rowset=rowset, dtypes=plan, byteorder=orders[(i + seed) % 3],
                       target=('bytesio', 'file')[(i // 3) % 2], npix=n,
                       chunk=(None, 1, 4, 9, 16, 8192, n + 1)[int(rng.integers(0, 7))],
                       n_dims=(None, 0, 1, 2, 3, 4)[(i // 2) % 6],
                       meta=META_CLASSES[int(rng.integers(0, len(META_CLASSES)))],
                       pass_title=bool(i % 5), byteorder_as=('str', 'enum', 'omit')[i % 3],
                       nruns=int(rng.integers(1, 4)), mode=('direct', 'indirect', 'mixed')[i % 3],
                       values=('forced', 'wide', 'plain')[int(rng.integers(0, 3))])
                i += 1
    # (H) units / dtypes of the metadata objects: every class x byte order x target; the canonical
    #     class (objects already in the unit and dtype that is written) also built twice from the
    #     same objects
    for meta in META_CLASSES:
        for bo in orders:
            for tgt in ('bytesio', 'file'):
                single(program=shuffled(CALLS), meta=meta, byteorder=bo, target=tgt,
                       mode=('direct', 'indirect', 'mixed')[int(rng.integers(0, 3))],
                       nruns=int(rng.integers(1, 4)), repeat=2 if meta in ('canonical', 'mixed') else 1,
                       byteorder_as=('str', 'enum')[int(rng.integers(0, 2))])
    for tgt in ('bytesio', 'file'):
        for mode in ('direct', 'indirect'):
            single(pin=0, program=shuffled(CALLS), meta='canonical', byteorder=NON_NATIVE, target=tgt,
                   mode=mode, repeat=2, dtypes='all_f64')
    # (I) array sizes on both sides of the writer's constants and of powers of two, both targets:
    #     histogram (n-d arrays written by the builder), energy grids (n-d arrays of data blocks,
    #     always serialised in memory first), pixel chunks
    j = 0
    for count in SIZE_POINTS:
        sides = ('below', 'equal', 'above') if count <= (1 << 16) else ('below', 'above')
        for side in sides:
            for tgt in (('bytesio', 'file') if count <= (1 << 18) or thorough
                        else (('bytesio', 'file')[(j + seed) % 2],)):
                single(program=shuffled(['dnd'] + [x for x in CALLS if x != 'dnd' and rng.random() < 0.4]),
                       dnd_bins=shape_near(rng, count, side), target=tgt, byteorder=orders[(j + seed) % 3],
                       npix=3)
                j += 1
    for _ in range(4 if not thorough else 12):
        count = int(2 ** rng.uniform(10, 21))
        single(program=shuffled(['dnd', 'pix']), dnd_bins=shape_near(rng, count, 'equal'),
               target=('bytesio', 'file')[j % 2], byteorder=orders[(j + seed) % 3], npix=3)
        j += 1
    for count in (1 << 13, 1 << 16, 1 << 20):
        for side in ('below', 'above'):
            ndet, n_en = shape_near(rng, count, side, ndim=2)
            single(program=with_pix(), mode='indirect', ndet=ndet, n_en=n_en, nruns=1 if count > 1 << 16 else 2,
                   target=('bytesio', 'file')[j % 2], byteorder=orders[(j + seed) % 3],
                   meta=('random', 'canonical', 'f32')[j % 3])
            j += 1
    for n_en in (8193, 100000):
        single(program=with_pix(), mode='direct', n_en=n_en, nruns=2, target=('bytesio', 'file')[j % 2],
               byteorder=orders[(j + seed) % 3], meta=('canonical', 'random')[j % 2])
        j += 1
    for n, c in ((100000, 100000), (100000, None), (65537, 65536)) if not thorough else \
            ((100000, None), (65537, 65536), (70000, 1000)):
        single(program=with_pix(), npix=n, chunk=c, target=('bytesio', 'file')[j % 2],
               byteorder=orders[(j + seed) % 3], values='wide', nruns=2,
               rowset=('default', 'superset', 'subset')[j % 3])
        j += 1
    # (I') sizes that coincide with lengths the format / the implementation uses itself (2 = 'range', 3 = vectors,
    #      4 = axes, 9 = pixel rows, 8 / 10 next to it): pixel count, runs, energy grid, detectors and histogram
    #      axes of exactly that length, in both modes
    for n in (2, 3, 4, 8, 9, 10):
        for mode in ('direct', 'indirect'):
            single(program=shuffled(CALLS), npix=n, nruns=n, n_en=n, ndet=n if mode == 'indirect' else None,
                   mode=mode, dnd_bins=[n, 1 + n % 3, n, 2], chunk=(None, n)[j % 2], sizes_coincide=n,
                   target=('bytesio', 'file')[j % 2], byteorder=orders[(j + seed) % 3])
            j += 1
    # (J) the heavy cases of the run (~100 MB / ~35 MB files): arrays beyond 2^22 elements
    heavy_bins = shape_near(rng, HEAVY + (HEAVY >> 5), 'above')
    single(pin=N_SHARDS - 1, program=shuffled(['dnd', 'pix']), dnd_bins=heavy_bins, target='bytesio',
           byteorder=orders[seed % 3], npix=11)
    ndet, n_en = HEAVY // 64 + 500 + int(rng.integers(0, 500)), 64
    single(pin=N_SHARDS - 2, program=shuffled(['pix', 'inst']), mode='indirect', ndet=ndet, n_en=n_en,
           nruns=1, target=('file', 'bytesio')[seed % 2], byteorder=orders[(seed + 1) % 3], npix=11)
    if thorough:
        single(pin=N_SHARDS - 4, program=shuffled(['dnd', 'pix', 'samp']),
               dnd_bins=shape_near(rng, HEAVY + (HEAVY >> 4), 'above'), target='file',
               byteorder=orders[(seed + 2) % 3], npix=11)
    # (K) files that ALREADY EXIST at the output path when create() runs: sequences of builds on one
    #     path (the file of the previous step stays): an older SQW file that is shorter / longer / of
    #     the same size / of the other byte order, the same builder created again after further calls
    #     (fewer pixels, no change, more blocks), other bytes of the same / a larger / a smaller size,
    #     an empty file, the path reached through a symbolic link; path given as str or os.PathLike
    def sequence(steps, **common):
        cases = []
        for st in steps:
            kw = {**rand_variant(rng), **common, **st}
            if kw.get('continue_builder'):
                kw.setdefault('byteorder', cases[-1]['byteorder'])
            cases.append(_base_case(target='file', reuse_path=True, keep_file=True, **kw))
        items.append({'kind': 'same_path', 'cases': cases})

    def title(n):
        return {'field': 'title', 'alphabet': 'ascii', 'length': n}

    for k, bo in enumerate(orders):
        other = 'big' if resolved(bo) == 'little' else 'little'
        sequence([
            dict(program=shuffled(CALLS), npix=300, nruns=3, byteorder=bo, string=title(40)),
            dict(program=shuffled(CALLS), npix=2000, nruns=3, byteorder=bo, chunk=64),   # over a shorter file
            dict(program=with_pix(), npix=30, nruns=1, byteorder=bo, chunk=3, string=title(0)),   # over a longer one
            dict(continue_builder=True, program=['pix'], npix=7, nruns=1, chunk=2),     # same builder, fewer pixels
            dict(continue_builder=True, program=[]),                                    # ... unchanged: same size
            dict(continue_builder=True, program=shuffled(CALLS), npix=40, nruns=2),     # ... more blocks
            dict(program=[], byteorder=other, pass_title=True),   # header and table only, other byte order
            dict(program=[], byteorder=other, pass_title=True, scribble='same',
                 scribble_fill=('random', 'ones', 'zeros')[k]),
            dict(program=with_pix(), byteorder=other, npix=5, scribble='longer'),
            dict(program=shuffled(CALLS), byteorder=bo, npix=50, scribble='empty'),
            dict(program=['pix'], byteorder=other, npix=3, nruns=1, link='symlink'),    # through a symlink
            dict(program=shuffled(CALLS), byteorder=bo, npix=5, scribble='shorter'),
            dict(program=with_pix(), byteorder=bo, npix=40, nruns=2, link='hardlink'),  # one of two hard-linked names
            dict(program=shuffled(CALLS), byteorder=other, npix=11, hold_open=True),    # while a reader holds it open
        ], path=('plain', 'nonascii', 'deep')[(k + seed) % 3], path_as=('str', 'Path')[(k + seed) % 2],
            rowset='default')
    # (K') other file-system forms of a path target: a dangling symbolic link (the file is created where the link
    #      points), a relative name (working directory = two levels above the file from Sqw.build to the last read)
    for k, bo in enumerate(orders):
        single(program=shuffled(CALLS), byteorder=bo, target='file', link='symlink', keep_file=True,
               path=('plain', 'nonascii', 'non_nfc')[(k + seed) % 3], npix=7)
        single(program=shuffled(CALLS), byteorder=bo, target='file', path_as='relative',
               path=('deep', 'plain', 'non_nfc_dir')[(k + seed) % 3], npix=7)
    # (K'') streams that are NOT EMPTY when create() runs: sequences of builds on one BytesIO -- rewound after an
    #      earlier (shorter / longer / equally long) file, the same builder created again at the start and behind the
    #      file just written, a BytesIO created from the bytes of older files or from other bytes of the same / a
    #      larger / a smaller size, standing at the start, inside and at the end.  The file begins where the stream
    #      stood; every extent the table declares must hold what it declares (the zero histogram too), whatever the
    #      stream held there; what lies in front of the position is untouched
    def stream_sequence(steps, **common):
        cases = []
        for st in steps:
            kw = {**rand_variant(rng), **common, **st}
            if kw.get('continue_builder'):
                kw.setdefault('byteorder', cases[-1]['byteorder'])
            cases.append(_base_case(target='bytesio', reuse_path=True, **kw))
        items.append({'kind': 'same_stream', 'cases': cases})

    for k in range(2):
        bo = orders[(k + seed) % 3]
        other = 'big' if resolved(bo) == 'little' else 'little'
        img = ([4, 3, 2, 5], [6, 5, 4, 3], [2, 9, 1, 7])
        stream_sequence([
            dict(program=shuffled(CALLS), npix=300, nruns=3, byteorder=bo, stream={'object': 'fresh'}),
            dict(continue_builder=True, program=[], stream={'object': 'same', 'at': 'start'}),   # same size
            dict(continue_builder=True, program=[], stream={'object': 'same', 'at': 'keep'}),    # behind the first
            dict(program=shuffled(CALLS), npix=2000, nruns=2, chunk=64, byteorder=bo, dnd_bins=img[0],
                 stream={'object': 'same', 'at': 'start'}),                         # rewound: older file shorter
            dict(program=shuffled(['dnd', 'pix']), npix=30, nruns=1, byteorder=(bo, other)[k], dnd_bins=img[1],
                 stream={'object': 'same', 'at': 'start'}),                         # rewound: older file longer
            dict(continue_builder=True, program=[], stream={'object': 'same', 'at': 'start'}),   # again, tail behind
            dict(continue_builder=True, program=[], stream={'object': 'same', 'at': 'keep'}),    # inside the stream
            dict(program=shuffled(CALLS), npix=5, byteorder=other, dnd_bins=img[2],
                 stream={'object': 'new', 'at': 'start'}),                          # BytesIO(bytes of older files)
            dict(continue_builder=True, program=[],
                 stream={'object': 'same', 'fill': 'random', 'size': 'same', 'at': 'start'}),
            dict(program=shuffled(CALLS), npix=50, byteorder=bo, dnd_bins=img[1],
                 stream={'object': 'new', 'fill': 'random', 'size': 'longer', 'at': 'start'}),
            dict(program=shuffled(CALLS), npix=50, byteorder=other, dnd_bins=img[0],
                 stream={'object': 'new', 'fill': ('ones', 'random')[k], 'size': 'shorter', 'at': 'start'}),
            dict(program=shuffled(['dnd', 'pix', 'samp']), npix=9, byteorder=bo, dnd_bins=img[2],
                 stream={'object': 'new', 'fill': 'random', 'size': 'longer', 'at': 'inside'}),
            dict(program=shuffled(CALLS), npix=9, byteorder=other,
                 stream={'object': 'same', 'fill': ('random', 'ones')[k], 'size': 'shorter', 'at': 'end'}),
            dict(continue_builder=True, program=[], stream={'object': 'same', 'at': 'keep'}),    # sqw, at the end
        ], rowset='default')
    for _ in range(0 if not thorough else 40):
        steps = []
        for m in range(int(rng.integers(2, 9))):
            st = dict(program=shuffled([x for x in CALLS if rng.random() < 0.6]),
                      npix=int(rng.choice([0, 1, 5, 50, 500, 3000])), nruns=int(rng.integers(1, 4)),
                      chunk=[None, 1, 7, 64][int(rng.integers(0, 4))], byteorder=orders[int(rng.integers(0, 3))],
                      string=title(int(rng.choice([0, 5, 300]))))
            r = rng.random()
            if m and r < 0.3:
                st['continue_builder'] = True
                del st['byteorder']
            elif r < 0.6:
                st['scribble'] = ('same', 'longer', 'shorter', 'empty')[int(rng.integers(0, 4))]
                st['scribble_fill'] = ('random', 'ones', 'zeros')[int(rng.integers(0, 3))]
            elif m and r < 0.7:
                st['link'] = 'symlink'
            steps.append(st)
        sequence(steps, path=('plain', 'nonascii', 'deep', 'long')[int(rng.integers(0, 4))],
                 path_as=('str', 'Path')[int(rng.integers(0, 2))])
    # (L) pixel values over the whole finite float64 range, i.e. beyond both ends of the float32 range
    #     they are stored in: rows without conversion, rows whose conversion multiplies ('up') or
    #     divides ('down') the value, default and non-default declared units, variances, extra rows
    combos = (('default', 'up', 'all_f64'), ('custom_units', 'up', 'all_f64'), ('default', 'down', 'all_f64'),
              ('superset', None, 'mixed'))
    for k in range(12 if not thorough else 120):
        rowset, uplan, plan_ = combos[k % 4]
        single(program=with_pix(), values='extreme', rowset=rowset, unit_plan=uplan, dtypes=plan_,
               byteorder=orders[(k + seed) % 3], target=('bytesio', 'file')[(k // 4 + k) % 2],
               npix=(96, 200, 150)[k % 3] if k < 12 else int(rng.integers(1, 400)),
               chunk=(None, 7, 96, 1000)[(k // 3) % 4], nruns=int(rng.integers(1, 4)))
    # (M) the byteorder keyword of the builder in every public form x both targets
    for k, (how, bo) in enumerate([('str', 'little'), ('str', 'big'), ('str', 'native'), ('enum', 'little'),
                                   ('enum', 'big'), ('enum', 'native'), ('omit', 'native')]):
        for tgt in ('bytesio', 'file'):
            single(program=shuffled(CALLS), byteorder=bo, byteorder_as=how, target=tgt,
                   npix=int(rng.choice([0, 3, 50])))
    # (N) the FORM of the arguments: the same supplied values handed over in every form the public
    #     signatures allow.  Every class below is part of every run.
    def formed(forms, k, **kw):
        base = dict(program=with_pix() if kw.pop('any_program', False) else shuffled(CALLS),
                    byteorder=orders[(k + seed) % 3], target=('bytesio', 'file')[(k + seed) % 2],
                    npix=(50, 300, 23, 1000)[k % 4], chunk=(16, 64, 7, 4096, None)[k % 5],
                    nruns=1 + k % 3, mode=('direct', 'indirect', 'mixed')[k % 3],
                    values=('forced', 'wide', 'extreme')[k % 3],
                    forms={kk: v for kk, v in forms.items() if v is not None})
        base.update(kw)
        single(**base)

    k = 0
    # -- masks on the pixel data (per-pixel; the pixel table has no bins / events): every pixel is
    #    written and pix_metadata.data_range covers every pixel in the file
    for mk in MASK_CLASSES:
        for rowset, plan_ in (('default', 'all_f64'), ('superset', 'mixed'), ('custom_units', 'all_f64'),
                              ('reordered', 'mixed')):
            formed({'masks': mk}, k, rowset=rowset, dtypes=plan_, npix=(50, 300, 1, 9000)[k % 4],
                   chunk=(16, None, 1, 1000)[k % 4])
            k += 1
    formed({'masks': 'extremes', 'coord_variances': True, 'pix_view': True}, k, npix=200, chunk=33)
    k += 1
    formed({'masks': 'extremes'}, k, npix=0, chunk=8)
    k += 1
    # -- integer keywords as numpy integer scalars, results of numpy arithmetic, IntEnum, int subclass
    for form in INT_FORMS:
        for n, c in ((300, 16), (50, 4096), (1000, 1000)):
            formed({'chunk_as': form, 'run_id_as': form if form != 'np.uint32' or k % 2 else None}, k, npix=n,
                   chunk=c, run_ids=('seq', 'random')[k % 2])
            k += 1
    for form in ('IntEnum', 'int_subclass'):
        formed({'n_dims_as': form, 'chunk_as': form, 'run_id_as': form}, k, n_dims=(4, 2, 0)[k % 3], chunk=8)
        k += 1
    for form in ('np.int64', 'np.int32'):
        # an n_dims that is no Python int may be refused (it is written with int.to_bytes)
        formed({'n_dims_as': form}, k, n_dims=(4, 3)[k % 2], may_refuse='n_dims_as=' + form)
        k += 1
    # -- strings as np.str_, member of a (str, Enum), str subclass (title, every string of the models,
    #    the byteorder keyword, the path); np.bool_ where bool is documented (may be refused)
    for j, form in enumerate(STR_FORMS):
        formed({'str_as': form}, k, string={'field': STRING_FIELDS[(j * 4 + seed) % len(STRING_FIELDS)],
                                             'alphabet': ('ascii', 'mixed', 'cjk')[j], 'length': (13, 40, 255)[j]},
               byteorder_as=('np_str', 'str_enum', 'str_subclass')[j], byteorder=('little', 'big', 'native')[j])
        k += 1
        formed({'str_as': form}, k, string={'field': 'title', 'alphabet': 'latin', 'length': 0 if j == 0 else 7},
               byteorder_as=('np_str', 'str_enum', 'str_subclass')[(j + 1) % 3],
               byteorder=('big', 'native', 'little')[j])
        k += 1
    formed({}, k, target='file', path_as='np.str_')
    k += 1
    formed({'bool_as': 'np.bool_'}, k, program=shuffled(['dnd', 'pix']), may_refuse='bool_as=np.bool_')
    k += 1
    # -- variances on coordinates and on the metadata quantities (values must still be right); pixel data
    #    without variances (rows without 'error'); pixel data that is a strided view; the pixel
    #    dimension named like dimensions the implementation uses itself
    for j in range(3):
        formed({'coord_variances': True}, k, rowset=('default', 'superset', 'custom_units')[j],
               dtypes=('all_f64', 'mixed', 'all_f32')[j], unit_plan=(None, None, 'up')[j])
        k += 1
        formed({'meta_variances': True}, k, meta=('random', 'canonical', 'f32')[j],
               repeat=2 if j == 1 else 1)
        k += 1
    formed({'no_variances': True}, k, rowset='no_error')
    k += 1
    formed({'no_variances': True, 'pix_view': True}, k, rowset='no_error', npix=0)
    k += 1
    formed({'pix_view': True}, k, dtypes='mixed', rowset='superset')
    k += 1
    formed({'pix_view': True}, k, dtypes='all_f64', rowset='default', npix=9000, chunk=1000)
    k += 1
    for dname in PIX_DIMS:
        formed({'pix_dim': dname}, k, mode=('direct', 'indirect')[k % 2])
        k += 1
    # -- calling conventions: every argument by keyword; the returned builder ignored; collections as
    #    tuple / list where list / tuple is documented; one-shot iterators (may be refused)
    formed({'call_style': 'keyword'}, k)
    k += 1
    formed({'call_style': 'keyword'}, k, rowset='reordered', n_dims=3)
    k += 1
    formed({'call_style': 'unchained'}, k)
    k += 1
    formed({'call_style': 'unchained', 'experiments_as': 'tuple', 'rows_as': 'list', 'lists_as': 'tuple'}, k,
           rowset='explicit')
    k += 1
    formed({'experiments_as': 'tuple', 'lists_as': 'tuple'}, k, rowset='subset')
    k += 1
    formed({'rows_as': 'iterator'}, k, rowset='reordered', may_refuse='rows_as=iterator')
    k += 1
    formed({'experiments_as': 'iterator'}, k, may_refuse='experiments_as=iterator')
    k += 1
    # -- stand-ins for the documented argument classes: a BytesIO subclass that overrides write, a
    #    duck-typed os.PathLike, a PurePath, subclasses of the model classes that override the
    #    serialisation hook
    formed({'target_class': 'bytesio_subclass'}, k, target='bytesio')
    k += 1
    formed({'target_class': 'bytesio_subclass'}, k, target='bytesio', npix=9000, chunk=100)
    k += 1
    formed({}, k, target='file', path_as='FsPath', path=('plain', 'nonascii')[seed % 2])
    k += 1
    formed({}, k, target='file', path_as='PurePath')
    k += 1
    formed({'model_subclass': True}, k, mode='mixed', nruns=3)
    k += 1
    formed({'model_subclass': True}, k, meta='canonical', byteorder=NON_NATIVE, repeat=2)
    k += 1
    # -- second use: display / copy / deepcopy between the calls; a refused call followed by the call
    #    done right; a create() that fails half-way followed by a second create(); the reader's results
    #    fed into a second build
    formed({'observe': True}, k)
    k += 1
    formed({'observe': True}, k, meta='canonical', byteorder=NON_NATIVE)
    k += 1
    formed({'retry': 'bin_edges'}, k)
    k += 1
    formed({'retry': 'bin_edges'}, k, npix=0)
    k += 1
    for j in range(2):
        formed({'retry': 'stream_error'}, k, target='bytesio', npix=(300, 9000)[j], chunk=(16, 1000)[j])
        k += 1
        formed({'retry': 'missing_dir'}, k, target='file', path=('plain', 'nonascii')[j])
        k += 1
    for j in range(3):
        formed({'feedback': True}, k, program=shuffled(['pix', 'inst'] + (['dnd', 'det'] if j else [])),
               mode='direct', meta=('random', 'canonical', 'f32')[j], target=('bytesio', 'file', 'bytesio')[j],
               byteorder=orders[(j + seed) % 3], nruns=(1, 3, 20)[j])
        k += 1
    # -- the reader and the file system: the name of the file changes its meaning between Sqw.open and
    #    read_data_block (judged by C13: the numbers must come from the file that was opened)
    for j, how in enumerate(READER_FS):
        formed({'reader_fs': how}, k, target='file', path=('plain', 'nonascii', 'deep')[(j + seed) % 3],
               byteorder=orders[(j + seed) % 3], mode=('direct', 'indirect')[j % 2], npix=(37, 300)[j % 2])
        k += 1
    # -- the very same model objects modified IN PLACE between two builds (values, a slice, a unit): the second
    #    file holds the new contents; results of the reader written into in place: the file and a second read
    #    are not affected
    for j in range(3):
        formed({'mutate': True}, k, repeat=2, values='forced', meta=('random', 'canonical', 'mixed')[j],
               dtypes=('all_f64', 'mixed', 'all_f64')[j], rowset=('default', 'superset', 'custom_units')[j],
               target=('bytesio', 'file', 'bytesio')[j], mode=('direct', 'indirect', 'mixed')[j], nruns=1 + j)
        k += 1
    for j in range(3):
        formed({'alias': True}, k, target=('bytesio', 'file', 'bytesio')[j], byteorder=orders[(j + seed) % 3],
               mode='direct', npix=(50, 300, 9000)[j], chunk=(16, None, 1000)[j])
        k += 1
    # -- everything at once
    formed({'masks': 'several', 'coord_variances': True, 'meta_variances': True, 'pix_dim': 'row',
            'chunk_as': 'np.int64', 'run_id_as': 'np.int32', 'str_as': 'np.str_', 'call_style': 'keyword',
            'experiments_as': 'tuple', 'lists_as': 'tuple', 'model_subclass': True, 'observe': True,
            'target_class': 'bytesio_subclass'}, k, target='bytesio', npix=300, chunk=64,
           string={'field': 'title', 'alphabet': 'mixed', 'length': 30})
    k += 1
    for _ in range(0 if not thorough else 150):
        r = rng.random(12)
        forms = {}
        if r[0] < 0.4:
            forms['masks'] = MASK_CLASSES[int(rng.integers(0, 3))]
        if r[1] < 0.4:
            forms['chunk_as'] = INT_FORMS[int(rng.integers(0, len(INT_FORMS)))]
        if r[2] < 0.3:
            forms['run_id_as'] = INT_FORMS[int(rng.integers(0, len(INT_FORMS)))]
        if r[3] < 0.3:
            forms['str_as'] = STR_FORMS[int(rng.integers(0, 3))]
        if r[4] < 0.3:
            forms['coord_variances'] = True
        if r[5] < 0.3:
            forms['meta_variances'] = True
        if r[6] < 0.3:
            forms['pix_dim'] = PIX_DIMS[int(rng.integers(0, len(PIX_DIMS)))]
        if r[7] < 0.3:
            forms['pix_view'] = True
        if r[8] < 0.3:
            forms['call_style'] = ('keyword', 'unchained')[int(rng.integers(0, 2))]
        if r[9] < 0.2:
            forms['model_subclass'] = True
        if r[10] < 0.2:
            forms['observe'] = True
        if r[11] < 0.2:
            forms['lists_as'] = 'tuple'
        n = int(rng.choice([0, 1, 9, 50, 300, 3000]))
        formed(forms, k, any_program=True, npix=n, chunk=int(rng.choice([1, 7, 64, 8192, max(n, 1)])),
               **{kk: v for kk, v in rand_variant(rng).items() if kk != 'byteorder_as'})
        k += 1
    # -- one large pixel table of the run (2^20 + 7 pixels, three chunks of 400001): its own shard
    single(pin=N_SHARDS - 3, program=shuffled(['pix', 'samp']), npix=(1 << 20) + 7, chunk=400001,
           forms={'chunk_as': 'np.int64', 'masks': 'extremes'}, target=('file', 'bytesio')[seed % 2],
           byteorder=orders[(seed + 2) % 3], values='wide', nruns=2, dtypes='all_f64')
    for i, it in enumerate(items):
        it['item'] = i
        for j, c in enumerate(it['cases']):
            c['vseed'] = [seed, 12, i, j if it['kind'] != 'perm_group' else 0]
            c['tier'] = tier
    return items


N_SHARDS = 16
FRESH_SHARD = 5          # the shard that also runs the fresh-interpreter check


def plan(tier, seed):
    return [{'part': i, 'of': N_SHARDS} for i in range(N_SHARDS)]


def items_of_shard(shard):
    items = make_items(shard.get('tier', 'quick'), int(shard.get('seed', 0)))
    # cost-balanced assignment: heavy items (many pixels x small chunks, large arrays, large
    # groups) first; pinned items go to their shard
    def cost(it):
        c = 0.0
        for cs in it['cases']:
            ch = cs['chunk'] or 8192
            c += 1.0 + cs['npix'] / 2000.0 + 10.0 * math.ceil(cs['npix'] / ch) / 1000.0
            if cs.get('dnd_bins') and 'dnd' in cs['program']:
                c += float(np.prod(cs['dnd_bins'])) / 5e4
            if cs.get('ndet') and cs.get('n_en') and 'pix' in cs['program']:
                c += cs['ndet'] * cs['n_en'] * cs['nruns'] / 2e4
            c *= cs.get('repeat', 1)
        return c
    free = [i for i in range(len(items)) if 'pin' not in items[i]]
    order = sorted(free, key=lambda i: (-cost(items[i]), i))
    mine = [items[i] for k, i in enumerate(order) if k % shard['of'] == shard['part']]
    mine += [it for it in items if it.get('pin') is not None and it['pin'] % shard['of'] == shard['part']]
    return sorted(mine, key=lambda it: it['item'])


def target_for(case, tmpdir, rng):
    """BytesIO or a fresh path under the shard's temp directory."""
    if case['target'] == 'bytesio':
        return io.BytesIO()
    kind = case.get('path', 'plain')
    tag = '-'.join(str(x) for x in case['vseed']) + (f"r{case['rep']}" if case.get('rep') else '')
    if kind == 'plain':
        d, name = tmpdir, f'f{tag}.sqw'
    elif kind == 'deep':
        d = os.path.join(tmpdir, *[f'd{tag}_{i}' for i in range(12)])
        name = 'file.sqw'
    elif kind == 'long':
        d = os.path.join(tmpdir, *[gen_string(rng, 200, 'ascii', True).replace(' ', '_').replace('.', '_')
                                   + str(i) for i in range(3)])
        name = gen_string(rng, 180, 'ascii', True).replace(' ', '_').replace('.', '_') + tag + '.sqw'
    elif kind == 'nonascii':
        d, name = tmpdir, gen_string(rng, 20, 'mixed', True).replace(' ', '_') + tag + '.sqw'
    elif kind in UNNORMALISED:
        d, name = tmpdir, gen_string(rng, 12, kind, True) + tag + '.sqw'
    elif kind == 'non_nfc_dir':
        d, name = os.path.join(tmpdir, gen_string(rng, 8, 'non_nfc', True) + tag), 'f.sqw'
    elif kind == 'dotdot_symlink':
        # <tmp>/l<tag> -> <tmp>/x<tag>/sub ; the name <tmp>/l<tag>/../f.sqw denotes <tmp>/x<tag>/f.sqw
        # (a lexical normalisation of the name would give <tmp>/f.sqw)
        real = os.path.join(tmpdir, 'x' + tag, 'sub')
        os.makedirs(real, exist_ok=True)
        link = os.path.join(tmpdir, 'l' + tag)
        if not os.path.lexists(link):
            os.symlink(real, link)
        case['_not_here'] = os.path.join(tmpdir, 'f' + tag + '.sqw')
        return os.path.join(link, os.pardir, 'f' + tag + '.sqw')
    else:
        d = os.path.join(tmpdir, gen_string(rng, 12, 'cjk', True) + tag)
        name = 'f.sqw'
    os.makedirs(d, exist_ok=True)
    return os.path.join(d, name)


def read_target(target) -> bytes:
    if isinstance(target, io.BytesIO):
        return target.getvalue()
    with open(target, 'rb') as f:
        return f.read()


def expected_names(program) -> set:
    names = {('', 'main_header')}
    for c in program:
        names.update(BLOCKS_OF_CALL[c])
    return names


def rows_of(case, spec=None):
    """Number of pixel rows the case writes (random row sets need the spec)."""
    if spec is not None:
        return len(spec['pix']['row_names'])
    return 9 if case.get('rowset', 'default') in ('default', 'explicit', 'reordered', 'custom_units') else None


def chunk_relation(case, nrows=9):
    n, c = case['npix'], case['chunk']
    if 'pix' not in case['program']:
        return 'no-pix'
    if c is None:
        c = 8192
    rel = 'c<rows' if c < nrows else 'c=rows' if c == nrows else 'c>rows'
    rel += ',c<n' if c < n else ',c=n' if c == n else ',c>n'
    return rel


def size_class(case):
    out = []
    if case.get('dnd_bins') and 'dnd' in case['program']:
        out.append('dnd2^%d' % int(math.log2(max(int(np.prod(case['dnd_bins'])), 1))))
    if case.get('ndet') and case.get('n_en') and 'pix' in case['program'] and case['mode'] != 'direct':
        out.append('en2^%d' % int(math.log2(max(case['ndet'] * case['n_en'], 1))))
    if case.get('n_en') and case['mode'] == 'direct' and 'pix' in case['program']:
        out.append('en1d2^%d' % int(math.log2(case['n_en'])))
    return '+'.join(out) or '-'


def existing_class(case):
    """What was at the output path when create() ran / how the builder was used."""
    ex = case.get('existing')
    out = 'fresh' if ex is None else '%s:%s%s' % (ex['content'], ex.get('relation'),
                                                  ':other_byteorder' if ex['other_byteorder'] else '')
    sx = case.get('existing_stream')
    if sx is not None:
        out = 'stream:%s:%s:%s:%s' % (sx['content'], sx.get('relation'), sx['at'], sx['object'])
    if case.get('continue_builder'):
        out += '+same_builder'
    if case.get('hold_open'):
        out += '+held_open'
    if case.get('link'):
        out += '+' + case['link'] + ('(dangling)' if case.get('_dangling') else '')
    if case.get('path_as', 'str') != 'str':
        out += '+' + case['path_as']
    return out


def signature(case, spec=None):
    n = case['npix']
    ncls = '0' if n == 0 else '1' if n == 1 else '<=9' if n <= 9 else '<=100' if n <= 100 else \
        '<=8192' if n <= 8192 else '>8192'
    r = case['nruns']
    s = case['string']
    scls = (s['field'], s['alphabet'], '0' if s['length'] == 0 else '<256' if s['length'] < 256 else
            '<5000' if s['length'] < 5000 else '5000')
    has_pix = 'pix' in case['program']
    nrows = rows_of(case, spec) or 9
    variant = (case.get('rowset', 'default') if has_pix else '-', case.get('dtypes', 'mixed') if has_pix else '-',
               case.get('meta', 'random'), 'nd=%s' % case.get('n_dims') if has_pix else '-',
               't' if case.get('pass_title', True) else 'no-title', case.get('byteorder_as', 'str'),
               size_class(case), 'x%d' % case.get('repeat', 1), 'rep%d' % case.get('rep', 0),
               existing_class(case), forms_class(case))
    return (','.join(sorted(case['program'])), len(case['program']), case['byteorder'], ncls,
            chunk_relation(case, nrows), '1' if r == 1 else '<=4' if r <= 4 else '<20' if r < 20 else '20',
            case['mode'], scls, case['target'] + ':' + case.get('path', 'plain'), variant)


def case_summary(case):
    keys = ('program', 'byteorder', 'npix', 'chunk', 'nruns', 'mode', 'string', 'target', 'path', 'values',
            'run_ids', 'vseed', 'rowset', 'dtypes', 'meta', 'n_dims', 'pass_title', 'byteorder_as', 'dnd_bins',
            'ndet', 'n_en', 'repeat', 'rep', 'rows', 'row_units', 'row_dtypes', 'unit_plan', 'path_as',
            'continue_builder', 'calls', 'scribble', 'scribble_fill', 'link', 'existing', 'forms', 'may_refuse',
            'stream', 'existing_stream', 'hold_open')
    return {k: case[k] for k in keys if k in case and case[k] is not None}


def hit_forced(ctx, case, spec=None):
    n, c = case['npix'], case['chunk']
    has_pix = 'pix' in case['program']
    if has_pix:
        nrows = rows_of(case, spec) or 9
        cc = 8192 if c is None else c
        if cc > n:
            ctx.hit('chunk>npix')
        if cc == n:
            ctx.hit('chunk==npix')
        if cc < n:
            ctx.hit('chunk<npix')
        if cc < nrows:
            ctx.hit('chunk<rows')
        if cc < n and math.ceil(nrows / cc) * cc < n:
            ctx.hit('chunks*ceil(rows/chunk)<npix')
        if n == 0:
            ctx.hit('npix==0')
        if n > 8192:
            ctx.hit('npix>8192')
        if n >= 100000:
            ctx.hit('npix>=1e5')
        if case['nruns'] == 20:
            ctx.hit('runs==20')
        if case['nruns'] == 1:
            ctx.hit('runs==1')
        if case['mode'] != 'direct':
            ctx.hit('indirect')
        if spec is not None:
            px = spec['pix']
            dts = {px['rows'][k]['dtype'] for k in px['row_names']}
            if nrows > 9:
                ctx.hit('rows>9')
            if nrows < 9:
                ctx.hit('rows<9')
            ctx.hit('rowset:' + case.get('rowset', 'default'))
            ctx.hit('dtypes:' + case.get('dtypes', 'mixed'))
            if n >= 1 and len(dts) == 1:
                ctx.hit('rows:all_' + next(iter(dts)))
            if not px['pass_rows']:
                ctx.hit('kw:rows_default')
        if case.get('n_dims') is not None:
            ctx.hit('kw:n_dims=%d' % case['n_dims'])
        if case['mode'] != 'direct' and case.get('ndet') and case.get('n_en') and \
                case['ndet'] * case['n_en'] > HEAVY:
            ctx.hit('size:en>2^22')
    if 'dnd' in case['program'] and case.get('dnd_bins'):
        vol = int(np.prod(case['dnd_bins']))
        if vol > HEAVY:
            ctx.hit('size:dnd>2^22:' + case['target'])
        elif vol > 8192:
            ctx.hit('size:dnd>8192:' + case['target'])
    if not case.get('pass_title', True):
        ctx.hit('kw:title_default')
    ctx.hit('kw:byteorder_' + case.get('byteorder_as', 'str'))
    ctx.hit('kw:byteorder=' + byteorder_form(case))
    ex = case.get('existing')
    if ex is not None and ex.get('relation'):
        ctx.hit('existing_file:' + ex['relation'])
        ctx.hit('existing_file:' + ex['content'])
        ctx.hit('existing_file:%s:%s' % (ex['content'], ex['relation']))
        if ex['other_byteorder']:
            ctx.hit('existing_file:other_byteorder')
        if case.get('link'):
            ctx.hit('existing_file:through_' + case['link'])
        if case.get('continue_builder'):
            ctx.hit('second_create_of_builder:existing_' + ex['relation'])
    if case['target'] == 'file' and case.get('path_as', 'str') != 'str':
        ctx.hit('path_as:' + case['path_as'])
    if case.get('link') == 'symlink' and case.get('_dangling'):
        ctx.hit('new_file:through_dangling_symlink')
    if ex is not None and ex.get('relation') and case.get('hold_open'):
        ctx.hit('existing_file:held_open_by_a_reader')
    sx = case.get('existing_stream')
    if sx is not None and sx.get('relation'):
        ctx.hit('stream:%s:%s' % (sx['content'], sx['relation']))
        ctx.hit('stream:' + sx['object'])
        ctx.hit('stream:position_' + sx['at'])
        if sx['content'] == 'sqw' and sx['at'] == 'start' and sx['object'] == 'same':
            ctx.hit('stream:rewound_after_an_earlier_file')
        if sx['content'] == 'sqw' and sx['at'] == 'end' and sx['object'] == 'same':
            ctx.hit('stream:second_file_behind_the_first')
        if sx['image_over_nonzero_bytes']:
            ctx.hit('stream:histogram_over_nonzero_bytes')
        if case.get('continue_builder'):
            ctx.hit('second_create_of_builder:same_stream')
    F = forms_of(case)
    for k_, v in F.items():
        ctx.hit(f'form:{k_}={v}')
    if case.get('_fed_back'):
        ctx.hit('second_use:reader_results_fed_back')
    if case.get('_first_create') == 'raised':
        ctx.hit('second_use:create_again_after_failure:' + F['retry'])
    if has_pix and n >= 1 << 20:
        ctx.hit('npix>=2^20')
    if case.get('meta') == 'canonical' and resolved(case['byteorder']) != NATIVE and len(case['program']) >= 3:
        ctx.hit('canonical_objects+non_native_order')
    if case.get('meta') in ('f32', 'int'):
        ctx.hit('meta:' + case['meta'])
    if case.get('rep'):
        ctx.hit('second_build_from_same_objects')
    if case.get('_mutated'):
        ctx.hit('second_build_after_in_place_modification')
    s = case['string']
    if s['alphabet'] != 'ascii' and s['length'] > 0:
        ctx.hit('non_ascii_string')
    if s['alphabet'] in UNNORMALISED and s['length'] > 0:
        ctx.hit('string:%s:%s' % (s['alphabet'], s['field']))
    if case['target'] == 'file' and case.get('path') in (*UNNORMALISED, 'non_nfc_dir', 'dotdot_symlink'):
        ctx.hit('path:' + case['path'])
    if s['length'] == 0:
        ctx.hit('empty_string')
    if s['length'] >= 5000:
        ctx.hit('string_len>=5000')
    ctx.hit('target:' + case['target'])
    ctx.hit('byteorder:' + case['byteorder'])
    if case['target'] == 'file' and case.get('path') in ('nonascii', 'nonascii_dir'):
        ctx.hit('non_ascii_path')
    if len(case['program']) == 0:
        ctx.hit('empty_program')
    if case.get('sizes_coincide'):
        ctx.hit('sizes_all=%d' % case['sizes_coincide'])


FORCED = ['chunk>npix', 'chunk==npix', 'chunk<npix', 'chunk<rows', 'chunks*ceil(rows/chunk)<npix',
          'npix==0', 'npix>8192', 'runs==20', 'runs==1', 'indirect', 'non_ascii_string',
          'empty_string', 'string_len>=5000', 'target:bytesio', 'target:file', 'byteorder:native',
          'byteorder:little', 'byteorder:big', 'non_ascii_path', 'empty_program',
          'npix>=1e5', 'rows>9', 'rows<9', *('rowset:' + k for k in ROWSETS), *('dtypes:' + k for k in DTYPE_PLANS),
          'rows:all_float32', 'rows:all_float64', 'rows:all_int64', 'rows:all_int32', 'kw:rows_default', 'kw:n_dims=0', 'kw:n_dims=4',
          'kw:title_default', 'kw:byteorder_str', 'kw:byteorder_enum', 'kw:byteorder_omit',
          'size:en>2^22', 'size:dnd>2^22:bytesio', 'size:dnd>8192:bytesio', 'size:dnd>8192:file',
          'canonical_objects+non_native_order', 'meta:f32', 'meta:int', 'second_build_from_same_objects',
          *('kw:byteorder=' + k for k in ('str:little', 'str:big', 'str:native', 'enum:little', 'enum:big',
                                          'enum:native', 'omit:native')),
          'existing_file:longer', 'existing_file:shorter', 'existing_file:same_size', 'existing_file:empty',
          'existing_file:sqw', 'existing_file:garbage', 'existing_file:sqw:longer', 'existing_file:sqw:shorter',
          'existing_file:sqw:same_size', 'existing_file:garbage:longer', 'existing_file:garbage:shorter',
          'existing_file:garbage:same_size', 'existing_file:other_byteorder', 'existing_file:through_symlink',
          'second_create_of_builder:existing_longer', 'second_create_of_builder:existing_same_size',
          'second_create_of_builder:existing_shorter', 'path_as:Path',
          # the form of the arguments (section N of make_items)
          *('form:masks=' + k for k in MASK_CLASSES), *('form:chunk_as=' + k for k in INT_FORMS),
          *('form:run_id_as=' + k for k in INT_FORMS),
          *('form:n_dims_as=' + k for k in ('IntEnum', 'int_subclass', 'np.int64', 'np.int32')),
          *('form:str_as=' + k for k in STR_FORMS), 'form:bool_as=np.bool_',
          'kw:byteorder_np_str', 'kw:byteorder_str_enum', 'kw:byteorder_str_subclass',
          'form:coord_variances=True', 'form:meta_variances=True', 'form:no_variances=True', 'rowset:no_error',
          'form:pix_view=True', *('form:pix_dim=' + k for k in PIX_DIMS),
          'form:call_style=keyword', 'form:call_style=unchained', 'form:experiments_as=tuple',
          'form:experiments_as=iterator', 'form:rows_as=list', 'form:rows_as=iterator', 'form:lists_as=tuple',
          'form:target_class=bytesio_subclass', 'path_as:FsPath', 'path_as:PurePath', 'path_as:np.str_',
          'form:model_subclass=True', 'form:observe=True', 'form:retry=bin_edges', 'form:retry=stream_error',
          'form:retry=missing_dir', 'form:feedback=True', 'second_use:reader_results_fed_back',
          *('form:reader_fs=' + k for k in READER_FS), 'form:mutate=True', 'form:alias=True',
          'second_build_after_in_place_modification',
          'second_use:create_again_after_failure:stream_error', 'second_use:create_again_after_failure:missing_dir',
          'npix>=2^20',
          # text / file names that are not in Unicode normal form, in every string field
          *('string:%s:%s' % (a, f) for a in UNNORMALISED for f in STRING_FIELDS),
          'path:non_nfc', 'path:non_nfkc', 'path:non_nfc_dir', 'path:dotdot_symlink',
          # file-system forms of the target; streams that are not empty when create() runs
          'new_file:through_dangling_symlink', 'existing_file:through_hardlink', 'existing_file:held_open_by_a_reader',
          'path_as:relative',
          *('stream:%s:%s' % (c, r) for c in ('sqw', 'garbage') for r in ('longer', 'shorter', 'same_size')),
          'stream:garbage:at_end', 'stream:sqw:at_end', 'stream:same', 'stream:created_from_bytes',
          'stream:position_start', 'stream:position_inside', 'stream:position_end',
          'stream:rewound_after_an_earlier_file', 'stream:second_file_behind_the_first',
          'stream:histogram_over_nonzero_bytes', 'second_create_of_builder:same_stream', 'fresh_interpreter',
          *('sizes_all=%d' % n for n in (2, 3, 4, 8, 9, 10))]


# ------------------------------------------------------------ writer trace ---
class WriterTrace:
    """Bytes actually written per block, from the writer's own call boundaries."""

    def __init__(self, tr: Tracer, S_build, S_low, on_create_return, on_deduce=None):
        self.cur = None
        self.on_create_return = on_create_return
        self.on_deduce = on_deduce
        self.hooked = []
        B = S_build
        w = self._w

        def watch(func, name, **kw):
            try:
                if tr.watch(func, name, **kw) is not None:
                    self.hooked.append(name)
            except (TypeError, AttributeError):
                pass

        watch(B.SqwBuilder.create, 'SqwBuilder.create', on_start=self._create_start,
              on_return=self._create_return)
        watch(getattr(B.SqwBuilder, '_serialize_block_allocation_table', None),
              '_serialize_block_allocation_table', on_return=self._bat_return)
        watch(getattr(B, '_write_data_block_descriptor', None), '_write_data_block_descriptor',
              on_return=lambda ev: self._count('descriptors'))
        watch(getattr(B._PixWrap, 'write', None), '_PixWrap.write', on_start=self._pix_start,
              on_return=self._pix_return)
        watch(getattr(B._DndPlaceholder, 'write', None), '_DndPlaceholder.write',
              on_start=self._pos_start, on_return=self._dnd_return)
        watch(getattr(B._PixWrap, 'size', None), '_PixWrap.size',
              on_return=lambda ev: self._note('pix_size', ev.result))
        watch(getattr(B._DndPlaceholder, 'size', None), '_DndPlaceholder.size',
              on_return=lambda ev: self._note('dnd_size', ev.result))
        watch(w(S_low.LowLevelSqw.write_raw), 'LowLevelSqw.write_raw', on_start=self._pos_start,
              on_return=self._raw_return)
        watch(w(S_low.LowLevelSqw.write_array), 'LowLevelSqw.write_array',
              on_return=self._array_return)
        watch(getattr(S_low, '_deduce_byteorder', None), '_deduce_byteorder',
              on_return=self._deduce_return)

    @staticmethod
    def _w(f):
        """The function behind the exception-annotating decorator (its own code object)."""
        return getattr(f, '__wrapped__', f)

    def _count(self, k):
        if self.cur is not None:
            self.cur[k] = self.cur.get(k, 0) + 1

    def _note(self, k, v):
        if self.cur is not None:
            self.cur[k] = v

    def _create_start(self, ev):
        self.cur = {'raw': [], 'pix': None, 'dnd': None, 'bat': None, 'in_pix': False,
                    'pix_chunks': [], 'chunk_size': ev.args.get('chunk_size')}

    def _create_return(self, ev):
        cur, self.cur = self.cur, None
        self.on_create_return(ev, cur)

    def _bat_return(self, ev):
        if self.cur is None or ev.exc is not None:
            return
        try:
            _, desc = ev.result
            self.cur['bat'] = {
                'offset': ev.args.get('bat_offset'),
                'descriptors': [(tuple(n), d.block_type.value, int(d.position), int(d.size))
                                for n, d in desc.items()],
            }
        except Exception:  # noqa: BLE001  (diagnosis only)
            self.cur['bat'] = None

    @staticmethod
    def _position(ev):
        io_ = ev.args.get('sqw_io', ev.args.get('self'))
        try:
            return int(io_.position)
        except Exception:  # noqa: BLE001
            return None

    def _pos_start(self, ev):
        return self._position(ev)

    def _pix_start(self, ev):
        if self.cur is not None:
            self.cur['in_pix'] = True
        return self._position(ev)

    def _pix_return(self, ev):
        if self.cur is None:
            return
        self.cur['in_pix'] = False
        me = ev.args.get('self')
        post = self._position(ev)
        try:
            rows, npix = int(me.n_rows()), int(me.n_pixels())
        except Exception:  # noqa: BLE001
            rows = npix = None
        self.cur['pix'] = {
            'start': ev.pre, 'written': None if ev.pre is None or post is None else post - ev.pre,
            'rows': rows, 'npix': npix, 'chunk_size': ev.args.get('chunk_size'),
            'chunk_writes': len(self.cur['pix_chunks']),
            'pixels_written': int(sum(self.cur['pix_chunks'])),
            'raised': None if ev.exc is None else type(ev.exc).__name__,
        }

    def _dnd_return(self, ev):
        if self.cur is None:
            return
        post = self._position(ev)
        self.cur['dnd'] = {'start': ev.pre,
                           'written': None if ev.pre is None or post is None else post - ev.pre}

    def _raw_return(self, ev):
        if self.cur is None:
            return
        post = self._position(ev)
        self.cur['raw'].append((ev.pre, None if ev.pre is None or post is None else post - ev.pre))

    def _array_return(self, ev):
        if self.cur is not None and self.cur.get('in_pix'):
            a = ev.args.get('array')
            self.cur['pix_chunks'].append(int(a.shape[0]) if hasattr(a, 'shape') and a.ndim else 0)

    def _deduce_return(self, ev):
        if ev.args.get('byteorder') is None and self.on_deduce is not None and ev.exc is None:
            self.on_deduce(ev)


def written_per_block(trace) -> dict:
    """name -> {declared, start, written} from the writer trace (None where not observed)."""
    out = {}
    if not trace or not trace.get('bat'):
        return out
    raws = list(trace['raw'][1:])  # the first raw write is the table itself
    for name, btype, pos, size in trace['bat']['descriptors']:
        rec = {'type': btype, 'declared_position': pos, 'declared_size': size, 'start': None,
               'written': None}
        if btype == 'data_block' and raws:
            rec['start'], rec['written'] = raws.pop(0)
        elif btype == 'pix_data_block' and trace.get('pix'):
            rec['start'], rec['written'] = trace['pix']['start'], trace['pix']['written']
        elif btype == 'dnd_data_block' and trace.get('dnd'):
            rec['start'], rec['written'] = trace['dnd']['start'], trace['dnd']['written']
        out['/'.join(name)] = rec
    return out


def pix_mechanism(trace, declared=None):
    """Why the pixel block is not what the table declares, from the observed write loop
    (``declared``: the size in the allocation table, if it was decoded)."""
    p = (trace or {}).get('pix')
    if not p or p['rows'] is None or p['written'] is None:
        return 'unobserved'
    rows, npix, chunk = p['rows'], p['npix'], p['chunk_size']
    if declared is None:
        declared = (trace or {}).get('pix_size')
    want = 12 + 4 * rows * npix
    if declared is not None and declared != want:
        return 'pix_size_formula'
    if p['written'] == want:
        return 'none'
    if isinstance(chunk, int) and chunk >= 1 and p['pixels_written'] < npix:
        by_rows = math.ceil(rows / chunk)
        by_pix = math.ceil(npix / chunk)
        if by_rows != by_pix and p['chunk_writes'] == by_rows and \
                p['pixels_written'] == min(npix, by_rows * chunk):
            return 'pix_chunk_loop_bound'
        return 'pix_pixels_lost'
    return 'pix_bytes_written_ne_declared'


# ------------------------------------------------------ string diagnosis ---
def _walk_chars(node, path, out):
    if node.tag == 'char':
        for raw in node.value:
            out.append((path, node.shape[0] if node.shape else 0, raw))
    elif node.tag == 'cell':
        for i, v in enumerate(node.value):
            _walk_chars(v, f'{path}[{i}]', out)
    elif node.tag == 'struct':
        for i, s in enumerate(node.value):
            for k, v in s.items():
                _walk_chars(v, f'{path}.{k}' if len(node.value) == 1 else f'{path}[{i}].{k}', out)


def string_mechanism(buf, descriptor, bo):
    """Does the block decode completely when char lengths count characters, not bytes?"""
    alt = D.decode_block(buf, descriptor, bo, char_unit='utf8char')
    if not (alt.ok and alt.consumed == descriptor.size):
        return None
    chars = []
    _walk_chars(alt.value, '', chars)
    sites = [(p, n, len(raw)) for p, n, raw in chars if len(raw) != n]
    if not sites:
        return None
    in_cell = any('[' in p.rsplit('.', 1)[-1] for p, _, _ in sites)
    return {'mechanism': 'string_length_in_characters',
            'site': 'string_cell' if in_cell and len(sites) == 1 else 'scalar_string',
            'fields': [p for p, _, _ in sites][:4],
            'declared_chars_vs_bytes': [(n, b) for _, n, b in sites][:4]}


def _walk_nodes(node, path, out):
    out.append((path, node))
    if node.tag == 'cell':
        for i, v in enumerate(node.value):
            _walk_nodes(v, f'{path}[{i}]', out)
    elif node.tag == 'struct':
        for i, st in enumerate(node.value):
            for k, v in st.items():
                _walk_nodes(v, f'{path}.{k}' if len(node.value) == 1 else f'{path}[{i}].{k}', out)


def itemsize_mechanism(buf, descriptor, bo, limit=600):
    """Does the block decode completely when ONE f64-tagged array holds 4-byte items?"""
    for k in range(limit):
        alt = {'at': k, 'itemsize': 4, 'seen': 0}
        b = D.decode_block(buf, descriptor, bo, alt=alt)
        if alt['seen'] <= k:
            return None  # fewer f64 arrays than k in the decodable part
        if b.ok and b.consumed == descriptor.size and 'hit' in alt:
            nodes = []
            _walk_nodes(b.value, '', nodes)
            field = next((p for p, n in nodes if n.offset == alt['hit'][0] and n.tag == 'f64'), '?')
            return {'mechanism': 'f64_tag_4_byte_items', 'field': field.rsplit('.', 1)[-1],
                    'path': field, 'shape': alt['hit'][1]}
    return None


# ------------------------------------------------------------------ judging ---
def judge_structure(ctx, case, buf, trace, exc=None):
    """All container rules of C12 on one produced file.  Returns the decoded file."""
    bo = resolved(case['byteorder'])
    cs = case_summary(case)
    cs['file_length'] = len(buf)
    wpb = written_per_block(trace)
    if exc is not None:
        ctx.violation('create_raised', f'SqwBuilder.create raised {type(exc).__name__}: {exc}', cs,
                      exception=type(exc).__name__)
        return None
    # -- header literal
    nd = expected_n_dims(case)
    lit = D.header_literal(bo, 1, nd)
    ctx.event('header')
    # a stream that was not empty: the file begins where the stream stood when create() was called; what
    # the stream held before that position belongs to its owner
    base = base_of(case)
    pre = case.get('_prefill')
    if pre is not None:
        ctx.event('stream:not_empty')
        head = (pre[:base] + bytes(base))[:base]        # a gap behind the old end reads as zeros
        if bytes(buf[:base]) != head:
            ctx.violation('stream_prefix_modified', f'the {base} bytes in front of the position the stream was '
                          f'handed over at were changed', cs, mechanism='stream_prefix')
    if buf[base:base + len(lit)] != lit:
        other = 'big' if bo == 'little' else 'little'
        swapped = buf[base:base + len(lit)] == D.header_literal(other, 1, nd)
        ctx.violation('header', 'file does not begin with the horace 4.0 header in the byte order '
                      f'requested ({bo}): {bytes(buf[base:base + 26]).hex()}', cs,
                      mechanism='header_other_byteorder' if swapped else 'header_literal')
        if not swapped:
            return None
        bo = other
    f = D.decode_file(buf, bo, base)
    if f.header_error or f.bat_error:
        ctx.violation('bat_undecodable', f'allocation table does not decode: '
                      f'{f.header_error or f.bat_error}', cs, mechanism='bat')
        return f
    # -- table
    ctx.event('bat')
    names = f.names()
    cs['bat'] = [[list(d.name), d.block_type, d.position, d.size] for d in f.descriptors]
    if wpb:
        cs['writer_trace'] = wpb
    if f.bat_size_field != f.bat_end - (f.header_end + 4):
        ctx.violation('bat_size_field', f'table size field {f.bat_size_field} but the table occupies '
                      f'{f.bat_end - f.header_end - 4} bytes after it', cs, mechanism='bat_size_field')
    if len(set(names)) != len(names):
        ctx.violation('bat_duplicate', f'block listed more than once: {names}', cs, mechanism='bat_names')
    want = expected_names(case['program'])
    if set(names) != want:
        ctx.violation('bat_block_set', f'blocks {sorted(set(names) ^ want)} missing or unexpected', cs,
                      mechanism='bat_names')
    for d in f.descriptors:
        if d.block_type != BLOCK_TYPE_OF.get(d.name, 'data_block'):
            ctx.violation('bat_block_type', f'{d.name} declared as {d.block_type}', cs,
                          mechanism='bat_block_type')
        if d.locked != 0:
            ctx.violation('bat_locked', f'{d.name} left locked ({d.locked})', cs, mechanism='bat_locked')
    # -- extents
    ctx.event('extents')
    ext = sorted(f.descriptors, key=lambda d: (d.position, d.size))
    tiling_ok = True
    pos = f.bat_end
    for i, d in enumerate(ext):
        if d.position != pos:
            tiling_ok = False
            kind = 'extent_start' if i == 0 else 'extent_overlap' if d.position < pos else 'extent_gap'
            ctx.violation(kind, f'{d.name} starts at {d.position}, previous extent / table ends at {pos}',
                          cs, mechanism=kind, block_type=d.block_type)
            break
        pos = d.position + d.size
    file_end_ok = True
    if ext and tiling_ok and pos != len(buf):
        file_end_ok = False
    elif not ext and f.bat_end != len(buf):
        file_end_ok = False
        pos = f.bat_end
    # -- every extent decodes completely as its declared type
    ctx.event('blocks', len(f.block_list))
    reported_eof = False
    for b in f.block_list:
        d = b.descriptor
        if b.ok and b.consumed == d.size:
            continue
        keys = {'block_type': d.block_type, 'block': '/'.join(d.name)}
        diag = ''
        if d.block_type == 'pix_data_block':
            keys['mechanism'] = pix_mechanism(trace, d.size)
            if keys['mechanism'] == 'none':
                keys['mechanism'] = 'pix_extent'
        elif d.block_type == 'dnd_data_block':
            dn = (trace or {}).get('dnd')
            keys['mechanism'] = 'dnd_bytes_written_ne_declared' if dn and dn['written'] != d.size \
                else 'dnd_extent'
        else:
            sm = string_mechanism(buf, d, bo)
            im = None if sm else itemsize_mechanism(buf, d, bo)
            if sm:
                keys['mechanism'], keys['site'] = sm['mechanism'], sm['site']
                diag = (f"; decodes completely if char lengths count characters: fields {sm['fields']} "
                        f"declare/occupy {sm['declared_chars_vs_bytes']} chars/bytes")
            elif im:
                keys['mechanism'], keys['field'] = im['mechanism'], im['field']
                diag = (f"; decodes completely if the f64-tagged array {im['path']} of shape {im['shape']} "
                        f"holds 4-byte elements")
            else:
                keys['mechanism'] = 'data_block_extent'
        tr = wpb.get('/'.join(d.name))
        if tr:
            diag += f"; writer trace: {tr['written']} bytes written, {tr['declared_size']} declared"
        if d.block_type == 'pix_data_block' and (trace or {}).get('pix'):
            p = trace['pix']
            diag += (f"; {p['chunk_writes']} chunk writes of chunk_size={p['chunk_size']} put "
                     f"{p['pixels_written']} of {p['npix']} pixels")
        short = {'pix_data_block': 'pix_block', 'dnd_data_block': 'dnd_block'}.get(d.block_type, 'data_block')
        if not b.ok:
            ctx.violation(short + '_incomplete', f'{d.name} ({d.block_type}, extent {d.position}+{d.size}) '
                          f'does not decode: {b.error} at byte {b.error_offset}{diag}', cs, **keys)
        else:
            ctx.violation(short + '_size', f'{d.name} ({d.block_type}) decodes in {b.consumed} bytes, '
                          f'extent declares {d.size}{diag}', cs, **keys)
        if d.position + d.size > len(buf):
            reported_eof = True
    if not file_end_ok and not reported_eof and pre is not None and pos < len(buf) == len(pre) \
            and bytes(buf[pos:]) == pre[pos:]:
        # the stream held more bytes than the container needs: they lie behind the last extent and were
        # left exactly as they were (a stream is not truncated by its user; the container ends where the
        # table says) -- every byte the table declares was judged above
        file_end_ok = True
        ctx.count('stream:bytes_behind_the_container_left_untouched')
    if not file_end_ok and not reported_eof:
        ctx.violation('extent_end', f'extents end at {pos}, file has {len(buf)} bytes', cs,
                      mechanism='extent_end_vs_eof')
    # -- writer trace next to the table (diagnosis, counted)
    for name, rec in wpb.items():
        if rec['written'] is not None:
            ctx.event('trace:' + rec['type'])
            ctx.dev('trace.|written-declared|.' + rec['type'], abs(rec['written'] - rec['declared_size']))
    return f


REOPEN_FORMS = ('deduced', 'str', 'enum')


def judge_reopen(ctx, S, case, target, f, deduced):
    """Re-open with the package's reader: byte order, header and block names; with the byte
    order deduced from the file (default) and given explicitly as string / enum member."""
    bo = resolved(case['byteorder'])
    cs = case_summary(case)
    for form in REOPEN_FORMS:
        kw = {} if form == 'deduced' else {'byteorder': bo if form == 'str' else S.Byteorder[bo]}
        deduced.clear()
        try:
            if isinstance(target, io.BytesIO):
                target.seek(base_of(case))
            with S.Sqw.open(target, **kw) as sqw:
                got_bo = sqw.byteorder.value
                hdr = sqw.file_header
                got_names = [tuple(n) for n in sqw.data_block_names()]
        except Exception as e:  # noqa: BLE001
            ctx.violation('reopen_raised', f'Sqw.open({form} byte order) raised {type(e).__name__}: {e}', cs,
                          mechanism='reopen', open=form)
            return
        ctx.event('reopen' if form == 'deduced' else 'reopen:byteorder_' + form)
        for ev_bo in deduced:
            ctx.event('trace:_deduce_byteorder')
            if ev_bo != bo:
                ctx.violation('reopen_byteorder', f'_deduce_byteorder returned {ev_bo}, file was written {bo}',
                              cs, mechanism='deduce_byteorder', open=form)
                return
        if got_bo != bo:
            ctx.violation('reopen_byteorder', f'Sqw.open({form} byte order) reports {got_bo}, file was '
                          f'written {bo}', cs, mechanism='deduce_byteorder', open=form)
            return
        if f is None or f.bat_error or f.header_error:
            return
        if (hdr.prog_name, hdr.prog_version, hdr.sqw_type.value, hdr.n_dims) != (
                'horace', 4.0, f.header['sqw_type'], f.header['n_dims']):
            ctx.violation('reopen_header', f'Sqw.open({form} byte order) reports header {hdr}', cs,
                          mechanism='reopen_header', open=form)
        if got_names != f.names():
            ctx.violation('reopen_names', f'Sqw.open({form} byte order) lists {got_names}, table holds '
                          f'{f.names()}', cs, mechanism='reopen_names', open=form)


def judge_group(ctx, group_cases, orders_seen):
    """BAT order must be one order for all permutations of the same call set."""
    ctx.event('perm_groups')
    ref = None
    for case, names in orders_seen:
        if names is None:
            continue
        if ref is None:
            ref = (case, names)
            continue
        if names != ref[1] and set(names) == set(ref[1]):
            ctx.violation(
                'bat_order_depends_on_call_order',
                f'program {case["program"]} lists {names}; program {ref[0]["program"]} lists {ref[1]}',
                {'a': case_summary(ref[0]), 'b': case_summary(case)}, mechanism='bat_order')
            return


def expected_exception(ctx, case, exc):
    """A create() that raised where the case allows it: the failure the harness injected (a
    stream that fails once, a directory that does not exist yet: the second create() is the one
    that is judged), or the refusal of an argument form outside the documented types (counted,
    never judged).  Everything else is judged."""
    if exc is None:
        return False
    want = case.get('_expect_create_exc')
    if want is not None and isinstance(exc, want):
        ctx.count('injected_failure_of_first_create')
        return True
    if case.get('may_refuse') and isinstance(exc, REFUSAL):
        ctx.count('refusal:' + case['may_refuse'])
        return True
    return False


# ------------------------------------------------- first call in a fresh interpreter ---
# A program that imports nothing of the package but the module of the entry points (scippneutron.io.sqw), builds
# one file and reads it back.  It is run in a new interpreter (subprocess) and, from the same source, in the
# worker: the two files must be the same bytes (but for the two time stamps) and the reader must return the same.
FRESH_SCRIPT = r'''
import json
import sys

import numpy as np
import scipp as sc
from scippneutron.io import sqw as S


def main(path, bo, n, title):
    q = ['1/angstrom'] * 3 + ['meV']
    k = np.arange(n, dtype='float64')
    pixels = sc.DataArray(
        sc.array(dims=['obs'], values=0.25 * k + 1, variances=0.5 * k + 2, unit='count'),
        coords={'u1': sc.array(dims=['obs'], values=0.1 * k - 1, unit='1/angstrom'),
                'u2': sc.array(dims=['obs'], values=3.0 - k, unit='1/nm'),
                'u3': sc.array(dims=['obs'], values=k * k, unit='1/angstrom'),
                'u4': sc.array(dims=['obs'], values=1e3 * k + 0.5, unit='ueV'),
                'irun': sc.array(dims=['obs'], values=(k % 2).astype(int), unit=None),
                'idet': sc.array(dims=['obs'], values=(k % 5).astype(int) + 1, unit=None),
                'ien': sc.array(dims=['obs'], values=(k % 3).astype(int) + 1, unit=None)})
    runs = [S.SqwIXExperiment(
        run_id=i, efix=sc.scalar(2.5 + i, unit='meV'), emode=S.EnergyMode.direct,
        en=sc.array(dims=['energy_transfer'], values=[-1.0, 0.5, 2.0 + i], unit='meV'),
        psi=sc.scalar(30.0 * (i + 1), unit='deg'), u=sc.vector([1.0, 0.0, 0.5]), v=sc.vector([0.0, 1.0, 0.25]),
        omega=sc.scalar(0.1, unit='rad'), dpsi=sc.scalar(0.2, unit='rad'), gl=sc.scalar(0.3, unit='rad'),
        gs=sc.scalar(0.4, unit='rad'), filename=title + str(i), filepath='/data') for i in range(2)]
    dnd = S.SqwDndMetadata(
        axes=S.SqwLineAxes(
            title=title, label=['h', title, 'l', 'E'], img_scales=[sc.scalar(1.0, unit=u) for u in q],
            img_range=[sc.array(dims=['range'], values=[-1.5, 2.5], unit=u) for u in q],
            n_bins_all_dims=sc.array(dims=['axis'], values=[2, 3, 1, 2], unit=None),
            single_bin_defines_iax=sc.array(dims=['axis'], values=[True] * 4), dax=sc.arange('axis', 4, unit=None),
            offset=[sc.scalar(0.0, unit=u) for u in q], changes_aspect_ratio=True),
        proj=S.SqwLineProj(
            title=title, lattice_spacing=sc.vector([2.5, 3.5, 4.5], unit='angstrom'),
            lattice_angle=sc.vector([90.0, 60.0, 75.0], unit='deg'), offset=[sc.scalar(0.0, unit=u) for u in q],
            label=['h', 'k', 'l', 'E'], u=sc.vector([1.0, 0.0, 0.0], unit='1/angstrom'),
            v=sc.vector([0.0, 1.0, 0.0], unit='1/angstrom'), w=None, non_orthogonal=False, type='aaa'))
    builder = S.Sqw.build(path, title=title, byteorder=bo)
    builder = builder.add_default_instrument(S.SqwIXNullInstrument(
        name=title, source=S.SqwIXSource(name='src', target_name='tgt', frequency=sc.scalar(10.0, unit='Hz'))))
    builder = builder.add_default_sample(S.SqwIXSample(
        name=title, lattice_spacing=sc.vector([2.5, 3.5, 4.5], unit='angstrom'),
        lattice_angle=sc.vector([90.0, 60.0, 75.0], unit='deg')))
    builder = builder.add_empty_detector_params().add_empty_dnd_data(dnd)
    builder.add_pixel_data(pixels, experiments=runs).create(chunk_size=7)
    with S.Sqw.open(path) as f:
        pix = f.read_data_block('pix', 'data_wrap')
        head = f.read_data_block('', 'main_header')
        exps = f.read_data_block('experiment_info', 'expdata')
        nd = f.read_data_block('data', 'nd_data')
        meta = f.read_data_block('data', 'metadata')
        return {'byteorder': f.byteorder.value, 'names': [list(x) for x in f.data_block_names()],
                'pix': np.asarray(pix, dtype='float64').ravel().tolist(), 'title': head.title,
                'nfiles': head.nfiles, 'efix': [float(e.efix.value) for e in exps],
                'psi': [float(e.psi.value) for e in exps], 'filename': [e.filename for e in exps],
                'nd': [[int(x) for x in a.shape] + [float(np.abs(a).sum())] for a in nd],
                'label': list(meta.axes.label), 'alatt': meta.proj.lattice_spacing.values.tolist()}


if __name__ == '__main__':
    print(json.dumps(main(sys.argv[1], sys.argv[2], int(sys.argv[3]), json.loads(sys.argv[4]))))
'''


def _masked_dates(buf, bo):
    """The file bytes with the two creation time stamps blanked (None if the file does not decode)."""
    f = D.decode_file(buf, bo)
    if f.header_error or f.bat_error:
        return None
    out = bytearray(buf)
    for name, path in ((('', 'main_header'), ('creation_date',)), (('data', 'metadata'), ('creation_date_str',))):
        b = f.blocks.get(name)
        if b is None or not b.ok:
            return None
        node = b.value.struct()[path[0]]
        n = node.shape[0] if node.shape else 0
        out[node.end - n:node.end] = b'#' * n
    return bytes(out)


def fresh_interpreter(ctx, tmpdir, seed):
    """(o) the first call in a fresh interpreter gives what the worker gives."""
    import json
    import subprocess

    mine = {'__name__': 'fresh_script'}
    exec(compile(FRESH_SCRIPT, '<fresh-interpreter script>', 'exec'), mine)   # noqa: S102  (own constant source)
    for k in range(2):
        bo = ('little', 'big')[(k + seed) % 2]
        n = (23, 8)[k]
        title = ('plain title', 'de\u0301compose\u0301 \u212b \u00b5')[(k + seed) % 2]
        path = os.path.join(tmpdir, f'fresh{k}.sqw')
        cs = {'fresh_interpreter': True, 'byteorder': bo, 'npix': n, 'title': title}
        try:
            r = subprocess.run([sys.executable, '-c', FRESH_SCRIPT, path, bo, str(n), json.dumps(title)],
                               capture_output=True, text=True, timeout=600, env=dict(os.environ), check=False)
        except (OSError, subprocess.SubprocessError):
            ctx.oracle_error('C12 fresh interpreter: subprocess')
            return
        ctx.event('fresh_interpreter:runs')
        if r.returncode != 0:
            ctx.violation('fresh_interpreter_raised', 'building and reading one file in a new interpreter that '
                          f'imports only scippneutron.io.sqw failed: {r.stderr.strip()[-300:]}', cs,
                          mechanism='fresh_interpreter')
            continue
        try:
            there = json.loads(r.stdout.strip().splitlines()[-1])
            file_there = read_target(path)
            os.remove(path)
        except (ValueError, IndexError, OSError) as e:
            ctx.violation('fresh_interpreter_raised', f'no result from the new interpreter: {e}', cs,
                          mechanism='fresh_interpreter')
            continue
        try:
            here = json.loads(json.dumps(mine['main'](path, bo, n, title)))
            file_here = read_target(path)
            os.remove(path)
        except Exception as e:  # noqa: BLE001
            ctx.violation('fresh_interpreter_differs', f'the same program raised in the worker: '
                          f'{type(e).__name__}: {str(e)[:200]}', cs, mechanism='fresh_interpreter')
            continue
        a, b = _masked_dates(file_there, bo), _masked_dates(file_here, bo)
        if a is None or b is None or a != b:
            where = 'undecodable' if a is None or b is None else \
                next((i for i, (x, y) in enumerate(zip(a, b, strict=False)) if x != y), min(len(a), len(b)))
            ctx.violation('fresh_interpreter_differs', f'file written in a new interpreter ({len(file_there)} bytes) '
                          f'differs from the file the worker writes ({len(file_here)} bytes) at byte {where}', cs,
                          mechanism='fresh_interpreter', what_differs='file')
        elif there != here:
            key = next((k_ for k_ in here if there.get(k_) != here[k_]), '?')
            ctx.violation('fresh_interpreter_differs', f'reader result {key!r} in a new interpreter '
                          f'{str(there.get(key))[:80]} differs from the worker\'s {str(here[key])[:80]}', cs,
                          mechanism='fresh_interpreter', what_differs='reader')
        ctx.hit('fresh_interpreter')


# ------------------------------------------------------------------- driver ---
def requirements(tier):
    return {
        'events': {'header': 300, 'bat': 300, 'extents': 300, 'blocks': 1000, 'reopen': 300,
                   'reopen:byteorder_str': 300, 'reopen:byteorder_enum': 300,
                   'perm_groups': 20, 'trace:pix_data_block': 100, 'trace:dnd_data_block': 100,
                   'trace:data_block': 500, 'trace:_deduce_byteorder': 300, 'stream:not_empty': 20,
                   'fresh_interpreter:runs': 2},
        'forced': FORCED,
        'counters': {'programs_run': 326, 'model_subclass:override_calls': 1, 'retry:first_call_refused': 1,
                     'stream:bytes_behind_the_container_left_untouched': 4},
    }


def run(shard, ctx):
    import scipp as sc
    from scippneutron.io import sqw as S
    from scippneutron.io.sqw import _build as S_build
    from scippneutron.io.sqw import _low_level_io as S_low

    items = items_of_shard(shard)
    cwd_at_start = os.getcwd()
    tmpdir = tempfile.mkdtemp(prefix='rv-c12-')
    state = {'case': None, 'target': None, 'file': None, 'judged': False, 'refused': False}
    deduced = []
    tr = Tracer()

    def on_create_return(ev, trace):
        case, target = state['case'], state['target']
        if case is None:
            return
        if expected_exception(ctx, case, ev.exc):
            state['refused'] = state['refused'] or bool(case.get('may_refuse'))
            return
        state['judged'] = True
        try:
            buf = b'' if ev.exc is not None else read_target(target)
        except OSError as e:
            ctx.violation('no_file', f'create returned but the file cannot be read: {e}',
                          case_summary(case), mechanism='no_file')
            return
        if case.get('_not_here') and os.path.lexists(case['_not_here']):
            ctx.violation('file_at_other_location', 'a file appeared where the lexically normalised name points '
                          '(the name given resolves through a symbolic link to another directory)',
                          case_summary(case), mechanism='path_normalised')
        try:
            state['file'] = judge_structure(ctx, case, buf, trace, ev.exc)
        except Exception:  # noqa: BLE001
            ctx.oracle_error('C12 judge_structure')

    wt = WriterTrace(tr, S_build, S_low, on_create_return,
                     on_deduce=lambda ev: deduced.append(getattr(ev.result, 'value', str(ev.result))))
    ctx.extra['hooked'] = wt.hooked
    ctx.extra['exhaustive'] = True  # all 326 builder programs are run in both tiers
    seen_programs = set()
    try:
        with tr:
            for it in items:
                orders_seen = []
                session = {}
                for case0 in it['cases']:
                    rng = np.random.Generator(np.random.PCG64(case0['vseed']))
                    spec = gen_spec(rng, case0)
                    case0, spec = continue_from(session, case0, spec)
                    models = build_models(S, sc, spec, case0.get('calls', case0['program']), case0)
                    describe_rows(case0, spec)
                    for case in case_reps(case0):
                        spec = mutated(sc, case, spec, models)
                        target = open_target(case, tmpdir, rng, session)
                        state.update(case=case, target=target, file=None, judged=False, refused=False)
                        before = ctx.n_violations
                        try:
                            run_program(S, case, spec, models, target, session if case.get('reuse_path') else None,
                                        ctx)
                        except Exception as e:  # noqa: BLE001  (create: judged by the monitor, PY_UNWIND)
                            if state['refused']:
                                pass
                            elif not state['judged'] and case.get('may_refuse') and isinstance(e, REFUSAL):
                                ctx.count('refusal:' + case['may_refuse'])
                                state['refused'] = True
                            elif not state['judged']:
                                # a valid builder program did not get as far as create()
                                ctx.violation('builder_raised', f'{type(e).__name__}: {str(e)[:200]} (before create)',
                                              case_summary(case), exception=type(e).__name__)
                        f = state['file']
                        if state['refused']:
                            pass
                        elif state['judged']:
                            judge_reopen(ctx, S, case, target, f, deduced)
                        else:
                            ctx.count('create_not_observed')
                        state['case'] = None
                        if not case.get('rep'):
                            orders_seen.append((case, f.names() if f is not None and not f.bat_error
                                                and not f.header_error else None))
                        close_case(session, case, spec, target, f)
                        hit_forced(ctx, case, spec)
                        ctx.case(signature(case, spec),
                                 trivial=(not case['program'] and case['byteorder'] == 'native'
                                          and case.get('existing') is None))
                        if it['kind'] == 'perm_group':
                            key = tuple(case['program'])
                            if key not in seen_programs:
                                seen_programs.add(key)
                                ctx.count('programs_run')
                        if ctx.n_violations > before or (it['item'] % 97 == 0 and case0 is it['cases'][0]):
                            ctx.sample(case_summary(case))
                        state.update(target=None, file=None)
                        del target, f
                    del spec, models
                close_item(session)
                if it['kind'] == 'perm_group' and len(it['cases']) > 1:
                    judge_group(ctx, it['cases'], orders_seen)
        if shard['part'] == FRESH_SHARD % shard['of']:
            try:
                fresh_interpreter(ctx, tmpdir, int(shard.get('seed', 0)))
            except Exception:  # noqa: BLE001
                ctx.oracle_error('C12 fresh_interpreter')
    finally:
        os.chdir(cwd_at_start)
        shutil.rmtree(tmpdir, ignore_errors=True)
    if _SUBCLASSES:
        ctx.count('model_subclass:override_calls', _SUBCLASSES['calls']['n'])


# ------------------------------------------------------------ known findings ---
def _mech(v):
    return (v.get('keys') or {}).get('mechanism')


FINDING_PREDICATES = {
    # _PixWrap.write iterates range(0, n_rows, chunk) instead of over the pixel count
    'sqw.writer.pix_chunk_loop_bound': lambda v: v['kind'] == 'pix_block_incomplete'
    and _mech(v) == 'pix_chunk_loop_bound',
    # char-array shape / length written as number of characters, bytes written are UTF-8
    'sqw.writer.string_length_in_characters': lambda v: v['kind'] in ('data_block_incomplete', 'data_block_size')
    and _mech(v) == 'string_length_in_characters',
    # SqwBuilder._make_pix_metadata: np.vstack of the per-row (min, max) keeps the dtype of the rows;
    # when every selected row is float32 (or int32) data_range has 4-byte items under the f64 tag
    'sqw.writer.pix_data_range_dtype': lambda v: v['kind'] in ('data_block_incomplete', 'data_block_size')
    and _mech(v) == 'f64_tag_4_byte_items' and (v.get('keys') or {}).get('block') == 'pix/metadata'
    and (v.get('keys') or {}).get('field') == 'data_range',
}


# strict-caller variant shard of the runner (numpy floating-point events raise while package code runs): on the
# unchanged tree the float32 cast of pixel values beyond / below the float32 range overflows / underflows (the stored value is the IEEE result);
# these benign events are therefore not trapped for this property
STRICT_NUMPY = {'under': 'ignore', 'over': 'ignore'}
