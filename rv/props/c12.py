"""C12 Every SQW file written is a structurally complete, self-consistent container.

Artefact monitor: the return of ``SqwBuilder.create`` is observed (sys.monitoring on
the code object); the bytes of the file that was just produced are decoded by the
independent container decoder ``rv.oracle.sqwdec`` and judged against the property:
header literal, byte order re-deduced on re-opening, block allocation table (unique
names, expected block set, order independent of the order of builder calls), extents
tiling the file from the end of the table to end-of-file, every extent decoding
completely as a block of its declared type.

History monitor (diagnosis): ``_PixWrap.write/size``, ``_DndPlaceholder.write/size``,
``LowLevelSqw.write_raw/write_array`` and ``_serialize_block_allocation_table`` are
traced, giving the bytes actually written per block next to the declared size; the
mechanism of a byte-level failure is derived from that trace.

This module also holds the SQW workload shared with C13 (cases, supplied values,
driver).
"""

from __future__ import annotations

import io
import itertools
import math
import os
import shutil
import sys
import tempfile

import numpy as np

from rv.oracle import sqwdec as D
from rv.trace import Tracer

ID = 'C12'
LEVEL = 'exploration'
RULE = (
    'case = one builder program (ordered subset of {add_pixel_data, add_default_instrument, '
    'add_default_sample, add_empty_dnd_data, add_empty_detector_params}) x byte order x pixel '
    'count x chunk size x number of runs x energy mode x string class x target (BytesIO / real '
    'file); every ordered subset is run (all 326; thorough: in all three byte orders), plus a '
    'pixel-count x chunk-size grid, a 1..20 run sweep and a string sweep (length 0..5000, 1-4 '
    'byte UTF-8). distinct = distinct (program set, length, byte order, pixel class, chunk '
    'relation, runs class, mode, string class, target) signatures; the empty program in native '
    'order is the only trivial one'
)
ASSUMPTIONS = [
    'the container layout is the one in docs/developer/file-formats/sqw.md; struct / object '
    'array / self-serialising objects (TODO in that document) follow the Horace serialiser '
    'layout as implemented by rv/oracle/sqwdec.py',
    'the size field of the block allocation table counts the bytes after itself (length-prefix '
    'convention, as Horace computes blocks_start = position + 4 + bat_bin_size)',
    'a character occupies one byte in a char array (the document: c_i :uint8), so a length or '
    'shape field of a char array counts bytes',
]
TECHNIQUE = ('runtime artefact monitor on SqwBuilder.create (sys.monitoring) + independent SQW '
             'container decoder; per-block bytes-written trace of the writer as diagnosis')
LEVEL_TEXT = ('exploration: every file produced by all 326 builder programs (x byte orders), a pixel-count '
              'x chunk-size grid, run and string sweeps, in memory and on disk, is decoded byte by byte '
              'by an independent decoder and judged against the container rules of the property; held '
              'on the files produced, exhaustive only over the finite set of builder programs')
LEVEL_NOTE = ('trusted: the independent decoder rv/oracle/sqwdec.py (format as documented + Horace '
              'serialiser layout), numpy/struct byte unpacking, scipp as container of the inputs')
DESIGN_REF = 'DESIGN.md section 4, C12'
TIMEOUT_S = {'quick': 900, 'thorough': 3 * 3600}

# ------------------------------------------------------------------ workload ---
CALLS = ('pix', 'inst', 'samp', 'dnd', 'det')
CALL_NAMES = {
    'pix': 'add_pixel_data', 'inst': 'add_default_instrument', 'samp': 'add_default_sample',
    'dnd': 'add_empty_dnd_data', 'det': 'add_empty_detector_params',
}
ROWS = ('u1', 'u2', 'u3', 'u4', 'irun', 'idet', 'ien', 'signal', 'error')
ROW_UNITS = ('1/angstrom', '1/angstrom', '1/angstrom', 'meV', None, None, None, 'count', 'count**2')
ROW_INPUT_UNITS = {
    'u1': ('1/angstrom', '1/nm'), 'u2': ('1/angstrom', '1/nm'), 'u3': ('1/angstrom', '1/nm'),
    'u4': ('meV', 'ueV', 'eV'),
}
EN_UNITS = ('meV', 'ueV', 'eV')
ANGLE_UNITS = ('rad', 'deg')
NATIVE = sys.byteorder

# blocks each builder call must contribute (docs: "Data Blocks" table)
BLOCKS_OF_CALL = {
    'pix': [('experiment_info', 'expdata'), ('pix', 'metadata'), ('pix', 'data_wrap')],
    'inst': [('experiment_info', 'instruments')],
    'samp': [('experiment_info', 'samples')],
    'dnd': [('data', 'metadata'), ('data', 'nd_data')],
    'det': [('', 'detpar')],
}
BLOCK_TYPE_OF = {('pix', 'data_wrap'): 'pix_data_block', ('data', 'nd_data'): 'dnd_data_block'}

ALPHABETS = {
    'ascii': [chr(c) for c in range(0x20, 0x7F)],
    'latin': list('äöüßéñÅØ'),          # 2-byte UTF-8
    'cjk': list('中文データ測定'),                  # 3-byte
    'astral': ['\U0001d11e', '\U00010348', '\U0001f600', '\U0002070e'],          # 4-byte
}


def all_programs():
    """Every ordered subset of the five builder calls (326 programs)."""
    out = []
    for k in range(len(CALLS) + 1):
        for sub in itertools.combinations(CALLS, k):
            out.extend(itertools.permutations(sub))
    return out


def resolved(bo: str) -> str:
    return NATIVE if bo == 'native' else bo


def gen_string(rng, length: int, alphabet: str, path_safe: bool = False) -> str:
    if length == 0:
        return ''
    if alphabet == 'mixed':
        pool = ALPHABETS['ascii'] + ALPHABETS['latin'] + ALPHABETS['cjk'] + ALPHABETS['astral']
    else:
        pool = ALPHABETS[alphabet]
    if path_safe:
        pool = [c for c in pool if c not in '/\\\0']
    idx = rng.integers(0, len(pool), size=length)
    s = ''.join(pool[i] for i in idx)
    if alphabet != 'ascii' and all(ord(c) < 128 for c in s):
        s = ALPHABETS['latin'][0] + s[1:]
    return s


STRING_FIELDS = ('title', 'exp_filename', 'exp_filepath', 'label', 'sample_name', 'inst_name',
                 'source_name', 'axes_title', 'proj_title')


def _f32_exact(rng, n):
    return (rng.integers(-2**23, 2**23, size=n).astype(np.float64)
            * 2.0 ** rng.integers(-20, 20, size=n))


def _f32_halfway(rng, n):
    a = np.abs(_f32_exact(rng, n)).astype(np.float32) + np.float32(1.0)
    b = np.nextafter(a, np.float32(np.inf))
    return (a.astype(np.float64) + b.astype(np.float64)) / 2.0 * rng.choice([-1.0, 1.0], size=n)


def gen_row_values(rng, n, dtype, value_class):
    """Row values (numpy) of one pixel row; forced classes first when they fit."""
    if dtype in ('int64', 'int32'):
        hi = 2**20 if value_class != 'wide' or dtype == 'int32' else 2**40
        return rng.integers(0, hi, size=n).astype(dtype)
    mag = 10.0 ** rng.uniform(-30, 29, size=n) if value_class == 'wide' else \
        10.0 ** rng.uniform(-3, 3, size=n)
    v = mag * rng.choice([-1.0, 1.0], size=n)
    forced = np.concatenate([
        [0.0, -0.0, 5e-324, -5e-324, 1e-40, -3e-42, 1.0, -2.5],
        _f32_exact(rng, 4), _f32_halfway(rng, 4),
    ])
    k = min(n, len(forced))
    if value_class != 'plain' and k:
        pos = rng.permutation(n)[:k]
        v[pos] = forced[rng.permutation(len(forced))[:k]]
    if dtype == 'float32':
        v = v.astype(np.float32)
    return v


def gen_spec(rng, case) -> dict:
    """Everything that is supplied to the builder, as plain numbers / strings."""
    n = case['npix']
    runs = case['nruns']
    sclass = case['string']
    long_field = sclass['field']

    def s(field, default_len=None, path_safe=False):
        if field == long_field:
            return gen_string(rng, sclass['length'], sclass['alphabet'], path_safe)
        ln = int(rng.integers(0, 12)) if default_len is None else default_len
        return gen_string(rng, ln, 'ascii', path_safe)

    spec = {'title': s('title')}
    vclass = case['values']
    # ---- pixels
    rows = {}
    for name in ('u1', 'u2', 'u3', 'u4'):
        dt = 'float32' if rng.random() < 0.2 else 'float64'
        unit = ROW_UNITS[ROWS.index(name)] if dt == 'float32' else \
            ROW_INPUT_UNITS[name][rng.integers(0, len(ROW_INPUT_UNITS[name]))]
        rows[name] = {'values': gen_row_values(rng, n, dt, vclass), 'unit': unit, 'dtype': dt}
    for name in ('irun', 'idet', 'ien'):
        dt = ('int64', 'int32', 'float64')[rng.integers(0, 3)]
        if dt == 'float64':
            vals = rng.integers(0, 2**20, size=n).astype(np.float64)
        else:
            vals = gen_row_values(rng, n, dt, vclass)
        if name == 'irun':
            vals = (vals % max(runs, 1)).astype(vals.dtype)
        rows[name] = {'values': vals, 'unit': None, 'dtype': dt}
    dt = 'float32' if rng.random() < 0.25 else 'float64'
    rows['signal'] = {'values': gen_row_values(rng, n, dt, vclass), 'unit': 'count', 'dtype': dt}
    rows['error'] = {'values': np.abs(gen_row_values(rng, n, dt, vclass)), 'unit': 'count**2',
                     'dtype': dt}
    spec['pix'] = {'n': n, 'rows': rows, 'explicit_rows': bool(rng.random() < 0.5), 'n_dims': 4}
    # ---- experiments
    exps = []
    for i in range(runs):
        mode = case['mode'] if case['mode'] != 'mixed' else ('direct', 'indirect')[i % 2]
        n_en = int(rng.integers(1, 7))
        eu = EN_UNITS[rng.integers(0, 3)]
        if mode == 'direct':
            efix = {'values': float(10.0 ** rng.uniform(-2, 3)), 'unit': EN_UNITS[rng.integers(0, 3)]}
            en = {'values': np.sort(rng.uniform(-50, 50, size=n_en)), 'unit': eu,
                  'dims': ['energy_transfer']}
        else:
            ndet = case.get('ndet') or int(rng.integers(2, 6))
            efix = {'values': 10.0 ** rng.uniform(-2, 3, size=ndet), 'unit': EN_UNITS[rng.integers(0, 3)]}
            vals = rng.uniform(-50, 50, size=(ndet, n_en))
            if rng.random() < 0.5:
                en = {'values': vals, 'unit': eu, 'dims': ['detector', 'energy_transfer']}
            else:
                en = {'values': np.ascontiguousarray(vals.T), 'unit': eu,
                      'dims': ['energy_transfer', 'detector']}
        ang = {}
        for a in ('psi', 'omega', 'dpsi', 'gl', 'gs'):
            u = ANGLE_UNITS[rng.integers(0, 2)]
            ang[a] = {'values': float(rng.uniform(-360, 360) if u == 'deg' else rng.uniform(-6.3, 6.3)),
                      'unit': u}
        exps.append({
            'run_id': i if case.get('run_ids', 'seq') == 'seq' else int(rng.integers(0, 10**6)),
            'efix': efix, 'emode': mode, 'en': en, **ang,
            'u': rng.uniform(-1, 1, size=3), 'v': rng.uniform(-1, 1, size=3),
            'filename': s('exp_filename') if i == 0 else gen_string(rng, int(rng.integers(0, 12)), 'ascii'),
            'filepath': s('exp_filepath') if i == 0 else gen_string(rng, int(rng.integers(0, 12)), 'ascii'),
        })
    spec['experiments'] = exps
    # ---- instrument / sample
    spec['instrument'] = {
        'name': s('inst_name'),
        'source': {'name': s('source_name'), 'target_name': gen_string(rng, int(rng.integers(0, 9)), 'ascii'),
                   'frequency': {'values': float(rng.uniform(1, 60)), 'unit': 'Hz'}},
    }
    lu = ('angstrom', 'nm')[rng.integers(0, 2)]
    au = ANGLE_UNITS[rng.integers(0, 2)]
    spec['sample'] = {
        'name': s('sample_name'),
        'alatt': {'values': rng.uniform(2, 12, size=3) * (0.1 if lu == 'nm' else 1.0), 'unit': lu},
        'angdeg': {'values': rng.uniform(60, 120, size=3) if au == 'deg' else rng.uniform(1.0, 2.1, size=3),
                   'unit': au},
    }
    # ---- dnd metadata
    qunits = [('1/angstrom', '1/nm')[rng.integers(0, 2)] for _ in range(3)] + [EN_UNITS[rng.integers(0, 3)]]
    hi = 4 if case.get('tier', 'quick') == 'quick' else 9
    nbins = [int(x) for x in rng.integers(1, hi, size=4)]
    lu = ('angstrom', 'nm')[rng.integers(0, 2)]
    au = ANGLE_UNITS[rng.integers(0, 2)]
    vu = ('1/angstrom', '1/nm')
    spec['dnd'] = {
        'axes': {
            'title': s('axes_title'),
            'label': [s('label') if j == 1 else gen_string(rng, int(rng.integers(0, 6)), 'ascii')
                      for j in range(4)],
            'img_scales': [{'values': float(rng.uniform(0.1, 3)), 'unit': u} for u in qunits],
            'img_range': [{'values': np.sort(rng.uniform(-5, 5, size=2)), 'unit': u} for u in qunits],
            'n_bins_all_dims': nbins,
            'single_bin_defines_iax': [bool(b) for b in rng.integers(0, 2, size=4)],
            'dax': [int(x) for x in rng.permutation(4)],
            'offset': [{'values': float(rng.uniform(-1, 1)), 'unit': u} for u in qunits],
            'changes_aspect_ratio': bool(rng.integers(0, 2)),
        },
        'proj': {
            'alatt': {'values': rng.uniform(2, 12, size=3) * (0.1 if lu == 'nm' else 1.0), 'unit': lu},
            'angdeg': {'values': rng.uniform(60, 120, size=3) if au == 'deg' else rng.uniform(1.0, 2.1, size=3),
                       'unit': au},
            'offset': [{'values': float(rng.uniform(-1, 1)), 'unit': u} for u in qunits],
            'title': s('proj_title'),
            'label': [gen_string(rng, int(rng.integers(0, 6)), 'ascii') for _ in range(4)],
            'u': {'values': rng.uniform(-1, 1, size=3), 'unit': vu[rng.integers(0, 2)]},
            'v': {'values': rng.uniform(-1, 1, size=3), 'unit': vu[rng.integers(0, 2)]},
            'w': None if rng.random() < 0.5 else {'values': rng.uniform(-1, 1, size=3),
                                                  'unit': vu[rng.integers(0, 2)]},
            'non_orthogonal': bool(rng.integers(0, 2)),
            'type': 'aaa',
        },
    }
    return spec


def build_models(S, sc, spec, program):
    """scipp / scippneutron input objects from the plain spec (inputs, not expectations)."""
    m = {}
    if 'pix' in program:
        rows = spec['pix']['rows']
        sig, err = rows['signal'], rows['error']
        coords = {
            k: sc.array(dims=['obs'], values=r['values'], unit=r['unit'], dtype=r['dtype'])
            for k, r in rows.items() if k not in ('signal', 'error')
        }
        data = sc.array(dims=['obs'], values=sig['values'], variances=err['values'],
                        unit=sig['unit'], dtype=sig['dtype'])
        m['pix'] = sc.DataArray(data, coords=coords)
        exps = []
        for e in spec['experiments']:
            if e['emode'] == 'direct':
                efix = sc.scalar(e['efix']['values'], unit=e['efix']['unit'])
            else:
                efix = sc.array(dims=['detector'], values=e['efix']['values'], unit=e['efix']['unit'])
            exps.append(S.SqwIXExperiment(
                run_id=e['run_id'], efix=efix, emode=S.EnergyMode[e['emode']],
                en=sc.array(dims=e['en']['dims'], values=e['en']['values'], unit=e['en']['unit']),
                psi=sc.scalar(e['psi']['values'], unit=e['psi']['unit']),
                u=sc.vector(e['u']), v=sc.vector(e['v']),
                omega=sc.scalar(e['omega']['values'], unit=e['omega']['unit']),
                dpsi=sc.scalar(e['dpsi']['values'], unit=e['dpsi']['unit']),
                gl=sc.scalar(e['gl']['values'], unit=e['gl']['unit']),
                gs=sc.scalar(e['gs']['values'], unit=e['gs']['unit']),
                filename=e['filename'], filepath=e['filepath']))
        m['experiments'] = exps
    if 'inst' in program:
        i = spec['instrument']
        m['inst'] = S.SqwIXNullInstrument(
            name=i['name'],
            source=S.SqwIXSource(name=i['source']['name'], target_name=i['source']['target_name'],
                                 frequency=sc.scalar(i['source']['frequency']['values'],
                                                     unit=i['source']['frequency']['unit'])))
    if 'samp' in program:
        s = spec['sample']
        m['samp'] = S.SqwIXSample(
            name=s['name'],
            lattice_spacing=sc.vector(s['alatt']['values'], unit=s['alatt']['unit']),
            lattice_angle=sc.vector(s['angdeg']['values'], unit=s['angdeg']['unit']))
    if 'dnd' in program:
        a, p = spec['dnd']['axes'], spec['dnd']['proj']

        def scal(x):
            return sc.scalar(x['values'], unit=x['unit'])

        m['dnd'] = S.SqwDndMetadata(
            axes=S.SqwLineAxes(
                title=a['title'], label=list(a['label']),
                img_scales=[scal(x) for x in a['img_scales']],
                img_range=[sc.array(dims=['range'], values=x['values'], unit=x['unit'])
                           for x in a['img_range']],
                n_bins_all_dims=sc.array(dims=['axis'], values=a['n_bins_all_dims'], unit=None,
                                         dtype='int64'),
                single_bin_defines_iax=sc.array(dims=['axis'], values=a['single_bin_defines_iax']),
                dax=sc.array(dims=['axis'], values=a['dax'], unit=None, dtype='int64'),
                offset=[scal(x) for x in a['offset']],
                changes_aspect_ratio=a['changes_aspect_ratio']),
            proj=S.SqwLineProj(
                lattice_spacing=sc.vector(p['alatt']['values'], unit=p['alatt']['unit']),
                lattice_angle=sc.vector(p['angdeg']['values'], unit=p['angdeg']['unit']),
                offset=[scal(x) for x in p['offset']],
                title=p['title'], label=list(p['label']),
                u=sc.vector(p['u']['values'], unit=p['u']['unit']),
                v=sc.vector(p['v']['values'], unit=p['v']['unit']),
                w=None if p['w'] is None else sc.vector(p['w']['values'], unit=p['w']['unit']),
                non_orthogonal=p['non_orthogonal'], type=p['type']))
    return m


def run_program(S, case, spec, models, target):
    """Drive the real builder: the program of ``case`` followed by create()."""
    b = S.Sqw.build(target, title=spec['title'], byteorder=case['byteorder'])
    for call in case['program']:
        if call == 'pix':
            kw = {}
            if spec['pix']['explicit_rows']:
                kw = {'rows': ROWS, 'row_units': ROW_UNITS, 'n_dims': spec['pix']['n_dims']}
            b = b.add_pixel_data(models['pix'], experiments=models['experiments'], **kw)
        elif call == 'inst':
            b = b.add_default_instrument(models['inst'])
        elif call == 'samp':
            b = b.add_default_sample(models['samp'])
        elif call == 'dnd':
            b = b.add_empty_dnd_data(models['dnd'])
        elif call == 'det':
            b = b.add_empty_detector_params()
    if case['chunk'] is None:
        return b.create()
    return b.create(chunk_size=case['chunk'])


# ---------------------------------------------------------------- case lists ---
def _base_case(**kw):
    c = {'program': list(CALLS), 'byteorder': 'little', 'npix': 5, 'chunk': None, 'nruns': 2,
         'mode': 'direct', 'string': {'field': 'title', 'alphabet': 'ascii', 'length': 8},
         'target': 'bytesio', 'values': 'forced', 'run_ids': 'seq', 'path': 'plain'}
    c.update(kw)
    return c


def chunk_grid(n, big=False):
    cs = {1, 2, 3, 8, 9, 10, n - 1, n, n + 1, 8192}
    if big:
        cs.add(100000)
    return sorted(c for c in cs if c >= 1)


def make_items(tier: str, seed: int) -> list[dict]:
    """Work items; an item is a list of cases judged together (a permutation group or a
    single case).  Deterministic in (tier, seed)."""
    rng = np.random.Generator(np.random.PCG64([seed, 12, 0]))
    thorough = tier == 'thorough'
    items = []
    orders = ('native', 'little', 'big')
    # (A) every ordered subset of the builder calls, grouped by call set
    k = 0
    for size in range(len(CALLS) + 1):
        for sub in itertools.combinations(CALLS, size):
            perms = [list(p) for p in itertools.permutations(sub)]
            bos = orders if thorough else (orders[(k + seed) % 3],)
            if not thorough and size == len(CALLS):
                bos = orders  # the full-length programs in all byte orders
            for bo in bos:
                base = {
                    'npix': int(rng.choice([0, 1, 5, 9, 10, 23])), 'nruns': int(rng.integers(1, 5)),
                    'mode': ('direct', 'indirect')[int(rng.integers(0, 2))],
                    'target': ('bytesio', 'file')[int(rng.integers(0, 2))],
                    'chunk': [None, 1, 4, 16][int(rng.integers(0, 4))],
                    'string': {'field': STRING_FIELDS[int(rng.integers(0, len(STRING_FIELDS)))],
                               'alphabet': 'ascii', 'length': int(rng.integers(0, 40))},
                }
                items.append({'kind': 'perm_group', 'cases': [
                    _base_case(program=p, byteorder=bo, **base) for p in perms]})
            k += 1
    # (B) pixel count x chunk size grid
    counts = [0, 1, 8, 9, 10, 20, 100, 8191, 8192, 8193] + ([10000, 100000] if thorough else [10000])
    for n in counts:
        for c in chunk_grid(n, big=thorough):
            if not thorough and n >= 8191 and c in (2, 3, 10):
                continue  # kept for the thorough tier (cost once the loop is repaired)
            prog = [x for x in CALLS if x == 'pix' or rng.random() < 0.5]
            prog = [prog[i] for i in rng.permutation(len(prog))]
            bos = orders if thorough else (orders[int(rng.integers(0, 3))],)
            for bo in bos:
                items.append({'kind': 'single', 'cases': [_base_case(
                    program=prog, byteorder=bo, npix=n, chunk=c,
                    nruns=int(rng.integers(1, 4)),
                    target='file' if rng.random() < 0.3 else 'bytesio',
                    values='wide' if rng.random() < 0.5 else 'forced')]})
    for n in (7, 10000) if not thorough else (7, 50, 10000, 20000):
        items.append({'kind': 'single', 'cases': [_base_case(npix=n, chunk=None, program=['pix'])]})
    # (C) 1..20 runs, direct / indirect / mixed
    for runs in range(1, 21):
        modes = ('direct', 'indirect', 'mixed') if thorough else (('direct', 'indirect', 'mixed')[runs % 3],
                                                                 'indirect' if runs in (1, 20) else 'direct')
        for mode in dict.fromkeys(modes):
            items.append({'kind': 'single', 'cases': [_base_case(
                nruns=runs, mode=mode, byteorder=orders[int(rng.integers(0, 3))],
                program=[CALLS[i] for i in rng.permutation(5)],
                run_ids='seq' if rng.random() < 0.7 else 'random',
                ndet=1 if (mode == 'indirect' and runs == 7) else None,
                target='file' if rng.random() < 0.3 else 'bytesio')]})
    # (D) strings: length 0..5000, 1..4 byte characters, every string-bearing field
    lengths = [0, 1, 2, 13, 255, 256, 1000, 5000] if not thorough else \
        [0, 1, 2, 3, 7, 13, 64, 255, 256, 257, 1000, 4095, 4096, 5000]
    for alphabet in ('ascii', 'latin', 'cjk', 'astral', 'mixed'):
        for ln in lengths:
            fields = STRING_FIELDS if (thorough or ln in (13, 5000)) else \
                (STRING_FIELDS[int(rng.integers(0, len(STRING_FIELDS)))],)
            for fld in fields:
                if alphabet != 'ascii' and ln == 0:
                    continue
                items.append({'kind': 'single', 'cases': [_base_case(
                    string={'field': fld, 'alphabet': alphabet, 'length': ln},
                    byteorder=orders[int(rng.integers(0, 3))],
                    program=[CALLS[i] for i in rng.permutation(5)],
                    target='bytesio')]})
    # (E) real files: plain / deep / long / non-ASCII path
    for pathkind in ('plain', 'deep', 'long', 'nonascii', 'nonascii_dir'):
        for bo in orders:
            items.append({'kind': 'single', 'cases': [_base_case(
                target='file', path=pathkind, byteorder=bo,
                program=[CALLS[i] for i in rng.permutation(5)],
                npix=int(rng.choice([0, 3, 50])))]})
    # (F) random mixtures
    for _ in range(60 if not thorough else 4000):
        prog = [x for x in CALLS if rng.random() < 0.7]
        prog = [prog[i] for i in rng.permutation(len(prog))]
        n = int(rng.choice([0, 1, 2, 5, 9, 10, 11, 17, 64, 300, 1000]))
        items.append({'kind': 'single', 'cases': [_base_case(
            program=prog, byteorder=orders[int(rng.integers(0, 3))], npix=n,
            chunk=[None, 1, 2, 3, 8, 9, 10, max(n - 1, 1), max(n, 1), n + 1, 8192][int(rng.integers(0, 11))],
            nruns=int(rng.integers(1, 21)) if rng.random() < 0.3 else int(rng.integers(1, 4)),
            mode=('direct', 'indirect', 'mixed')[int(rng.integers(0, 3))],
            string={'field': STRING_FIELDS[int(rng.integers(0, len(STRING_FIELDS)))],
                    'alphabet': ('ascii', 'ascii', 'latin', 'cjk', 'astral', 'mixed')[int(rng.integers(0, 6))],
                    'length': int(rng.choice([0, 1, 5, 30, 300]))},
            target='file' if rng.random() < 0.3 else 'bytesio',
            path=('plain', 'nonascii')[int(rng.integers(0, 2))],
            values=('forced', 'wide', 'plain')[int(rng.integers(0, 3))],
            run_ids='seq' if rng.random() < 0.7 else 'random')]})
    for i, it in enumerate(items):
        it['item'] = i
        for j, c in enumerate(it['cases']):
            c['vseed'] = [seed, 12, i, j if it['kind'] == 'single' else 0]
            c['tier'] = tier
    return items


N_SHARDS = 16


def plan(tier, seed):
    return [{'part': i, 'of': N_SHARDS} for i in range(N_SHARDS)]


def items_of_shard(shard):
    items = make_items(shard.get('tier', 'quick'), int(shard.get('seed', 0)))
    # cost-balanced assignment: heavy items (many pixels x small chunks, large groups) first
    def cost(it):
        c = 0.0
        for cs in it['cases']:
            ch = cs['chunk'] or 8192
            c += 1.0 + cs['npix'] / 2000.0 + 10.0 * math.ceil(cs['npix'] / ch) / 1000.0
        return c
    order = sorted(range(len(items)), key=lambda i: (-cost(items[i]), i))
    mine = [items[i] for k, i in enumerate(order) if k % shard['of'] == shard['part']]
    return sorted(mine, key=lambda it: it['item'])


def target_for(case, tmpdir, rng):
    """BytesIO or a fresh path under the shard's temp directory."""
    if case['target'] == 'bytesio':
        return io.BytesIO()
    kind = case.get('path', 'plain')
    tag = '-'.join(str(x) for x in case['vseed'])
    if kind == 'plain':
        d, name = tmpdir, f'f{tag}.sqw'
    elif kind == 'deep':
        d = os.path.join(tmpdir, *[f'd{tag}_{i}' for i in range(12)])
        name = 'file.sqw'
    elif kind == 'long':
        d = os.path.join(tmpdir, *[gen_string(rng, 200, 'ascii', True).replace(' ', '_').replace('.', '_')
                                   + str(i) for i in range(3)])
        name = gen_string(rng, 180, 'ascii', True).replace(' ', '_').replace('.', '_') + tag + '.sqw'
    elif kind == 'nonascii':
        d, name = tmpdir, gen_string(rng, 20, 'mixed', True).replace(' ', '_') + tag + '.sqw'
    else:
        d = os.path.join(tmpdir, gen_string(rng, 12, 'cjk', True) + tag)
        name = 'f.sqw'
    os.makedirs(d, exist_ok=True)
    return os.path.join(d, name)


def read_target(target) -> bytes:
    if isinstance(target, io.BytesIO):
        return target.getvalue()
    with open(target, 'rb') as f:
        return f.read()


def expected_names(program) -> set:
    names = {('', 'main_header')}
    for c in program:
        names.update(BLOCKS_OF_CALL[c])
    return names


def chunk_relation(case):
    n, c = case['npix'], case['chunk']
    if 'pix' not in case['program']:
        return 'no-pix'
    if c is None:
        c = 8192
    rel = 'c<9' if c < 9 else 'c=9' if c == 9 else 'c>9'
    rel += ',c<n' if c < n else ',c=n' if c == n else ',c>n'
    return rel


def signature(case):
    n = case['npix']
    ncls = '0' if n == 0 else '1' if n == 1 else '<=9' if n <= 9 else '<=100' if n <= 100 else \
        '<=8192' if n <= 8192 else '>8192'
    r = case['nruns']
    s = case['string']
    scls = (s['field'], s['alphabet'], '0' if s['length'] == 0 else '<256' if s['length'] < 256 else
            '<5000' if s['length'] < 5000 else '5000')
    return (','.join(sorted(case['program'])), len(case['program']), case['byteorder'], ncls,
            chunk_relation(case), '1' if r == 1 else '<=4' if r <= 4 else '<20' if r < 20 else '20',
            case['mode'], scls, case['target'] + ':' + case.get('path', 'plain'))


def case_summary(case):
    return {k: case[k] for k in ('program', 'byteorder', 'npix', 'chunk', 'nruns', 'mode', 'string',
                                 'target', 'path', 'values', 'run_ids', 'vseed') if k in case}


def hit_forced(ctx, case):
    n, c = case['npix'], case['chunk']
    has_pix = 'pix' in case['program']
    if has_pix:
        cc = 8192 if c is None else c
        if cc > n:
            ctx.hit('chunk>npix')
        if cc == n:
            ctx.hit('chunk==npix')
        if cc < n:
            ctx.hit('chunk<npix')
        if cc < 9:
            ctx.hit('chunk<rows')
        if cc < n and math.ceil(9 / cc) * cc < n:
            ctx.hit('chunks*ceil(rows/chunk)<npix')
        if n == 0:
            ctx.hit('npix==0')
        if n > 8192:
            ctx.hit('npix>8192')
        if case['nruns'] == 20:
            ctx.hit('runs==20')
        if case['nruns'] == 1:
            ctx.hit('runs==1')
        if case['mode'] != 'direct':
            ctx.hit('indirect')
    s = case['string']
    if s['alphabet'] != 'ascii' and s['length'] > 0:
        ctx.hit('non_ascii_string')
    if s['length'] == 0:
        ctx.hit('empty_string')
    if s['length'] >= 5000:
        ctx.hit('string_len>=5000')
    ctx.hit('target:' + case['target'])
    ctx.hit('byteorder:' + case['byteorder'])
    if case['target'] == 'file' and case.get('path') in ('nonascii', 'nonascii_dir'):
        ctx.hit('non_ascii_path')
    if len(case['program']) == 0:
        ctx.hit('empty_program')


FORCED = ['chunk>npix', 'chunk==npix', 'chunk<npix', 'chunk<rows', 'chunks*ceil(rows/chunk)<npix',
          'npix==0', 'npix>8192', 'runs==20', 'runs==1', 'indirect', 'non_ascii_string',
          'empty_string', 'string_len>=5000', 'target:bytesio', 'target:file', 'byteorder:native',
          'byteorder:little', 'byteorder:big', 'non_ascii_path', 'empty_program']


# ------------------------------------------------------------ writer trace ---
class WriterTrace:
    """Bytes actually written per block, from the writer's own call boundaries."""

    def __init__(self, tr: Tracer, S_build, S_low, on_create_return, on_deduce=None):
        self.cur = None
        self.on_create_return = on_create_return
        self.on_deduce = on_deduce
        self.hooked = []
        B = S_build
        w = self._w

        def watch(func, name, **kw):
            try:
                if tr.watch(func, name, **kw) is not None:
                    self.hooked.append(name)
            except (TypeError, AttributeError):
                pass

        watch(B.SqwBuilder.create, 'SqwBuilder.create', on_start=self._create_start,
              on_return=self._create_return)
        watch(getattr(B.SqwBuilder, '_serialize_block_allocation_table', None),
              '_serialize_block_allocation_table', on_return=self._bat_return)
        watch(getattr(B, '_write_data_block_descriptor', None), '_write_data_block_descriptor',
              on_return=lambda ev: self._count('descriptors'))
        watch(getattr(B._PixWrap, 'write', None), '_PixWrap.write', on_start=self._pix_start,
              on_return=self._pix_return)
        watch(getattr(B._DndPlaceholder, 'write', None), '_DndPlaceholder.write',
              on_start=self._pos_start, on_return=self._dnd_return)
        watch(getattr(B._PixWrap, 'size', None), '_PixWrap.size',
              on_return=lambda ev: self._note('pix_size', ev.result))
        watch(getattr(B._DndPlaceholder, 'size', None), '_DndPlaceholder.size',
              on_return=lambda ev: self._note('dnd_size', ev.result))
        watch(w(S_low.LowLevelSqw.write_raw), 'LowLevelSqw.write_raw', on_start=self._pos_start,
              on_return=self._raw_return)
        watch(w(S_low.LowLevelSqw.write_array), 'LowLevelSqw.write_array',
              on_return=self._array_return)
        watch(getattr(S_low, '_deduce_byteorder', None), '_deduce_byteorder',
              on_return=self._deduce_return)

    @staticmethod
    def _w(f):
        """The function behind the exception-annotating decorator (its own code object)."""
        return getattr(f, '__wrapped__', f)

    def _count(self, k):
        if self.cur is not None:
            self.cur[k] = self.cur.get(k, 0) + 1

    def _note(self, k, v):
        if self.cur is not None:
            self.cur[k] = v

    def _create_start(self, ev):
        self.cur = {'raw': [], 'pix': None, 'dnd': None, 'bat': None, 'in_pix': False,
                    'pix_chunks': [], 'chunk_size': ev.args.get('chunk_size')}

    def _create_return(self, ev):
        cur, self.cur = self.cur, None
        self.on_create_return(ev, cur)

    def _bat_return(self, ev):
        if self.cur is None or ev.exc is not None:
            return
        try:
            _, desc = ev.result
            self.cur['bat'] = {
                'offset': ev.args.get('bat_offset'),
                'descriptors': [(tuple(n), d.block_type.value, int(d.position), int(d.size))
                                for n, d in desc.items()],
            }
        except Exception:  # noqa: BLE001  (diagnosis only)
            self.cur['bat'] = None

    @staticmethod
    def _position(ev):
        io_ = ev.args.get('sqw_io', ev.args.get('self'))
        try:
            return int(io_.position)
        except Exception:  # noqa: BLE001
            return None

    def _pos_start(self, ev):
        return self._position(ev)

    def _pix_start(self, ev):
        if self.cur is not None:
            self.cur['in_pix'] = True
        return self._position(ev)

    def _pix_return(self, ev):
        if self.cur is None:
            return
        self.cur['in_pix'] = False
        me = ev.args.get('self')
        post = self._position(ev)
        try:
            rows, npix = int(me.n_rows()), int(me.n_pixels())
        except Exception:  # noqa: BLE001
            rows = npix = None
        self.cur['pix'] = {
            'start': ev.pre, 'written': None if ev.pre is None or post is None else post - ev.pre,
            'rows': rows, 'npix': npix, 'chunk_size': ev.args.get('chunk_size'),
            'chunk_writes': len(self.cur['pix_chunks']),
            'pixels_written': int(sum(self.cur['pix_chunks'])),
            'raised': None if ev.exc is None else type(ev.exc).__name__,
        }

    def _dnd_return(self, ev):
        if self.cur is None:
            return
        post = self._position(ev)
        self.cur['dnd'] = {'start': ev.pre,
                           'written': None if ev.pre is None or post is None else post - ev.pre}

    def _raw_return(self, ev):
        if self.cur is None:
            return
        post = self._position(ev)
        self.cur['raw'].append((ev.pre, None if ev.pre is None or post is None else post - ev.pre))

    def _array_return(self, ev):
        if self.cur is not None and self.cur.get('in_pix'):
            a = ev.args.get('array')
            self.cur['pix_chunks'].append(int(a.shape[0]) if hasattr(a, 'shape') and a.ndim else 0)

    def _deduce_return(self, ev):
        if ev.args.get('byteorder') is None and self.on_deduce is not None and ev.exc is None:
            self.on_deduce(ev)


def written_per_block(trace) -> dict:
    """name -> {declared, start, written} from the writer trace (None where not observed)."""
    out = {}
    if not trace or not trace.get('bat'):
        return out
    raws = list(trace['raw'][1:])  # the first raw write is the table itself
    for name, btype, pos, size in trace['bat']['descriptors']:
        rec = {'type': btype, 'declared_position': pos, 'declared_size': size, 'start': None,
               'written': None}
        if btype == 'data_block' and raws:
            rec['start'], rec['written'] = raws.pop(0)
        elif btype == 'pix_data_block' and trace.get('pix'):
            rec['start'], rec['written'] = trace['pix']['start'], trace['pix']['written']
        elif btype == 'dnd_data_block' and trace.get('dnd'):
            rec['start'], rec['written'] = trace['dnd']['start'], trace['dnd']['written']
        out['/'.join(name)] = rec
    return out


def pix_mechanism(trace):
    """Why the pixel block is not what the table declares, from the observed write loop."""
    p = (trace or {}).get('pix')
    if not p or p['rows'] is None or p['written'] is None:
        return 'unobserved'
    rows, npix, chunk = p['rows'], p['npix'], p['chunk_size']
    declared = (trace or {}).get('pix_size')
    want = 12 + 4 * rows * npix
    if declared is not None and declared != want:
        return 'pix_size_formula'
    if p['written'] == want:
        return 'none'
    if isinstance(chunk, int) and chunk >= 1 and p['pixels_written'] < npix:
        by_rows = math.ceil(rows / chunk)
        by_pix = math.ceil(npix / chunk)
        if by_rows != by_pix and p['chunk_writes'] == by_rows and \
                p['pixels_written'] == min(npix, by_rows * chunk):
            return 'pix_chunk_loop_bound'
        return 'pix_pixels_lost'
    return 'pix_bytes_written_ne_declared'


# ------------------------------------------------------ string diagnosis ---
def _walk_chars(node, path, out):
    if node.tag == 'char':
        for raw in node.value:
            out.append((path, node.shape[0] if node.shape else 0, raw))
    elif node.tag == 'cell':
        for i, v in enumerate(node.value):
            _walk_chars(v, f'{path}[{i}]', out)
    elif node.tag == 'struct':
        for i, s in enumerate(node.value):
            for k, v in s.items():
                _walk_chars(v, f'{path}.{k}' if len(node.value) == 1 else f'{path}[{i}].{k}', out)


def string_mechanism(buf, descriptor, bo):
    """Does the block decode completely when char lengths count characters, not bytes?"""
    alt = D.decode_block(buf, descriptor, bo, char_unit='utf8char')
    if not (alt.ok and alt.consumed == descriptor.size):
        return None
    chars = []
    _walk_chars(alt.value, '', chars)
    sites = [(p, n, len(raw)) for p, n, raw in chars if len(raw) != n]
    if not sites:
        return None
    in_cell = any('[' in p.rsplit('.', 1)[-1] for p, _, _ in sites)
    return {'mechanism': 'string_length_in_characters',
            'site': 'string_cell' if in_cell and len(sites) == 1 else 'scalar_string',
            'fields': [p for p, _, _ in sites][:4],
            'declared_chars_vs_bytes': [(n, b) for _, n, b in sites][:4]}


# ------------------------------------------------------------------ judging ---
def judge_structure(ctx, case, buf, trace, exc=None):
    """All container rules of C12 on one produced file.  Returns the decoded file."""
    bo = resolved(case['byteorder'])
    cs = case_summary(case)
    cs['file_length'] = len(buf)
    wpb = written_per_block(trace)
    if exc is not None:
        ctx.violation('create_raised', f'SqwBuilder.create raised {type(exc).__name__}: {exc}', cs,
                      exception=type(exc).__name__)
        return None
    # -- header literal
    has_pix = 'pix' in case['program']
    lit = D.header_literal(bo, 1, 4 if has_pix else 0)
    ctx.event('header')
    if buf[:len(lit)] != lit:
        other = 'big' if bo == 'little' else 'little'
        swapped = buf[:len(lit)] == D.header_literal(other, 1, 4 if has_pix else 0)
        ctx.violation('header', 'file does not begin with the horace 4.0 header in the byte order '
                      f'requested ({bo}): {bytes(buf[:26]).hex()}', cs,
                      mechanism='header_other_byteorder' if swapped else 'header_literal')
        if not swapped:
            return None
        bo = other
    f = D.decode_file(buf, bo)
    if f.header_error or f.bat_error:
        ctx.violation('bat_undecodable', f'allocation table does not decode: '
                      f'{f.header_error or f.bat_error}', cs, mechanism='bat')
        return f
    # -- table
    ctx.event('bat')
    names = f.names()
    cs['bat'] = [[list(d.name), d.block_type, d.position, d.size] for d in f.descriptors]
    if wpb:
        cs['writer_trace'] = wpb
    if f.bat_size_field != f.bat_end - (f.header_end + 4):
        ctx.violation('bat_size_field', f'table size field {f.bat_size_field} but the table occupies '
                      f'{f.bat_end - f.header_end - 4} bytes after it', cs, mechanism='bat_size_field')
    if len(set(names)) != len(names):
        ctx.violation('bat_duplicate', f'block listed more than once: {names}', cs, mechanism='bat_names')
    want = expected_names(case['program'])
    if set(names) != want:
        ctx.violation('bat_block_set', f'blocks {sorted(set(names) ^ want)} missing or unexpected', cs,
                      mechanism='bat_names')
    for d in f.descriptors:
        if d.block_type != BLOCK_TYPE_OF.get(d.name, 'data_block'):
            ctx.violation('bat_block_type', f'{d.name} declared as {d.block_type}', cs,
                          mechanism='bat_block_type')
        if d.locked != 0:
            ctx.violation('bat_locked', f'{d.name} left locked ({d.locked})', cs, mechanism='bat_locked')
    # -- extents
    ctx.event('extents')
    ext = sorted(f.descriptors, key=lambda d: (d.position, d.size))
    tiling_ok = True
    pos = f.bat_end
    for i, d in enumerate(ext):
        if d.position != pos:
            tiling_ok = False
            kind = 'extent_start' if i == 0 else 'extent_overlap' if d.position < pos else 'extent_gap'
            ctx.violation(kind, f'{d.name} starts at {d.position}, previous extent / table ends at {pos}',
                          cs, mechanism=kind, block_type=d.block_type)
            break
        pos = d.position + d.size
    file_end_ok = True
    if ext and tiling_ok and pos != len(buf):
        file_end_ok = False
    elif not ext and f.bat_end != len(buf):
        file_end_ok = False
        pos = f.bat_end
    # -- every extent decodes completely as its declared type
    ctx.event('blocks', len(f.block_list))
    reported_eof = False
    for b in f.block_list:
        d = b.descriptor
        if b.ok and b.consumed == d.size:
            continue
        keys = {'block_type': d.block_type, 'block': '/'.join(d.name)}
        diag = ''
        if d.block_type == 'pix_data_block':
            keys['mechanism'] = pix_mechanism(trace)
            if keys['mechanism'] == 'none':
                keys['mechanism'] = 'pix_extent'
        elif d.block_type == 'dnd_data_block':
            dn = (trace or {}).get('dnd')
            keys['mechanism'] = 'dnd_bytes_written_ne_declared' if dn and dn['written'] != d.size \
                else 'dnd_extent'
        else:
            sm = string_mechanism(buf, d, bo)
            if sm:
                keys['mechanism'], keys['site'] = sm['mechanism'], sm['site']
                diag = (f"; decodes completely if char lengths count characters: fields {sm['fields']} "
                        f"declare/occupy {sm['declared_chars_vs_bytes']} chars/bytes")
            else:
                keys['mechanism'] = 'data_block_extent'
        tr = wpb.get('/'.join(d.name))
        if tr:
            diag += f"; writer trace: {tr['written']} bytes written, {tr['declared_size']} declared"
        if d.block_type == 'pix_data_block' and (trace or {}).get('pix'):
            p = trace['pix']
            diag += (f"; {p['chunk_writes']} chunk writes of chunk_size={p['chunk_size']} put "
                     f"{p['pixels_written']} of {p['npix']} pixels")
        short = {'pix_data_block': 'pix_block', 'dnd_data_block': 'dnd_block'}.get(d.block_type, 'data_block')
        if not b.ok:
            ctx.violation(short + '_incomplete', f'{d.name} ({d.block_type}, extent {d.position}+{d.size}) '
                          f'does not decode: {b.error} at byte {b.error_offset}{diag}', cs, **keys)
        else:
            ctx.violation(short + '_size', f'{d.name} ({d.block_type}) decodes in {b.consumed} bytes, '
                          f'extent declares {d.size}{diag}', cs, **keys)
        if d.position + d.size > len(buf):
            reported_eof = True
    if not file_end_ok and not reported_eof:
        ctx.violation('extent_end', f'extents end at {pos}, file has {len(buf)} bytes', cs,
                      mechanism='extent_end_vs_eof')
    # -- writer trace next to the table (diagnosis, counted)
    for name, rec in wpb.items():
        if rec['written'] is not None:
            ctx.event('trace:' + rec['type'])
            ctx.dev('trace.|written-declared|.' + rec['type'], abs(rec['written'] - rec['declared_size']))
    return f


def judge_reopen(ctx, S, case, target, f, deduced):
    """Re-open with the package's reader: byte order, header and block names."""
    bo = resolved(case['byteorder'])
    cs = case_summary(case)
    deduced.clear()
    try:
        if isinstance(target, io.BytesIO):
            target.seek(0)
        with S.Sqw.open(target) as sqw:
            got_bo = sqw.byteorder.value
            hdr = sqw.file_header
            got_names = [tuple(n) for n in sqw.data_block_names()]
    except Exception as e:  # noqa: BLE001
        ctx.violation('reopen_raised', f'Sqw.open raised {type(e).__name__}: {e}', cs,
                      mechanism='reopen')
        return
    ctx.event('reopen')
    for ev_bo in deduced:
        ctx.event('trace:_deduce_byteorder')
        if ev_bo != bo:
            ctx.violation('reopen_byteorder', f'_deduce_byteorder returned {ev_bo}, file was written {bo}',
                          cs, mechanism='deduce_byteorder')
            return
    if got_bo != bo:
        ctx.violation('reopen_byteorder', f'Sqw.open reports {got_bo}, file was written {bo}', cs,
                      mechanism='deduce_byteorder')
        return
    if f is None or f.bat_error or f.header_error:
        return
    if (hdr.prog_name, hdr.prog_version, hdr.sqw_type.value, hdr.n_dims) != (
            'horace', 4.0, f.header['sqw_type'], f.header['n_dims']):
        ctx.violation('reopen_header', f'Sqw.open reports header {hdr}', cs, mechanism='reopen_header')
    if got_names != f.names():
        ctx.violation('reopen_names', f'Sqw.open lists {got_names}, table holds {f.names()}', cs,
                      mechanism='reopen_names')


def judge_group(ctx, group_cases, orders_seen):
    """BAT order must be one order for all permutations of the same call set."""
    ctx.event('perm_groups')
    ref = None
    for case, names in orders_seen:
        if names is None:
            continue
        if ref is None:
            ref = (case, names)
            continue
        if names != ref[1] and set(names) == set(ref[1]):
            ctx.violation(
                'bat_order_depends_on_call_order',
                f'program {case["program"]} lists {names}; program {ref[0]["program"]} lists {ref[1]}',
                {'a': case_summary(ref[0]), 'b': case_summary(case)}, mechanism='bat_order')
            return


# ------------------------------------------------------------------- driver ---
def requirements(tier):
    return {
        'events': {'header': 300, 'bat': 300, 'extents': 300, 'blocks': 1000, 'reopen': 300,
                   'perm_groups': 20, 'trace:pix_data_block': 100, 'trace:dnd_data_block': 100,
                   'trace:data_block': 500, 'trace:_deduce_byteorder': 300},
        'forced': FORCED,
        'counters': {'programs_run': 326},
    }


def run(shard, ctx):
    import scipp as sc
    from scippneutron.io import sqw as S
    from scippneutron.io.sqw import _build as S_build
    from scippneutron.io.sqw import _low_level_io as S_low

    items = items_of_shard(shard)
    tmpdir = tempfile.mkdtemp(prefix='rv-c12-')
    state = {'case': None, 'target': None, 'file': None, 'judged': False}
    deduced = []
    tr = Tracer()

    def on_create_return(ev, trace):
        case, target = state['case'], state['target']
        if case is None:
            return
        state['judged'] = True
        try:
            buf = b'' if ev.exc is not None else read_target(target)
        except OSError as e:
            ctx.violation('no_file', f'create returned but the file cannot be read: {e}',
                          case_summary(case), mechanism='no_file')
            return
        try:
            state['file'] = judge_structure(ctx, case, buf, trace, ev.exc)
        except Exception:  # noqa: BLE001
            ctx.oracle_error('C12 judge_structure')

    wt = WriterTrace(tr, S_build, S_low, on_create_return,
                     on_deduce=lambda ev: deduced.append(getattr(ev.result, 'value', str(ev.result))))
    ctx.extra['hooked'] = wt.hooked
    ctx.extra['exhaustive'] = True  # all 326 builder programs are run in both tiers
    seen_programs = set()
    try:
        with tr:
            for it in items:
                orders_seen = []
                for case in it['cases']:
                    rng = np.random.Generator(np.random.PCG64(case['vseed']))
                    spec = gen_spec(rng, case)
                    models = build_models(S, sc, spec, case['program'])
                    target = target_for(case, tmpdir, rng)
                    state.update(case=case, target=target, file=None, judged=False)
                    before = ctx.n_violations
                    try:
                        run_program(S, case, spec, models, target)
                    except Exception:  # noqa: BLE001  (judged by the monitor through PY_UNWIND)
                        pass
                    f = state['file']
                    if state['judged']:
                        judge_reopen(ctx, S, case, target, f, deduced)
                    else:
                        ctx.count('create_not_observed')
                    state['case'] = None
                    orders_seen.append((case, f.names() if f is not None and not f.bat_error
                                        and not f.header_error else None))
                    hit_forced(ctx, case)
                    ctx.case(signature(case), trivial=(not case['program'] and case['byteorder'] == 'native'))
                    if it['kind'] == 'perm_group':
                        key = tuple(case['program'])
                        if key not in seen_programs:
                            seen_programs.add(key)
                            ctx.count('programs_run')
                    if ctx.n_violations > before or (it['item'] % 97 == 0 and case is it['cases'][0]):
                        ctx.sample(case_summary(case))
                    if not isinstance(target, io.BytesIO):
                        try:
                            os.remove(target)
                        except OSError:
                            pass
                if it['kind'] == 'perm_group' and len(it['cases']) > 1:
                    judge_group(ctx, it['cases'], orders_seen)
    finally:
        shutil.rmtree(tmpdir, ignore_errors=True)


# ------------------------------------------------------------ known findings ---
def _mech(v):
    return (v.get('keys') or {}).get('mechanism')


FINDING_PREDICATES = {
    # _PixWrap.write iterates range(0, n_rows, chunk) instead of over the pixel count
    'sqw.writer.pix_chunk_loop_bound': lambda v: v['kind'] == 'pix_block_incomplete'
    and _mech(v) == 'pix_chunk_loop_bound',
    # char-array shape / length written as number of characters, bytes written are UTF-8
    'sqw.writer.string_length_in_characters': lambda v: v['kind'] in ('data_block_incomplete', 'data_block_size')
    and _mech(v) == 'string_length_in_characters',
}
