"""C01 Elastic TOF kinematics reproduce the de Broglie / Bragg definitions.

Monitors sit on the return of the nine elastic kernels (observed through their
code objects, so calls made by ``convert`` through the graph tables are seen
too).  The oracle re-evaluates the definitions in long double from an
independent SI table and the constants scipp exposes.
"""

from __future__ import annotations

import numpy as np
import scipp as sc

from rv import operands as ops
from rv.oracle import si
from rv.trace import Tracer

ID = 'C01'
LEVEL = 'exploration'
RULE = (
    'cases = one kernel call (direct) or one convert() pipeline (in situ) with log-uniform '
    'SI magnitudes 1e-9..1e9, random unit per operand, dtype class, shape class '
    '(scalar/1-d/2-d broadcast/per-pixel/transposed/binned, and the layouts with operands on different, '
    'non-nested dims: every operand on a dim of its own, 2-d operands that pairwise share one dim, 2-d bins with '
    'Ltotal and two_theta along different bin dims, bins broadcast along geometry dims, random subsets of 4 '
    'dims; each forced once per kernel and shard, with the alternative route on the same operands; in situ: '
    'Ltotal[setting] x two_theta[pixel] coordinates, dense and binned) and forced angle classes; a case is '
    'non-trivial unless scalar+SI+float64; distinct = distinct (kernel, dtypes, units, '
    'shape class, magnitude band) signatures'
)
ASSUMPTIONS = [
    'numpy long double (x87 80 bit) evaluates the closed forms with error << 1e-13',
    'h and m_n are the values scipp.constants exposes (as the property states)',
]
TOL64 = 1e-11
TOL32 = 1e-5

TIME_UNITS = ['ns', 'us', 'ms', 's', 'min']
LEN_UNITS = ['mm', 'cm', 'm', 'km', 'angstrom', 'nm']
WAV_UNITS = ['angstrom', 'nm', 'm', 'pm', 'mm']
EN_UNITS = ['ueV', 'meV', 'eV', 'J', 'keV']
ANG_UNITS = ['rad', 'deg', 'rad', 'deg', 'mrad', 'arcmin', 'urad', 'arcsec']  # any angular unit is a valid input
Q_UNITS = ['1/angstrom', '1/nm', '1/m']

C = None


def consts():
    global C
    if C is None:
        C = si.constants()
    return C


# ---------------------------------------------------------------- oracle ---
def _sin_half(tt_si):
    return np.sin(tt_si / si.LD(2))


def expected_si(kernel, a):
    """Expected result in SI (long double) from SI operand arrays."""
    c = consts()
    h, m = c['h'], c['m_n']
    two = si.LD(2)
    if kernel == 'wavelength_from_tof':
        return h * a['tof'] / (m * a['Ltotal']), 'length'
    if kernel == 'dspacing_from_tof':
        return h * a['tof'] / (m * a['Ltotal'] * two * _sin_half(a['two_theta'])), 'length'
    if kernel == 'energy_from_tof':
        return m * a['Ltotal'] ** 2 / (two * a['tof'] ** 2), 'energy'
    if kernel == 'energy_from_wavelength':
        return h * h / (two * m * a['wavelength'] ** 2), 'energy'
    if kernel == 'wavelength_from_energy':
        return h / np.sqrt(two * m * a['energy']), 'length'
    if kernel == 'Q_from_wavelength':
        return si.LD(4) * si.PI * _sin_half(a['two_theta']) / a['wavelength'], 'invlength'
    if kernel == 'wavelength_from_Q':
        return si.LD(4) * si.PI * _sin_half(a['two_theta']) / a['Q'], 'length'
    if kernel == 'dspacing_from_wavelength':
        return a['wavelength'] / (two * _sin_half(a['two_theta'])), 'length'
    if kernel == 'dspacing_from_energy':
        return h / np.sqrt(two * m * a['energy']) / (two * _sin_half(a['two_theta'])), 'length'
    raise KeyError(kernel)


OPERANDS = {
    'wavelength_from_tof': ('tof', 'Ltotal'),
    'dspacing_from_tof': ('tof', 'Ltotal', 'two_theta'),
    'energy_from_tof': ('tof', 'Ltotal'),
    'energy_from_wavelength': ('wavelength',),
    'wavelength_from_energy': ('energy',),
    'Q_from_wavelength': ('wavelength', 'two_theta'),
    'wavelength_from_Q': ('Q', 'two_theta'),
    'dspacing_from_wavelength': ('wavelength', 'two_theta'),
    'dspacing_from_energy': ('energy', 'two_theta'),
}
DATA_OPERAND = {k: v[0] for k, v in OPERANDS.items()}


def out_unit(kernel, args):
    if kernel in ('energy_from_tof', 'energy_from_wavelength'):
        return sc.Unit('meV')
    if kernel == 'Q_from_wavelength':
        return sc.Unit('one') / ops.elem_unit(args['wavelength'])
    return sc.Unit('angstrom')


def judge_kernel(ctx, kernel, args, res, exc, origin):
    """Compare one observed kernel return with the long-double definition."""
    names = OPERANDS[kernel]
    case = {'kernel': kernel, 'origin': origin,
            'args': {n: _descr(args[n]) for n in names}}
    if exc is not None:
        ctx.violation('kernel_raised', f'{kernel} raised {type(exc).__name__}: {exc}', case,
                      kernel=kernel)
        return
    data = args[DATA_OPERAND[kernel]]
    if ops.is_binned(data):
        # the result has the bins of the event operand; where a geometry operand sits on a dim the event
        # operand lacks, scipp broadcasts the bins along it (every copy keeps the sizes of its original)
        want_dims = ops.union_dims(*[args[n] for n in names])
        ok = ops.is_binned(res) and set(res.dims) == want_dims
        if ok:
            try:
                if res.dims == data.dims:
                    like = data
                elif set(res.dims) == set(data.dims):
                    like = data.transpose(res.dims)
                else:
                    like = sc.broadcast(data, dims=res.dims, shape=res.shape)
                want_sizes = ops.bin_sizes(like)
            except Exception:  # noqa: BLE001
                ctx.oracle_error(f'C01 {kernel} bin layout')
                return
            ok = np.array_equal(ops.bin_sizes(res), want_sizes)
        if not ok:
            ctx.violation('bin_layout', f'{kernel}: the result does not have the bins of its event operand '
                          f'(dims {data.dims} sizes {ops.bin_sizes(data).tolist()[:6]} -> '
                          + (f'dims {res.dims} sizes {ops.bin_sizes(res).tolist()[:6]}' if ops.is_binned(res)
                             else 'dense') + f'; expected dims {sorted(want_dims)})', case, kernel=kernel)
            return
    try:
        cls32 = ops.elem_dtype(data) == sc.DType.float32
        # mixed precision: a single-precision geometry operand limits the attainable
        # accuracy to single precision although the result class follows the data operand
        # the precision class of the result is the one of the data operand (the documented dtype
        # contract): a float32 geometry operand is an exact input of a double-precision computation
        any32 = cls32
        tol = TOL32 if any32 else TOL64
        want_dtype = sc.DType.float32 if cls32 else sc.DType.float64
        a_si = {n: ops.align(args[n], res).astype(si.LD) * si.factor(ops.elem_unit(args[n]))
                for n in names}
        exp, _ = expected_si(kernel, a_si)
        ou = out_unit(kernel, args)
        exp_out = exp / si.factor(ou)
    except Exception:  # noqa: BLE001
        ctx.oracle_error(f'C01 {kernel}')
        return
    got_unit = ops.elem_unit(res)
    if got_unit != ou:
        ctx.violation('wrong_unit', f'{kernel}: unit {got_unit} expected {ou}', case, kernel=kernel)
        return
    if ops.elem_dtype(res) != want_dtype:
        ctx.violation('wrong_dtype', f'{kernel}: dtype {ops.elem_dtype(res)} expected {want_dtype}',
                      case, kernel=kernel)
        return
    want_dims = ops.union_dims(*[args[n] for n in names])
    if set(res.dims) != want_dims:
        ctx.violation('wrong_dims', f'{kernel}: dims {res.dims} expected {sorted(want_dims)}', case,
                      kernel=kernel)
        return
    got = ops.result_values(res)
    # elements whose inputs are not finite (dead pixels) are not judged; they must not affect the others
    valid = np.ones(np.shape(got), dtype=bool)
    for n in names:
        valid &= np.isfinite(np.asarray(a_si[n], dtype=np.float64))
    if not np.all(valid):
        ctx.count('elements with non-finite inputs (not judged)', int(valid.size - np.count_nonzero(valid)))
        if not np.any(valid):
            return
        got = np.asarray(got)[valid]
        exp_out = exp_out[valid]
    if cls32:
        # out of the float32 domain (reference not a normal float32): not judged
        fin = np.isfinite(exp_out.astype(np.float64))
        lo, hi = 1e-30, 1e30
        dom = fin & (np.abs(exp_out) > lo) & (np.abs(exp_out) < hi)
        if not np.all(dom):
            ctx.count('out_of_float32_domain', int(np.size(dom) - np.count_nonzero(dom)))
        if not np.any(dom):
            return
        got = np.asarray(got)[dom] if np.ndim(got) else got
        exp_out = exp_out[dom] if np.ndim(exp_out) else exp_out
    if got.size == 0:
        ctx.count('empty_results')
        return
    err = si.relerr(got, exp_out)
    worst = float(np.max(err)) if err.size else 0.0
    if not np.all(np.isfinite(np.asarray(got, dtype=np.float64))):
        ctx.violation('non_finite', f'{kernel}: non-finite result for finite positive input', case,
                      kernel=kernel)
        return
    ctx.dev(f'relerr32.{kernel}' if any32 else f'relerr64.{kernel}', worst)
    ctx.event(kernel)
    if worst > tol:
        i = int(np.argmax(err))
        case['worst'] = {'got': repr(np.ravel(got)[i]), 'expected': repr(np.ravel(exp_out)[i]),
                         'relerr': worst}
        ctx.violation('value', f'{kernel}: relative error {worst:.3g} > {tol:g}', case,
                      kernel=kernel, precision='float32' if any32 else 'float64')


def _descr(v):
    from rv.snap import describe
    return describe(v)


# ------------------------------------------------------------- generators ---
def _draw_si(rng, n, lo=1e-9, hi=1e9):
    return 10.0 ** rng.uniform(np.log10(lo), np.log10(hi), size=n)


def _angles(rng, n, ctx):
    """2theta in (0, pi] with forced classes."""
    x = rng.uniform(1e-3, np.pi, size=n)
    k = rng.integers(0, 10, size=n)
    tiny = 10.0 ** rng.uniform(-12, -9, size=n)
    x = np.where(k == 0, tiny, x)
    x = np.where(k == 1, np.pi - 10.0 ** rng.uniform(-15, -12, size=n), x)
    x = np.where(k == 2, np.pi, x)
    x = np.where(k == 3, np.pi / 2 + rng.uniform(-1e-12, 1e-12, size=n), x)
    x = np.minimum(x, np.pi)
    if np.any(k == 0):
        ctx.hit('two_theta<1e-9')
    if np.any(k == 1):
        ctx.hit('two_theta within 1e-12 of pi')
    if np.any(k == 2):
        ctx.hit('two_theta == pi')
    return x


def _as_unit(x_si, unit):
    return x_si / float(si.lookup(sc.Unit(unit))[0])


# layouts in which the operands sit on different dims that are not nested in one another: scipp broadcasts to
# the union of the dims (outer product) and the definition holds element by element
#   outer_1d      every operand on a dim of its own            (tof[tof], Ltotal[setting], two_theta[pixel])
#   outer_2d      2-d operands that pairwise share one dim     (x[pixel,tof], Ltotal[pixel,setting], two_theta[tube,pixel])
#   binned_2d     2-d bins, geometry along different bin dims  (x[setting,pixel] binned, Ltotal[setting], two_theta[pixel])
#   binned_outer  bins broadcast along the geometry dims       (x[pixel] binned, Ltotal[setting], two_theta[tube])
#   free          every operand on a random subset of the dims (tube, pixel, setting, tof) in random order
OUTER_SHAPES = ['outer_1d', 'outer_2d', 'binned_2d', 'binned_outer', 'free']
SHAPES = ['scalar', '1d', '2d_broadcast', 'per_pixel_2d', 'binned', 'transposed_2d'] + OUTER_SHAPES
POOL = ('tube', 'pixel', 'setting', 'tof')
FORCED_ROUNDS = ['slice', 'uniform', 'outer_1d', 'outer_2d', 'binned_2d', 'binned_outer']


def _layout(rng, shape_cls, names, npix, nt):
    """(dims, shape) per operand and whether the data operand is binned, for the OUTER_SHAPES."""
    size = {'tube': int(rng.integers(1, 4)), 'pixel': npix, 'setting': int(rng.integers(2, 4)),
            'tof': min(nt, 8)}
    data = names[0]
    if shape_cls == 'outer_1d':
        d = {data: ['tof'], 'Ltotal': ['setting'], 'two_theta': ['pixel']}
    elif shape_cls == 'outer_2d':
        d = {data: ['pixel', 'tof'], 'Ltotal': ['pixel', 'setting'], 'two_theta': ['tube', 'pixel']}
    elif shape_cls == 'binned_2d':
        d = {data: ['setting', 'pixel'], 'Ltotal': ['setting'], 'two_theta': ['pixel']}
    elif shape_cls == 'binned_outer':
        d = {data: ['pixel'], 'Ltotal': ['setting'], 'two_theta': ['tube']}
    else:
        d = {n: [x for x in POOL if rng.random() < 0.5] for n in names}
    out = {}
    for n in names:
        dims = list(d[n])
        if len(dims) > 1 and rng.random() < 0.5:
            dims = [dims[i] for i in rng.permutation(len(dims))]
        out[n] = (dims, tuple(size[x] for x in dims))
    binned = shape_cls in ('binned_2d', 'binned_outer') or (
        shape_cls == 'free' and len(out[data][0]) > 0 and rng.random() < 0.3)
    return out, binned


def _non_nested(a, b):
    a, b = set(a), set(b)
    return bool(a - b) and bool(b - a)


def _mk(values, dims, unit, dtype):
    values = np.asarray(values)
    if dtype == 'int64':
        values = np.maximum(np.rint(values), 1).astype(np.int64)
    elif dtype == 'float32':
        values = values.astype(np.float32)
    if not dims:
        return sc.scalar(values.item() if values.ndim == 0 else values.ravel()[0].item(),
                         unit=unit, dtype=dtype)
    return sc.array(dims=dims, values=values, unit=unit, dtype=dtype)


def gen_case(rng, ctx, kernel=None, force=None):
    """One direct kernel call: dict(kernel, kwargs, signature, trivial)."""
    kernel = kernel or list(OPERANDS)[rng.integers(0, len(OPERANDS))]
    names = OPERANDS[kernel]
    slice_of_binned = None
    shape_cls = SHAPES[rng.integers(0, len(SHAPES))]
    npix, nt = int(rng.integers(1, 7)), int(rng.integers(1, 40))
    if force in ('slice', 'uniform'):
        # deterministic part of every shard: each kernel sees binned data that is a slice of a larger binned
        # variable, and binned data with nearly uniform per-pixel geometry
        shape_cls, npix = 'binned', int(rng.integers(3, 7))
    elif force:
        # ... and every layout with operands on different, non-nested dims
        shape_cls, npix, nt = force, int(rng.integers(2, 6)), int(rng.integers(2, 9))
    layout, binned = None, shape_cls == 'binned'
    if shape_cls in OUTER_SHAPES:
        layout, binned = _layout(rng, shape_cls, names, npix, nt)
    data_name = names[0]
    r = rng.random()
    cls = 'float32' if r < 0.3 else ('int64' if r < 0.4 else 'float64')
    kw, units, dtypes = {}, [], []
    mags = []
    for n in names:
        is_data = n == data_name
        if n == 'two_theta':
            unit = ANG_UNITS[rng.integers(0, len(ANG_UNITS))]
        elif n == 'tof':
            unit = TIME_UNITS[rng.integers(0, len(TIME_UNITS))]
        elif n == 'Ltotal':
            unit = LEN_UNITS[rng.integers(0, len(LEN_UNITS))]
        elif n == 'wavelength':
            unit = WAV_UNITS[rng.integers(0, len(WAV_UNITS))]
        elif n == 'energy':
            unit = EN_UNITS[rng.integers(0, len(EN_UNITS))]
        elif n == 'Q':
            unit = Q_UNITS[rng.integers(0, len(Q_UNITS))]
        # dims / size per shape class
        if layout is not None:
            dims, shape = layout[n]
        elif shape_cls == 'scalar':
            dims, shape = [], ()
        elif shape_cls == '1d':
            dims, shape = (['tof'], (nt,)) if is_data else ([], ())
            if not is_data and rng.random() < 0.5:
                dims, shape = ['tof'], (nt,)
        elif shape_cls == '2d_broadcast':
            dims, shape = (['tof'], (nt,)) if is_data else (['pixel'], (npix,))
        elif shape_cls == 'per_pixel_2d':
            dims, shape = (['pixel', 'tof'], (npix, nt)) if is_data else (['pixel'], (npix,))
        elif shape_cls == 'transposed_2d':
            # the data operand has its dims in the other order than the geometry operands (2-d, same labels)
            dims, shape = (['tof', 'pixel'], (nt, npix)) if is_data else (['pixel', 'tof'], (npix, nt))
        else:  # binned
            dims, shape = ['pixel'], (npix,)
        n_el = int(np.prod(shape)) if shape else 1
        if is_data:
            dt = cls
        else:
            rr = rng.random()
            dt = 'float32' if rr < 0.15 else ('int64' if rr < 0.27 else 'float64')
            if dt == 'int64':
                ctx.hit('integer geometry operand')
        # magnitudes
        if n == 'two_theta' and dt == 'int64':
            # whole degrees 1..180 or whole radians 1..3: exact integers in the unit given
            # whole numbers of the unit given (1..180 deg, 1..3 rad, 1..3141 mrad, ...): exact integers
            top = int(np.floor(float(si.PI / si.factor(sc.Unit(unit)))))
            v = rng.integers(1, top + 1, size=n_el).astype(float)
        elif n == 'two_theta':
            v = _angles(rng, n_el, ctx)
            if dt == 'float32':
                # keep float32 angles away from the forced double-precision classes
                v = np.clip(v, 1e-3, np.pi - 1e-3)
            if unit == 'deg':
                v = np.minimum(np.degrees(v), 180.0)
            elif unit != 'rad':
                v = np.minimum((v.astype(si.LD) / si.factor(sc.Unit(unit))).astype(np.float64),
                               float(si.PI / si.factor(sc.Unit(unit))))
            ctx.hit('angle unit ' + unit)
        else:
            if cls == 'float32' or dt == 'float32':
                # float32 domain: moderate magnitudes and units (DESIGN 3: domains)
                if n == 'tof':
                    unit = ['us', 'ms'][rng.integers(0, 2)]
                    s = _draw_si(rng, n_el, 1e-6, 1e-1)
                elif n == 'Ltotal':
                    unit = ['m', 'mm', 'cm'][rng.integers(0, 3)]
                    s = _draw_si(rng, n_el, 0.1, 1e3)
                elif n == 'wavelength':
                    unit = ['angstrom', 'nm'][rng.integers(0, 2)]
                    s = _draw_si(rng, n_el, 1e-12, 1e-8)
                elif n == 'energy':
                    unit = ['meV', 'eV'][rng.integers(0, 2)]
                    s = _draw_si(rng, n_el, 1.6e-26, 1.6e-18)
                else:  # Q
                    unit = ['1/angstrom', '1/nm'][rng.integers(0, 2)]
                    s = _draw_si(rng, n_el, 1e8, 1e12)
            elif dt == 'int64':
                s = None
            else:
                s = _draw_si(rng, n_el)
            if s is not None and not is_data and n_el > 1 and (rng.random() < 0.2 or force == 'uniform'):
                # a compact detector: per-pixel values that agree to 1e-9..1e-6 relative but are not equal
                s = s[0] * (1 + 10.0 ** rng.uniform(-9, -6) * rng.uniform(0, 1, size=n_el))
                ctx.hit('nearly uniform per-pixel geometry')
            if s is not None and not is_data and n_el > 2 and dt != 'int64' and rng.random() < 0.1:
                s = np.array(s, dtype=float)
                s[int(rng.integers(0, n_el))] = np.nan  # a pixel without geometry
                ctx.hit('dead pixel (NaN geometry)')
            if s is None:
                v = rng.integers(1, 2**26, size=n_el).astype(float)
            else:
                v = _as_unit(s, unit)
                mags.append(int(np.floor(np.log10(np.nanmedian(s)) / 3)))
        if binned and is_data:
            nbin = int(np.prod(shape))
            sizes = rng.integers(0, 12 if nbin <= 8 else 5, size=nbin)
            if rng.random() < 0.3:
                sizes[rng.integers(0, nbin)] = 0
            nev = int(sizes.sum())
            if n == 'two_theta':
                ev = v
            ev = np.resize(v, nev) if nev else np.zeros(0)
            if dt == 'int64':
                ev = np.maximum(np.rint(ev), 1).astype(np.int64)
            elif dt == 'float32':
                ev = ev.astype(np.float32)
            var = ops.make_binned(ev, sizes, dims, shape, unit, dtype=dt)
            if 'pixel' in dims and npix >= 3 and (rng.random() < 0.3 or force == 'slice'):
                # a slice of a larger binned variable: begin/end no longer span the event buffer
                lo_ = int(rng.integers(0, npix - 1))
                hi_ = int(rng.integers(lo_ + 1, npix + 1))
                var = var['pixel', lo_:hi_]
                slice_of_binned = (lo_, hi_)
                ctx.hit('binned operand is a slice of a larger one')
        else:
            var = _mk(v.reshape(shape) if shape else v, dims, unit, dt)
        if (not is_data and slice_of_binned is not None and isinstance(var, sc.Variable) and 'pixel' in var.dims
                and var.sizes['pixel'] != kw[data_name].sizes['pixel']):
            var = var['pixel', slice_of_binned[0]:slice_of_binned[1]].copy()
        kw[n] = var
        units.append(unit)
        dtypes.append(dt)
    trivial = shape_cls == 'scalar' and all(d == 'float64' for d in dtypes) and all(
        u in ('s', 'm', 'J', 'rad', '1/m') for u in units)
    # relation between the dims of the operands (whatever class produced them)
    od = {n: tuple(kw[n].dims) for n in names}
    crossed = any(_non_nested(od[a], od[b]) for i, a in enumerate(names) for b in names[i + 1:])
    if crossed:
        ctx.hit('operands on different, non-nested dims (outer product)')
    if len(names) == 3 and _non_nested(od[names[1]], od[names[2]]):
        ctx.hit('Ltotal and two_theta on different, non-nested dims')
    if ops.is_binned(kw[data_name]):
        if len(od[data_name]) > 1:
            ctx.hit('2-d bins')
        if any(set(od[n]) - set(od[data_name]) for n in names[1:]):
            ctx.hit('bins broadcast along a dim of a geometry operand')
    if shape_cls in OUTER_SHAPES:
        ctx.hit('layout ' + shape_cls)
    sig = (kernel, tuple(dtypes), tuple(units), shape_cls + ('/crossed' if crossed else ''), tuple(mags[:1]))
    return {'kernel': kernel, 'kw': kw, 'sig': sig, 'trivial': trivial, 'shape_cls': shape_cls}


# ---------------------------------------------------------------- in situ ---
_XDIMS = ('tof', 'wavelength', 'energy', 'dspacing', 'Q')


def _xnorm(v):
    # transform_coords renames the dim of a dimension-coordinate to the name of the target: one label for all
    ren = {d: 'tof' for d in v.dims if d in _XDIMS and d != 'tof'}
    return v.rename_dims(ren) if ren else v


def _pair(ctx, name, a, b, tol, case):
    a, b = _xnorm(a), _xnorm(b)
    ea = ops.result_values(a).astype(si.LD)
    # the elements of b laid out like those of a (two routes need not return their dims in the same order; a
    # round trip returns the union of the dims of its operands)
    eb = (ops.result_values(b) if a.dims == b.dims else ops.align(b, a)).astype(si.LD)
    if ops.elem_unit(a) != ops.elem_unit(b):
        fb = si.factor(ops.elem_unit(b)) / si.factor(ops.elem_unit(a))
        eb = eb * fb
    fin = np.isfinite(ea.astype(np.float64)) & np.isfinite(eb.astype(np.float64))
    if not np.all(fin):
        # elements with non-finite inputs (dead pixels): the kernel monitors decide those calls
        ctx.count('route elements not finite on a route (not compared)', int(fin.size - np.count_nonzero(fin)))
        ea, eb = ea[fin], eb[fin]
    err = si.relerr(ea, eb)
    worst = float(np.max(err)) if err.size else 0.0
    ctx.dev('route.' + ('f32:' if tol > 1e-8 else 'f64:') + name, worst)
    ctx.event('route.' + name)
    if worst > tol:
        ctx.violation('route_disagreement', f'{name}: routes differ by {worst:.3g} > {tol:g}',
                      case, route=name)


def direct_routes(ctx, K, kernel, kw, res):
    """The other routes to the quantity a direct kernel call returned, on the same operands (used for the
    layouts with operands on different dims, which convert() pipelines only reach in their simplest form)."""
    f32 = ops.elem_dtype(kw[DATA_OPERAND[kernel]]) == sc.DType.float32
    tol = 2 * (TOL32 if f32 else TOL64)
    case = {'direct_routes': kernel, 'args': {n: _descr(v) for n, v in kw.items()}}
    tt = kw.get('two_theta')
    if kernel == 'dspacing_from_tof':
        lam = K.wavelength_from_tof(tof=kw['tof'], Ltotal=kw['Ltotal'])
        _pair(ctx, 'direct.tof->d vs tof->lambda->d', res, K.dspacing_from_wavelength(wavelength=lam, two_theta=tt),
              tol, case)
        e = K.energy_from_tof(tof=kw['tof'], Ltotal=kw['Ltotal'])
        _pair(ctx, 'direct.tof->d vs tof->E->d', res, K.dspacing_from_energy(energy=e, two_theta=tt), tol, case)
    elif kernel == 'energy_from_tof':
        lam = K.wavelength_from_tof(tof=kw['tof'], Ltotal=kw['Ltotal'])
        _pair(ctx, 'direct.tof->E vs tof->lambda->E', res, K.energy_from_wavelength(wavelength=lam), tol, case)
    elif kernel == 'wavelength_from_tof':
        e = K.energy_from_tof(tof=kw['tof'], Ltotal=kw['Ltotal'])
        _pair(ctx, 'direct.tof->lambda vs tof->E->lambda', res, K.wavelength_from_energy(energy=e), tol, case)
    elif kernel == 'energy_from_wavelength':
        _pair(ctx, 'direct.lambda->E->lambda', K.wavelength_from_energy(energy=res), kw['wavelength'], tol, case)
    elif kernel == 'wavelength_from_energy':
        _pair(ctx, 'direct.E->lambda->E', K.energy_from_wavelength(wavelength=res), kw['energy'], tol, case)
    elif kernel == 'Q_from_wavelength':
        _pair(ctx, 'direct.lambda->Q->lambda', K.wavelength_from_Q(Q=res, two_theta=tt), kw['wavelength'], tol, case)
    elif kernel == 'wavelength_from_Q':
        _pair(ctx, 'direct.Q->lambda->Q', K.Q_from_wavelength(wavelength=res, two_theta=tt), kw['Q'], tol, case)
    elif kernel == 'dspacing_from_energy':
        lam = K.wavelength_from_energy(energy=kw['energy'])
        _pair(ctx, 'direct.E->d vs E->lambda->d', res, K.dspacing_from_wavelength(wavelength=lam, two_theta=tt),
              tol, case)
    elif kernel == 'dspacing_from_wavelength':
        # Q * d = 2 pi on the observed values
        q = K.Q_from_wavelength(wavelength=kw['wavelength'], two_theta=tt)
        qv = ops.result_values(q).astype(si.LD) * si.factor(ops.elem_unit(q))
        dv = ops.align(res, q).astype(si.LD) * si.factor(ops.elem_unit(res))
        prod = qv * dv
        fin = np.isfinite(prod.astype(np.float64))
        err = si.relerr(prod[fin], np.full(prod[fin].shape, 2 * si.PI))
        worst = float(np.max(err)) if err.size else 0.0
        ctx.dev('route.' + ('f32:' if f32 else 'f64:') + 'direct.Q*d=2pi', worst)
        ctx.event('route.direct.Q*d=2pi')
        if worst > tol:
            ctx.violation('route_disagreement', f'direct: Q*d differs from 2 pi by {worst:.3g}', case,
                          route='direct.Q*d')


def routes_case(rng, ctx, scn, force=None):
    """Drive all routes through the shipped graphs via convert().

    ``crossed``: Ltotal depends on a dim ``setting`` only and two_theta on ``pixel`` only (a bank on a sphere
    around the sample measured with several source settings), so the two geometry coordinates sit on different
    dims and every kernel has to return their outer product."""
    npix, nt = int(rng.integers(1, 6)), int(rng.integers(2, 30))
    f32 = rng.random() < 0.3
    binned = rng.random() < 0.35
    crossed = rng.random() < 0.25
    if force:
        crossed, binned = True, force == 'crossed_binned'
    nset = int(rng.integers(2, 4)) if crossed else None
    if crossed:
        npix, nt = max(npix, 2), min(nt, 12)
    tunit = ['us', 'ms', 'ns', 's'][rng.integers(0, 2 if f32 else 4)]
    lunit = ['m', 'mm', 'cm', 'km'][rng.integers(0, 3 if f32 else 4)]
    t_si = _draw_si(rng, npix * nt, 1e-6, 1e-1) if f32 else _draw_si(rng, npix * nt, 1e-7, 1e3)
    l_si = _draw_si(rng, nset if crossed else npix, 0.1, 1e3)
    tt = _angles(rng, npix, ctx)
    if f32:
        tt = np.clip(tt, 1e-3, np.pi - 1e-3)
    dt = 'float32' if f32 else 'float64'
    tol = 2 * (TOL32 if f32 else TOL64)
    coords = {
        'Ltotal': sc.array(dims=['setting' if crossed else 'pixel'], values=_as_unit(l_si, lunit), unit=lunit),
        'two_theta': sc.array(dims=['pixel'], values=tt, unit='rad'),
    }
    odims, oshape = (['setting', 'pixel'], [nset, npix]) if crossed else (['pixel'], [npix])
    if binned:
        sizes = rng.integers(0, 2 * nt // npix + 2, size=int(np.prod(oshape)))
        if force and not sizes.sum():
            sizes[0] = 3
        nev = int(sizes.sum())
        tv = np.resize(_as_unit(t_si, tunit), nev).astype(dt)
        ev = sc.DataArray(sc.ones(dims=['event'], shape=[nev], unit='counts'),
                          coords={'tof': sc.array(dims=['event'], values=tv, unit=tunit, dtype=dt)})
        end = np.cumsum(sizes)
        da = sc.DataArray(sc.bins(begin=sc.array(dims=odims, values=(end - sizes).reshape(oshape), unit=None),
                                  end=sc.array(dims=odims, values=end.reshape(oshape), unit=None),
                                  dim='event', data=ev), coords=coords)
        if nev == 0:
            return None
    else:
        tof = sc.array(dims=['pixel', 'tof'], values=_as_unit(t_si, tunit).reshape(npix, nt),
                       unit=tunit, dtype=dt)
        da = sc.DataArray(sc.ones(dims=[*odims, 'tof'], shape=[*oshape, nt]),
                          coords={**coords, 'tof': tof})
    if crossed:
        ctx.hit('convert: Ltotal and two_theta coordinates on different dims, ' + ('binned' if binned else 'dense'))
    case = {'in_situ': 'routes', 'f32': f32, 'binned': binned, 'tunit': tunit, 'lunit': lunit,
            'npix': npix, 'nt': nt, 'crossed_nset': nset}

    def co(d, name):
        return d.bins.coords[name] if binned else d.coords[name]

    def only(d, keep):
        # keep only the named event/dense coordinate plus the geometry, so that the next
        # conversion really recomputes (an existing coordinate would be returned as is)
        names = ('tof', 'wavelength', 'energy', 'dspacing', 'Q')
        if binned:
            drop = [n for n in names if n in d.bins.coords and n != keep]
            d = d.bins.drop_coords(drop) if drop else d
            dd = [n for n in names if n in d.coords]
            return d.drop_coords(dd) if dd else d
        drop = [n for n in names if n in d.coords and n != keep]
        return d.drop_coords(drop) if drop else d

    def conv(d, origin, target, scatter):
        out = scn.convert(only(d, origin), origin, target, scatter=scatter)
        ctx.count('convert_calls')
        return out

    tag = ('f32:' if f32 else 'f64:')
    lam = conv(da, 'tof', 'wavelength', scatter=True)
    e_direct = conv(da, 'tof', 'energy', scatter=True)
    e_via = conv(lam, 'wavelength', 'energy', scatter=True)
    _pair(ctx, 'tof->E vs tof->lambda->E', co(e_direct, 'energy'), co(e_via, 'energy'), tol, case)
    d_direct = conv(da, 'tof', 'dspacing', scatter=True)
    d_lam = conv(lam, 'wavelength', 'dspacing', scatter=True)
    d_e = conv(e_direct, 'energy', 'dspacing', scatter=True)
    _pair(ctx, 'tof->d vs tof->lambda->d', co(d_direct, 'dspacing'), co(d_lam, 'dspacing'), tol, case)
    _pair(ctx, 'tof->d vs tof->E->d', co(d_direct, 'dspacing'), co(d_e, 'dspacing'), tol, case)
    lam_back = conv(e_via, 'energy', 'wavelength', scatter=True)
    _pair(ctx, 'lambda->E->lambda', co(lam, 'wavelength'), co(lam_back, 'wavelength'), tol, case)
    q = conv(lam, 'wavelength', 'Q', scatter=True)
    lam_q = conv(q, 'Q', 'wavelength', scatter=True)
    _pair(ctx, 'lambda->Q->lambda', co(lam, 'wavelength'), co(lam_q, 'wavelength'), tol, case)
    # Q*d = 2 pi, on the observed values
    qa, da_ = _xnorm(co(q, 'Q')), _xnorm(co(d_lam, 'dspacing'))
    qv = ops.result_values(qa).astype(si.LD)
    dv = (ops.result_values(da_) if da_.dims == qa.dims else ops.align(da_, qa)).astype(si.LD)
    prod = qv * dv
    err = si.relerr(prod, np.full(prod.shape, 2 * si.PI))
    worst = float(np.max(err)) if err.size else 0.0
    ctx.dev('route.' + tag + 'Q*d=2pi', worst)
    ctx.event('route.Q*d=2pi')
    if worst > tol:
        ctx.violation('route_disagreement', f'Q*d differs from 2 pi by {worst:.3g}', case,
                      route='Q*d')
    # the public graph factories must wire the same kernels as convert() uses
    from scippneutron.conversion.graph import beamline as GB
    from scippneutron.conversion.graph import tof as GT
    ref = {'wavelength': lam, 'energy': e_direct, 'dspacing': d_direct,
           'Q': conv(da, 'tof', 'Q', scatter=True)}
    _pair(ctx, 'tof->Q vs tof->lambda->Q', co(ref['Q'], 'Q'), co(q, 'Q'), tol, case)
    for fname, start, target in (('elastic', 'tof', 'dspacing'), ('elastic_dspacing', 'tof', 'dspacing'),
                                 ('elastic_energy', 'tof', 'energy'), ('elastic_Q', 'tof', 'Q'),
                                 ('kinematic', 'tof', 'wavelength'), ('kinematic', 'tof', 'energy'),
                                 ('elastic_dspacing', 'wavelength', 'dspacing'), ('elastic_Q', 'wavelength', 'Q'),
                                 ('elastic_energy', 'wavelength', 'energy'), ('elastic_dspacing', 'energy', 'dspacing')):
        src = {'tof': da, 'wavelength': lam, 'energy': e_direct}[start]
        graph = {**GB.beamline(scatter=True), **getattr(GT, fname)(start)}
        out = only(src, start).transform_coords(target, graph=graph)
        ctx.count('factory_graph_calls')
        want = ref[target]
        if start != 'tof':
            want = conv(src, start, target, scatter=True)
        _pair(ctx, f'graph.{fname}({start})->{target} vs convert', co(out, target), co(want, target), tol, case)
    return ('routes', dt, tunit, lunit, ('binned' if binned else 'dense') + ('/crossed' if crossed else ''))


# ------------------------------------------------------------------ driver ---
DIRECT_ROUTES = ['direct.tof->d vs tof->lambda->d', 'direct.tof->d vs tof->E->d', 'direct.tof->E vs tof->lambda->E',
                 'direct.tof->lambda vs tof->E->lambda', 'direct.lambda->E->lambda', 'direct.E->lambda->E',
                 'direct.lambda->Q->lambda', 'direct.Q->lambda->Q', 'direct.E->d vs E->lambda->d',
                 'direct.Q*d=2pi']
def plan(tier, seed):
    n_shards = 16
    calls = 300 if tier == 'quick' else 8000
    routes = 40 if tier == 'quick' else 1000
    return [{'calls': calls, 'routes': routes} for _ in range(n_shards)]


def requirements(tier):
    ev = {k: 20 for k in OPERANDS}
    ev.update({'route.Q*d=2pi': 20, 'route.lambda->E->lambda': 20})
    ev.update({'route.' + r: 16 for r in DIRECT_ROUTES})
    return {'events': ev,
            'forced': ['two_theta<1e-9', 'two_theta within 1e-12 of pi', 'two_theta == pi',
                       'integer geometry operand', 'binned operand is a slice of a larger one',
                       'nearly uniform per-pixel geometry', 'dead pixel (NaN geometry)',
                       'operands on different, non-nested dims (outer product)',
                       'Ltotal and two_theta on different, non-nested dims',
                       '2-d bins', 'bins broadcast along a dim of a geometry operand',
                       'convert: Ltotal and two_theta coordinates on different dims, dense',
                       'convert: Ltotal and two_theta coordinates on different dims, binned']
            + ['layout ' + c for c in OUTER_SHAPES]
            + ['angle unit ' + u for u in sorted(set(ANG_UNITS))]}


def run(shard, ctx):
    import scippneutron as scn
    from scippneutron.conversion import tof as K

    bad = si.self_test()
    if bad:
        ctx.inconclusive_because('unit table cross-check failed: ' + '; '.join(bad))
        return
    rng = np.random.Generator(np.random.PCG64([shard['seed'], shard['index'], 1]))
    tr = Tracer()
    origin = {'v': 'direct'}

    def mk(kernel):
        def on_return(ev):
            judge_kernel(ctx, kernel, ev.args, ev.result, ev.exc, origin['v'])
        return on_return

    for k in OPERANDS:
        tr.watch(getattr(K, k), k, on_return=mk(k))
    with tr:
        # every kernel first, then random
        kernels = list(OPERANDS)
        for i in range(shard['calls']):
            nk = len(kernels)
            if i < len(FORCED_ROUNDS) * nk:
                case = gen_case(rng, ctx, kernels[i % nk], force=FORCED_ROUNDS[i // nk])
            else:
                case = gen_case(rng, ctx, kernels[i % nk] if i < (len(FORCED_ROUNDS) + 2) * nk else None)
            before = ctx.n_violations
            res = None
            try:
                res = getattr(K, case['kernel'])(**case['kw'])
            except Exception:  # noqa: BLE001  (already judged by the monitor via PY_UNWIND)
                pass
            if res is not None and case['shape_cls'] in OUTER_SHAPES:
                # operands on different dims: the other routes to the same quantity, on the same operands
                mid = ctx.n_violations
                try:
                    direct_routes(ctx, K, case['kernel'], case['kw'], res)
                except Exception:  # noqa: BLE001
                    if ctx.n_violations == mid:  # not a kernel that raised (the monitor has judged that)
                        ctx.oracle_error('C01 direct routes')
            ctx.case(case['sig'], trivial=case['trivial'])
            if i < 2 or ctx.n_violations > before:
                ctx.sample({'kernel': case['kernel'], 'sig': case['sig'],
                            'args': {n: _descr(v) for n, v in case['kw'].items()}})
        origin['v'] = 'convert'
        for j in range(shard['routes']):
            try:
                sig = routes_case(rng, ctx, scn, force={0: 'crossed_dense', 1: 'crossed_binned'}.get(j))
            except Exception as e:  # noqa: BLE001
                ctx.violation('convert_raised', f'convert raised {type(e).__name__}: {e}',
                              {'in_situ': 'routes'})
                continue
            if sig:
                ctx.case(sig)
    ctx.extra['mpmath_selftest'] = _mp_selftest(ctx)


def _mp_selftest(ctx):
    """Long double against mpmath at 40 digits on a sample (oracle self-test)."""
    try:
        import mpmath as mp
    except ImportError:
        ctx.inconclusive_because('mpmath not importable for the oracle self-test')
        return None
    mp.mp.dps = 40
    c = consts()
    rng = np.random.Generator(np.random.PCG64(7))
    worst = 0.0
    for _ in range(50):
        t, L, th = (float(10 ** rng.uniform(-6, 3)), float(10 ** rng.uniform(-3, 3)),
                    float(rng.uniform(1e-9, np.pi)))
        a = {'tof': si.LD(t), 'Ltotal': si.LD(L), 'two_theta': si.LD(th)}
        got, _ = expected_si('dspacing_from_tof', a)
        want = mp.mpf(float(c['h'])) * t / (mp.mpf(float(c['m_n'])) * L * 2 * mp.sin(mp.mpf(th) / 2))
        worst = max(worst, float(abs(mp.mpf(repr(got).split("'")[1]) - want) / want))
    if worst > 1e-17:
        ctx.inconclusive_because(f'long double vs mpmath self-test off by {worst:.3g}')
    return {'samples': 50, 'max_rel_diff': worst}

TECHNIQUE = ('runtime monitors (sys.monitoring) on the returns of the 9 elastic kernels, direct and '
             'inside convert(); long-double reference model; route-agreement monitor on observed values')
LEVEL_TEXT = ('exploration: every observed kernel return in hostile generated workloads is compared with '
              'the de Broglie/Bragg definition evaluated independently in 80-bit arithmetic at the 1e-11 / '
              '1e-5 bounds the property states; all routes through the shipped graphs are compared pairwise. '
              'Sampling of a continuous input space: held on the decided executions reported, not a proof.')
LEVEL_NOTE = ('trusted: numpy long double, the independent SI table (cross-checked against sc.to_unit at '
              'start-up, mpmath self-test per run), scipp containers/broadcasting, scipp.constants h and m_n')
DESIGN_REF = 'DESIGN.md section 4, C01'
