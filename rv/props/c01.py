"""C01 Elastic TOF kinematics reproduce the de Broglie / Bragg definitions.

Monitors sit on the return of the nine elastic kernels (observed through their
code objects, so calls made by ``convert`` through the graph tables are seen
too).  The oracle re-evaluates the definitions in long double from an
independent SI table and the constants scipp exposes.
"""

from __future__ import annotations

import enum

import numpy as np
import scipp as sc

from rv import operands as ops
from rv.oracle import si
from rv.trace import Tracer

ID = 'C01'
LEVEL = 'exploration'
RULE = (
    'cases = one kernel call (direct) or one convert() pipeline (in situ) with log-uniform '
    'SI magnitudes 1e-9..1e9, random unit per operand, dtype class, shape class '
    '(scalar/1-d/2-d broadcast/per-pixel/transposed/binned, and the layouts with operands on different, '
    'non-nested dims: every operand on a dim of its own, 2-d operands that pairwise share one dim, 2-d bins with '
    'Ltotal and two_theta along different bin dims, bins broadcast along geometry dims, random subsets of 4 '
    'dims; each forced once per kernel and shard, with the alternative route on the same operands; in situ: '
    'Ltotal[setting] x two_theta[pixel] coordinates, dense and binned) and forced angle classes; once per kernel '
    'and shard also: the data operand (and Ltotal) carrying variances in the scalar / per-pixel / own-axis / 2-d / '
    'event layouts (values judged as always; double-precision variances against first-order propagation of the '
    'power laws; inputs scipp itself refuses -- broadcast of an operand with variances, sin of one -- counted), '
    'dims named like operands / internal names, a DataArray with a mask as the data operand, keywords in any '
    'order, second use (same objects again, after display/copy, after a caught exception, result fed back), the '
    'kernel as a node of a caller-built transform_coords graph (graph displayed / deep-copied / pickled); in situ '
    'once per shard: masks (pixel, x, bin, event level), tof coordinates with variances, pixel dim named '
    'x / event / row, names as numpy.str_ / (str, Enum) and scatter as numpy.bool_; once per kernel, operand and '
    'shard: the operand modified IN PLACE between two calls with the same objects (in-place arithmetic, elements '
    'through .values, .values = ..., a slice, .unit = ...; sibling kernels on the same objects before / after), the '
    'earlier result must not follow the argument, the arguments must not follow a write into the result and the '
    'call must be repeatable after it, new operand objects at recycled addresses; coordinates of one DataArray '
    'modified in place between two convert() calls (dense, binned); dims whose names are not NFC / NFKC and '
    'normalise alike (distinct dims), decoy coordinates / quantity names that only normalise to the real names; '
    'three fresh interpreters per run that import only scippneutron.conversion.tof and call every kernel once '
    '(judged by the same oracle); one shard with the heavy cases '
    '(2**20+7 elements, 3 x 400001, 2**20+7 events; convert() of 2**18 events); a case is '
    'non-trivial unless scalar+SI+float64; distinct = distinct (kernel, dtypes, units, '
    'shape class, magnitude band) signatures'
)
ASSUMPTIONS = [
    'numpy long double (x87 80 bit) evaluates the closed forms with error << 1e-13',
    'h and m_n are the values scipp.constants exposes (as the property states)',
]
TOL64 = 1e-11
TOL32 = 1e-5

TIME_UNITS = ['ns', 'us', 'ms', 's', 'min']
LEN_UNITS = ['mm', 'cm', 'm', 'km', 'angstrom', 'nm']
WAV_UNITS = ['angstrom', 'nm', 'm', 'pm', 'mm']
EN_UNITS = ['ueV', 'meV', 'eV', 'J', 'keV']
ANG_UNITS = ['rad', 'deg', 'rad', 'deg', 'mrad', 'arcmin', 'urad', 'arcsec']  # any angular unit is a valid input
Q_UNITS = ['1/angstrom', '1/nm', '1/m']

C = None


def consts():
    global C
    if C is None:
        C = si.constants()
    return C


# ---------------------------------------------------------------- oracle ---
def _sin_half(tt_si):
    return np.sin(tt_si / si.LD(2))


def expected_si(kernel, a):
    """Expected result in SI (long double) from SI operand arrays."""
    c = consts()
    h, m = c['h'], c['m_n']
    two = si.LD(2)
    if kernel == 'wavelength_from_tof':
        return h * a['tof'] / (m * a['Ltotal']), 'length'
    if kernel == 'dspacing_from_tof':
        return h * a['tof'] / (m * a['Ltotal'] * two * _sin_half(a['two_theta'])), 'length'
    if kernel == 'energy_from_tof':
        return m * a['Ltotal'] ** 2 / (two * a['tof'] ** 2), 'energy'
    if kernel == 'energy_from_wavelength':
        return h * h / (two * m * a['wavelength'] ** 2), 'energy'
    if kernel == 'wavelength_from_energy':
        return h / np.sqrt(two * m * a['energy']), 'length'
    if kernel == 'Q_from_wavelength':
        return si.LD(4) * si.PI * _sin_half(a['two_theta']) / a['wavelength'], 'invlength'
    if kernel == 'wavelength_from_Q':
        return si.LD(4) * si.PI * _sin_half(a['two_theta']) / a['Q'], 'length'
    if kernel == 'dspacing_from_wavelength':
        return a['wavelength'] / (two * _sin_half(a['two_theta'])), 'length'
    if kernel == 'dspacing_from_energy':
        return h / np.sqrt(two * m * a['energy']) / (two * _sin_half(a['two_theta'])), 'length'
    raise KeyError(kernel)


OPERANDS = {
    'wavelength_from_tof': ('tof', 'Ltotal'),
    'dspacing_from_tof': ('tof', 'Ltotal', 'two_theta'),
    'energy_from_tof': ('tof', 'Ltotal'),
    'energy_from_wavelength': ('wavelength',),
    'wavelength_from_energy': ('energy',),
    'Q_from_wavelength': ('wavelength', 'two_theta'),
    'wavelength_from_Q': ('Q', 'two_theta'),
    'dspacing_from_wavelength': ('wavelength', 'two_theta'),
    'dspacing_from_energy': ('energy', 'two_theta'),
}
DATA_OPERAND = {k: v[0] for k, v in OPERANDS.items()}


def out_unit(kernel, args):
    if kernel in ('energy_from_tof', 'energy_from_wavelength'):
        return sc.Unit('meV')
    if kernel == 'Q_from_wavelength':
        return sc.Unit('one') / ops.elem_unit(args['wavelength'])
    return sc.Unit('angstrom')


# exponent of every power-law operand in the definitions above (two_theta enters through sin: no power law)
POWER = {
    'wavelength_from_tof': {'tof': 1, 'Ltotal': -1},
    'dspacing_from_tof': {'tof': 1, 'Ltotal': -1},
    'energy_from_tof': {'tof': -2, 'Ltotal': 2},
    'energy_from_wavelength': {'wavelength': -2},
    'wavelength_from_energy': {'energy': -0.5},
    'Q_from_wavelength': {'wavelength': -1},
    'wavelength_from_Q': {'Q': -1},
    'dspacing_from_wavelength': {'wavelength': 1},
    'dspacing_from_energy': {'energy': -0.5},
}


def _unwrap(v):
    """A DataArray passed where a Variable is documented stands in for its data."""
    return v.data if isinstance(v, sc.DataArray) else v


def _has_var(v):
    if ops.is_binned(v):
        return v.bins.constituents['data'].variances is not None
    return isinstance(v, sc.Variable) and v.variances is not None


def _var_as_values(v):
    """The variances of ``v`` as the values of a variable of the same layout (container work only)."""
    if ops.is_binned(v):
        c = v.bins.constituents
        d = c['data']
        return sc.bins(begin=c['begin'], end=c['end'], dim=c['dim'],
                       data=sc.array(dims=d.dims, values=np.asarray(d.variances), unit=None))
    if v.ndim == 0:
        return sc.scalar(float(v.variance), unit=None)
    return sc.array(dims=v.dims, values=np.asarray(v.variances), unit=None)


def _plain(v):
    return sc.values(v) if _has_var(v) else v


def _scipp_refuses_variances(names, args, withvar):
    """scipp itself (the container library) refuses two uses of variances, whatever the kernel does: an operand
    with variances that would have to be broadcast (correlations), and sin() of a value with variances."""
    if 'two_theta' in withvar:
        return 'sin of an angle with variances'
    union = ops.union_dims(*[args[n] for n in names])
    if any(set(args[n].dims) != union for n in withvar):
        return 'broadcast of an operand with variances'
    return None


def judge_kernel(ctx, kernel, args, res, exc, origin):
    """Compare one observed kernel return with the long-double definition."""
    names = OPERANDS[kernel]
    if any(isinstance(args[n], sc.DataArray) for n in names):
        ctx.event('DataArray operand')
    args = {n: _unwrap(args[n]) for n in names}
    res = _unwrap(res)
    case = {'kernel': kernel, 'origin': origin,
            'args': {n: _descr(args[n]) for n in names}}
    try:
        withvar = [n for n in names if _has_var(args[n])]
        refusal = _scipp_refuses_variances(names, args, withvar) if withvar else None
    except Exception:  # noqa: BLE001
        ctx.oracle_error(f'C01 {kernel} variances')
        return
    if withvar:
        case['variances'] = withvar
    if exc is not None:
        if refusal and isinstance(exc, sc.VariancesError):
            ctx.count('refused by scipp (VariancesError): ' + refusal)
            ctx.event('variances.refusal')
            return
        ctx.violation('kernel_raised', f'{kernel} raised {type(exc).__name__}: {exc}', case,
                      kernel=kernel)
        return
    data = args[DATA_OPERAND[kernel]]
    if ops.is_binned(data):
        # the result has the bins of the event operand; where a geometry operand sits on a dim the event
        # operand lacks, scipp broadcasts the bins along it (every copy keeps the sizes of its original)
        want_dims = ops.union_dims(*[args[n] for n in names])
        ok = ops.is_binned(res) and set(res.dims) == want_dims
        if ok:
            try:
                pdata = _plain(data)
                if res.dims == data.dims:
                    like = pdata
                elif set(res.dims) == set(data.dims):
                    like = pdata.transpose(res.dims)
                else:
                    like = sc.broadcast(pdata, dims=res.dims, shape=res.shape)
                want_sizes = ops.bin_sizes(like)
            except Exception:  # noqa: BLE001
                ctx.oracle_error(f'C01 {kernel} bin layout')
                return
            ok = np.array_equal(ops.bin_sizes(res), want_sizes)
        if not ok:
            ctx.violation('bin_layout', f'{kernel}: the result does not have the bins of its event operand '
                          f'(dims {data.dims} sizes {ops.bin_sizes(data).tolist()[:6]} -> '
                          + (f'dims {res.dims} sizes {ops.bin_sizes(res).tolist()[:6]}' if ops.is_binned(res)
                             else 'dense') + f'; expected dims {sorted(want_dims)})', case, kernel=kernel)
            return
    try:
        cls32 = ops.elem_dtype(data) == sc.DType.float32
        # mixed precision: a single-precision geometry operand limits the attainable
        # accuracy to single precision although the result class follows the data operand
        # the precision class of the result is the one of the data operand (the documented dtype
        # contract): a float32 geometry operand is an exact input of a double-precision computation
        any32 = cls32
        tol = TOL32 if any32 else TOL64
        want_dtype = sc.DType.float32 if cls32 else sc.DType.float64
        pres = _plain(res)
        a_si = {n: ops.align(_plain(args[n]), pres).astype(si.LD) * si.factor(ops.elem_unit(args[n]))
                for n in names}
        exp, _ = expected_si(kernel, a_si)
        ou = out_unit(kernel, args)
        exp_out = exp / si.factor(ou)
    except Exception:  # noqa: BLE001
        ctx.oracle_error(f'C01 {kernel}')
        return
    got_unit = ops.elem_unit(res)
    if got_unit != ou:
        ctx.violation('wrong_unit', f'{kernel}: unit {got_unit} expected {ou}', case, kernel=kernel)
        return
    if ops.elem_dtype(res) != want_dtype:
        ctx.violation('wrong_dtype', f'{kernel}: dtype {ops.elem_dtype(res)} expected {want_dtype}',
                      case, kernel=kernel)
        return
    want_dims = ops.union_dims(*[args[n] for n in names])
    if set(res.dims) != want_dims:
        ctx.violation('wrong_dims', f'{kernel}: dims {res.dims} expected {sorted(want_dims)}', case,
                      kernel=kernel)
        return
    got = np.ravel(ops.result_values(res))
    exp_out = np.ravel(exp_out)
    # elements whose inputs are not finite (dead pixels) are not judged; they must not affect the others
    sel = np.ones(got.shape, dtype=bool)
    for n in names:
        sel &= np.ravel(np.isfinite(np.asarray(a_si[n], dtype=np.float64)))
    if not np.all(sel):
        ctx.count('elements with non-finite inputs (not judged)', int(sel.size - np.count_nonzero(sel)))
        if not np.any(sel):
            return
    if cls32:
        # out of the float32 domain (reference not a normal float32): not judged
        fin = np.isfinite(exp_out.astype(np.float64))
        lo, hi = 1e-30, 1e30
        dom = fin & (np.abs(exp_out) > lo) & (np.abs(exp_out) < hi)
        if not np.all(dom | ~sel):
            ctx.count('out_of_float32_domain', int(np.count_nonzero(sel & ~dom)))
        sel &= dom
        if not np.any(sel):
            return
    exp_all = exp_out
    got, exp_out = got[sel], exp_out[sel]
    if got.size == 0:
        ctx.count('empty_results')
        return
    err = si.relerr(got, exp_out)
    worst = float(np.max(err)) if err.size else 0.0
    if not np.all(np.isfinite(np.asarray(got, dtype=np.float64))):
        ctx.violation('non_finite', f'{kernel}: non-finite result for finite positive input', case,
                      kernel=kernel)
        return
    ctx.dev(f'relerr32.{kernel}' if any32 else f'relerr64.{kernel}', worst)
    ctx.event(kernel)
    if worst > tol:
        i = int(np.argmax(err))
        case['worst'] = {'got': repr(np.ravel(got)[i]), 'expected': repr(np.ravel(exp_out)[i]),
                         'relerr': worst}
        ctx.violation('value', f'{kernel}: relative error {worst:.3g} > {tol:g}', case,
                      kernel=kernel, precision='float32' if any32 else 'float64')
        return
    if withvar:
        judge_variances(ctx, kernel, names, args, res, withvar, refusal, exp_all, sel, cls32, case)


def judge_variances(ctx, kernel, names, args, res, withvar, refusal, exp_all, sel, cls32, case):
    """Uncertainties: an operand with variances gives a result with variances, and where scipp's arithmetic defines
    the propagation unambiguously (uncorrelated power-law operands, nothing broadcast, double precision) they are
    the first-order ones: var(y)/y^2 = sum p_n^2 var(x_n)/x_n^2 with p_n the exponent of x_n in the definition."""
    if not _has_var(res):
        ctx.violation('variances', f'{kernel}: operand(s) {withvar} carry variances, the result has none', case,
                      kernel=kernel, mechanism='lost')
        return
    ctx.event('variances.' + kernel)
    if refusal:
        ctx.count('variances present, propagation not defined by scipp alone (not judged): ' + refusal)
        return
    if cls32 or any(ops.elem_dtype(args[n]) == sc.DType.float32 for n in withvar):
        # single precision (of the result or of an operand with variances): squares of intermediate values may
        # leave the float32 range and scipp defines no precision class for variances; presence only
        ctx.count('float32 variances: presence only')
        return
    try:
        pres = _plain(res)
        rel = si.LD(0)
        for n in withvar:
            x = np.ravel(ops.align(_plain(args[n]), pres)).astype(si.LD)
            vx = np.ravel(ops.align(_var_as_values(args[n]), pres)).astype(si.LD)
            sel = sel & np.isfinite(vx.astype(np.float64))
            with np.errstate(all='ignore'):
                rel = rel + si.LD(POWER[kernel][n]) ** 2 * vx / (x * x)
        exp_v = (exp_all * exp_all * rel)[sel]
        got_v = np.ravel(ops.result_values(_var_as_values(res)))[sel]
    except Exception:  # noqa: BLE001
        ctx.oracle_error(f'C01 {kernel} variances')
        return
    if got_v.size == 0:
        return
    pos = exp_v > 0
    bad0 = (~pos) & (got_v != 0)
    err = si.relerr(got_v[pos], exp_v[pos]) if np.any(pos) else np.zeros(0)
    worst = float(np.max(err)) if err.size else 0.0
    ctx.dev('variance relerr64.' + kernel, worst)
    ctx.event('variances.judged')
    tol = 4 * TOL64
    if worst > tol or np.any(bad0) or not np.all(np.isfinite(got_v.astype(np.float64))):
        i = int(np.argmax(err)) if err.size else 0
        case['worst_variance'] = {'got': repr(got_v[pos][i]) if err.size else None,
                                  'expected': repr(exp_v[pos][i]) if err.size else None, 'relerr': worst}
        ctx.violation('variances', f'{kernel}: variance differs from first-order propagation by {worst:.3g} > {tol:g}',
                      case, kernel=kernel, mechanism='value')


def _descr(v):
    from rv.snap import describe
    return describe(v)


# ------------------------------------------------------------- generators ---
def _draw_si(rng, n, lo=1e-9, hi=1e9):
    return 10.0 ** rng.uniform(np.log10(lo), np.log10(hi), size=n)


def _angles(rng, n, ctx):
    """2theta in (0, pi] with forced classes."""
    x = rng.uniform(1e-3, np.pi, size=n)
    k = rng.integers(0, 10, size=n)
    tiny = 10.0 ** rng.uniform(-12, -9, size=n)
    x = np.where(k == 0, tiny, x)
    x = np.where(k == 1, np.pi - 10.0 ** rng.uniform(-15, -12, size=n), x)
    x = np.where(k == 2, np.pi, x)
    x = np.where(k == 3, np.pi / 2 + rng.uniform(-1e-12, 1e-12, size=n), x)
    x = np.minimum(x, np.pi)
    if np.any(k == 0):
        ctx.hit('two_theta<1e-9')
    if np.any(k == 1):
        ctx.hit('two_theta within 1e-12 of pi')
    if np.any(k == 2):
        ctx.hit('two_theta == pi')
    return x


def _as_unit(x_si, unit):
    return x_si / float(si.lookup(sc.Unit(unit))[0])


# layouts in which the operands sit on different dims that are not nested in one another: scipp broadcasts to
# the union of the dims (outer product) and the definition holds element by element
#   outer_1d      every operand on a dim of its own            (tof[tof], Ltotal[setting], two_theta[pixel])
#   outer_2d      2-d operands that pairwise share one dim     (x[pixel,tof], Ltotal[pixel,setting], two_theta[tube,pixel])
#   binned_2d     2-d bins, geometry along different bin dims  (x[setting,pixel] binned, Ltotal[setting], two_theta[pixel])
#   binned_outer  bins broadcast along the geometry dims       (x[pixel] binned, Ltotal[setting], two_theta[tube])
#   free          every operand on a random subset of the dims (tube, pixel, setting, tof) in random order
OUTER_SHAPES = ['outer_1d', 'outer_2d', 'binned_2d', 'binned_outer', 'free']
SHAPES = ['scalar', '1d', '2d_broadcast', 'per_pixel_2d', 'per_pixel_1d', 'binned', 'transposed_2d'] + OUTER_SHAPES
POOL = ('tube', 'pixel', 'setting', 'tof')
# operand classes every kernel sees once per shard (beyond the layouts): which shape class, which operands carry
# variances ('data', 'Ltotal', 'two_theta'), dims renamed, data operand wrapped into a DataArray with a mask
#   var_*            the data operand carries VARIANCES: all scalars / one value per pixel next to per-pixel geometry /
#                    an axis of its own next to scalar or same-axis geometry / 2-d per pixel / events with variances
#   var_geometry     data and Ltotal both carry variances (uncorrelated, same dims)
#   var_refused_*    inputs scipp itself refuses (broadcast of an operand with variances, sin of one): counted
#   names            dims named like the operands / like names used inside scipp(neutron) ('event', 'x', 'row', ...)
#   dataarray        a DataArray (with a mask) stands in for the data Variable
#   graphnode        (auxiliary: used by graph_node) layouts that fit into one DataArray
CLASS_ROUNDS = {
    'var_scalar': {'shape': ['scalar'], 'var': ('data',)},
    'var_per_pixel': {'shape': ['per_pixel_1d'], 'var': ('data',)},
    'var_axis': {'shape': ['1d'], 'var': ('data',)},
    'var_2d': {'shape': ['per_pixel_2d'], 'var': ('data',)},
    'var_binned': {'shape': ['binned'], 'var': ('data',)},
    'var_geometry': {'shape': ['per_pixel_1d', 'scalar'], 'var': ('data', 'Ltotal')},
    'var_refused_broadcast': {'shape': ['2d_broadcast'], 'var': ('data',)},
    'var_refused_angle': {'shape': ['per_pixel_1d'], 'var': ('two_theta',)},
    'names': {'shape': ['binned', 'per_pixel_2d', 'outer_1d', 'binned_2d', 'free'], 'rename': True},
    'dataarray': {'shape': ['1d', '2d_broadcast', 'per_pixel_2d', 'per_pixel_1d', 'transposed_2d'], 'wrap': True},
    'graphnode': {'shape': ['per_pixel_2d', 'binned', 'per_pixel_1d', '1d'], 'aux': True},
    'names_unicode': {'shape': ['outer_1d', 'outer_2d', 'binned_2d', 'free', 'per_pixel_2d'], 'rename': 'unicode'},
    'inplace': {'shape': ['scalar', '1d', '2d_broadcast', 'per_pixel_2d', 'per_pixel_1d', 'transposed_2d', 'binned',
                          'outer_1d'], 'aux': True},
    'fresh': {'shape': ['scalar', '1d', '2d_broadcast', 'per_pixel_2d', 'per_pixel_1d', 'outer_1d'], 'aux': True},
}
FORCED_ROUNDS = ['slice', 'uniform', 'outer_1d', 'outer_2d', 'binned_2d', 'binned_outer',
                 *[c for c, v in CLASS_ROUNDS.items() if not v.get('aux')]]
HOSTILE_DIMS = ['event', 'x', 'row', 'Ltotal', 'two_theta', 'tof', 'vertex', 'range', 'rotation',
                '6f2d7c1e-1b0a-4c59-9a57-3f0e8d2b4a11']
# dim names that are not in NFC / NFKC form, in families whose members normalise to the same string: they are
# DIFFERENT names (a str is its code points), so operands on them are on different dims
UNICODE_DIMS = [
    ('\u212b', '\u00c5', 'A\u030a', '\uff21'),              # ANGSTROM SIGN, A-ring composed / decomposed, fullwidth A
    ('\u212a', 'K', '\uff2b', '\u2126'),                    # KELVIN SIGN, K, fullwidth K, OHM SIGN
    ('\u03a9', '\u2126', '\u00b5', '\u03bc'),               # Omega / OHM SIGN, MICRO SIGN / mu
    ('\ufb01', 'fi', '\u1112\u1161\u11ab', '\ud55c'),        # ligature fi / 'fi', conjoining jamo / the syllable
    (';', '\u037e', 'e\u0301', '\u00e9'),                   # Greek question mark / semicolon, e + acute / e-acute
    ('\uff54\uff4f\uff46', 'tof', 'two\uff3ftheta', 'two_theta'),   # fullwidth forms of names of operands
]


def _layout(rng, shape_cls, names, npix, nt):
    """(dims, shape) per operand and whether the data operand is binned, for the OUTER_SHAPES."""
    size = {'tube': int(rng.integers(1, 4)), 'pixel': npix, 'setting': int(rng.integers(2, 4)),
            'tof': min(nt, 8)}
    data = names[0]
    if shape_cls == 'outer_1d':
        d = {data: ['tof'], 'Ltotal': ['setting'], 'two_theta': ['pixel']}
    elif shape_cls == 'outer_2d':
        d = {data: ['pixel', 'tof'], 'Ltotal': ['pixel', 'setting'], 'two_theta': ['tube', 'pixel']}
    elif shape_cls == 'binned_2d':
        d = {data: ['setting', 'pixel'], 'Ltotal': ['setting'], 'two_theta': ['pixel']}
    elif shape_cls == 'binned_outer':
        d = {data: ['pixel'], 'Ltotal': ['setting'], 'two_theta': ['tube']}
    else:
        d = {n: [x for x in POOL if rng.random() < 0.5] for n in names}
    out = {}
    for n in names:
        dims = list(d[n])
        if len(dims) > 1 and rng.random() < 0.5:
            dims = [dims[i] for i in rng.permutation(len(dims))]
        out[n] = (dims, tuple(size[x] for x in dims))
    binned = shape_cls in ('binned_2d', 'binned_outer') or (
        shape_cls == 'free' and len(out[data][0]) > 0 and rng.random() < 0.3)
    return out, binned


def _non_nested(a, b):
    a, b = set(a), set(b)
    return bool(a - b) and bool(b - a)


def _mk(values, dims, unit, dtype):
    values = np.asarray(values)
    if dtype == 'int64':
        values = np.maximum(np.rint(values), 1).astype(np.int64)
    elif dtype == 'float32':
        values = values.astype(np.float32)
    if not dims:
        return sc.scalar(values.item() if values.ndim == 0 else values.ravel()[0].item(),
                         unit=unit, dtype=dtype)
    return sc.array(dims=dims, values=values, unit=unit, dtype=dtype)


def _add_variances(v, rng):
    """The same values with variances: relative standard deviations 1e-6..1e-1 (x 0.7..1.4 per element)."""
    rel = 10.0 ** rng.uniform(-6, -1)
    if ops.is_binned(v):
        c = v.bins.constituents
        d = c['data']
        vals = np.asarray(d.values)
        var = ((rel * vals.astype(np.float64)) ** 2 * rng.uniform(0.5, 2, size=vals.shape)).astype(vals.dtype)
        data = sc.array(dims=d.dims, values=vals, variances=var, unit=d.unit, dtype=d.dtype)
        return sc.bins(begin=c['begin'], end=c['end'], dim=c['dim'], data=data)
    vals = np.asarray(v.values)
    var = ((rel * vals.astype(np.float64)) ** 2 * rng.uniform(0.5, 2, size=vals.shape)).astype(vals.dtype)
    if v.ndim == 0:
        return sc.scalar(vals.item(), variance=var.item(), unit=v.unit, dtype=v.dtype)
    return sc.array(dims=v.dims, values=vals, variances=var, unit=v.unit, dtype=v.dtype)


def gen_case(rng, ctx, kernel=None, force=None):
    """One direct kernel call: dict(kernel, kwargs, signature, trivial)."""
    kernel = kernel or list(OPERANDS)[rng.integers(0, len(OPERANDS))]
    names = OPERANDS[kernel]
    slice_of_binned = None
    shape_cls = SHAPES[rng.integers(0, len(SHAPES))]
    npix, nt = int(rng.integers(1, 7)), int(rng.integers(1, 40))
    spec = CLASS_ROUNDS.get(force, {})
    with_var = set(spec.get('var', ()))
    if with_var == {'two_theta'} and 'two_theta' not in names:
        with_var = {'data'}
    if not force and rng.random() < 0.08:
        with_var = {'data'}  # anywhere: includes the inputs scipp refuses
    if spec:
        shape_cls = spec['shape'][rng.integers(0, len(spec['shape']))]
        npix, nt = int(rng.integers(2, 7)), int(rng.integers(2, 12))
    elif force in ('slice', 'uniform'):
        # deterministic part of every shard: each kernel sees binned data that is a slice of a larger binned
        # variable, and binned data with nearly uniform per-pixel geometry
        shape_cls, npix = 'binned', int(rng.integers(3, 7))
    elif force:
        # ... and every layout with operands on different, non-nested dims
        shape_cls, npix, nt = force, int(rng.integers(2, 6)), int(rng.integers(2, 9))
    layout, binned = None, shape_cls == 'binned'
    if shape_cls in OUTER_SHAPES:
        layout, binned = _layout(rng, shape_cls, names, npix, nt)
    data_name = names[0]
    r = rng.random()
    cls = 'float32' if r < 0.3 else ('int64' if r < 0.4 else 'float64')
    if cls == 'int64' and 'data' in with_var:
        cls = 'float64'  # only floating-point variables can carry variances
    kw, units, dtypes = {}, [], []
    mags = []
    for n in names:
        is_data = n == data_name
        if n == 'two_theta':
            unit = ANG_UNITS[rng.integers(0, len(ANG_UNITS))]
        elif n == 'tof':
            unit = TIME_UNITS[rng.integers(0, len(TIME_UNITS))]
        elif n == 'Ltotal':
            unit = LEN_UNITS[rng.integers(0, len(LEN_UNITS))]
        elif n == 'wavelength':
            unit = WAV_UNITS[rng.integers(0, len(WAV_UNITS))]
        elif n == 'energy':
            unit = EN_UNITS[rng.integers(0, len(EN_UNITS))]
        elif n == 'Q':
            unit = Q_UNITS[rng.integers(0, len(Q_UNITS))]
        # dims / size per shape class
        if layout is not None:
            dims, shape = layout[n]
        elif shape_cls == 'scalar':
            dims, shape = [], ()
        elif shape_cls == '1d':
            dims, shape = (['tof'], (nt,)) if is_data else ([], ())
            if not is_data and rng.random() < 0.5:
                dims, shape = ['tof'], (nt,)
        elif shape_cls == '2d_broadcast':
            dims, shape = (['tof'], (nt,)) if is_data else (['pixel'], (npix,))
        elif shape_cls == 'per_pixel_2d':
            dims, shape = (['pixel', 'tof'], (npix, nt)) if is_data else (['pixel'], (npix,))
        elif shape_cls == 'transposed_2d':
            # the data operand has its dims in the other order than the geometry operands (2-d, same labels)
            dims, shape = (['tof', 'pixel'], (nt, npix)) if is_data else (['pixel', 'tof'], (npix, nt))
        else:  # binned
            dims, shape = ['pixel'], (npix,)
        n_el = int(np.prod(shape)) if shape else 1
        if is_data:
            dt = cls
        else:
            rr = rng.random()
            dt = 'float32' if rr < 0.15 else ('int64' if rr < 0.27 else 'float64')
            if dt == 'int64' and n in with_var:
                dt = 'float64'
            if dt == 'int64':
                ctx.hit('integer geometry operand')
        # magnitudes
        if n == 'two_theta' and dt == 'int64':
            # whole degrees 1..180 or whole radians 1..3: exact integers in the unit given
            # whole numbers of the unit given (1..180 deg, 1..3 rad, 1..3141 mrad, ...): exact integers
            top = int(np.floor(float(si.PI / si.factor(sc.Unit(unit)))))
            v = rng.integers(1, top + 1, size=n_el).astype(float)
        elif n == 'two_theta':
            v = _angles(rng, n_el, ctx)
            if dt == 'float32':
                # keep float32 angles away from the forced double-precision classes
                v = np.clip(v, 1e-3, np.pi - 1e-3)
            if unit == 'deg':
                v = np.minimum(np.degrees(v), 180.0)
            elif unit != 'rad':
                v = np.minimum((v.astype(si.LD) / si.factor(sc.Unit(unit))).astype(np.float64),
                               float(si.PI / si.factor(sc.Unit(unit))))
            ctx.hit('angle unit ' + unit)
        else:
            if cls == 'float32' or dt == 'float32':
                # float32 domain: moderate magnitudes and units (DESIGN 3: domains)
                if n == 'tof':
                    unit = ['us', 'ms'][rng.integers(0, 2)]
                    s = _draw_si(rng, n_el, 1e-6, 1e-1)
                elif n == 'Ltotal':
                    unit = ['m', 'mm', 'cm'][rng.integers(0, 3)]
                    s = _draw_si(rng, n_el, 0.1, 1e3)
                elif n == 'wavelength':
                    unit = ['angstrom', 'nm'][rng.integers(0, 2)]
                    s = _draw_si(rng, n_el, 1e-12, 1e-8)
                elif n == 'energy':
                    unit = ['meV', 'eV'][rng.integers(0, 2)]
                    s = _draw_si(rng, n_el, 1.6e-26, 1.6e-18)
                else:  # Q
                    unit = ['1/angstrom', '1/nm'][rng.integers(0, 2)]
                    s = _draw_si(rng, n_el, 1e8, 1e12)
            elif dt == 'int64':
                s = None
            else:
                s = _draw_si(rng, n_el)
            if s is not None and not is_data and n_el > 1 and (rng.random() < 0.2 or force == 'uniform'):
                # a compact detector: per-pixel values that agree to 1e-9..1e-6 relative but are not equal
                s = s[0] * (1 + 10.0 ** rng.uniform(-9, -6) * rng.uniform(0, 1, size=n_el))
                ctx.hit('nearly uniform per-pixel geometry')
            if s is not None and not is_data and n_el > 2 and dt != 'int64' and rng.random() < 0.1:
                s = np.array(s, dtype=float)
                s[int(rng.integers(0, n_el))] = np.nan  # a pixel without geometry
                ctx.hit('dead pixel (NaN geometry)')
            if s is None:
                v = rng.integers(1, 2**26, size=n_el).astype(float)
            else:
                v = _as_unit(s, unit)
                mags.append(int(np.floor(np.log10(np.nanmedian(s)) / 3)))
        if binned and is_data:
            nbin = int(np.prod(shape))
            sizes = rng.integers(0, 12 if nbin <= 8 else 5, size=nbin)
            if rng.random() < 0.3:
                sizes[rng.integers(0, nbin)] = 0
            nev = int(sizes.sum())
            if n == 'two_theta':
                ev = v
            ev = np.resize(v, nev) if nev else np.zeros(0)
            if dt == 'int64':
                ev = np.maximum(np.rint(ev), 1).astype(np.int64)
            elif dt == 'float32':
                ev = ev.astype(np.float32)
            var = ops.make_binned(ev, sizes, dims, shape, unit, dtype=dt)
            if 'pixel' in dims and npix >= 3 and (rng.random() < 0.3 or force == 'slice'):
                # a slice of a larger binned variable: begin/end no longer span the event buffer
                lo_ = int(rng.integers(0, npix - 1))
                hi_ = int(rng.integers(lo_ + 1, npix + 1))
                var = var['pixel', lo_:hi_]
                slice_of_binned = (lo_, hi_)
                ctx.hit('binned operand is a slice of a larger one')
        else:
            var = _mk(v.reshape(shape) if shape else v, dims, unit, dt)
        if (not is_data and slice_of_binned is not None and isinstance(var, sc.Variable) and 'pixel' in var.dims
                and var.sizes['pixel'] != kw[data_name].sizes['pixel']):
            var = var['pixel', slice_of_binned[0]:slice_of_binned[1]].copy()
        if n in with_var or (is_data and 'data' in with_var):
            var = _add_variances(var, rng)
            ctx.hit('variances on ' + ('the data operand' if is_data else n))
        kw[n] = var
        units.append(unit)
        dtypes.append(dt)
    trivial = shape_cls == 'scalar' and all(d == 'float64' for d in dtypes) and not with_var and all(
        u in ('s', 'm', 'J', 'rad', '1/m') for u in units)
    if with_var:
        ctx.hit(f'variances: {force or "anywhere"}')
    if spec.get('rename'):
        # the kernels are dim-name agnostic: any names a caller may pick, also those of the operands themselves, of
        # the event dim inside the bins, and names scipp / scippneutron use internally
        uni = spec['rename'] == 'unicode'
        if uni:
            fam = UNICODE_DIMS[int(rng.integers(0, len(UNICODE_DIMS)))]
            pick = [fam[i] for i in rng.permutation(len(fam))]
        else:
            pick = [HOSTILE_DIMS[i] for i in rng.permutation(len(HOSTILE_DIMS))[:len(POOL)]]
        ren = dict(zip(POOL, pick, strict=True))
        if ops.is_binned(kw[data_name]) and not uni:
            # an outer dim named like the event dim of the buffer
            tgt = kw[data_name].dims[-1]
            for d0 in POOL:
                if ren[d0] == 'event':
                    ren[d0] = ren[tgt]
            ren[tgt] = 'event'
            ctx.hit('outer bin dim named like the event dim inside the bins')
        # (in two steps: a permutation of names cannot be renamed at once)
        kw = {n: (v.rename_dims({d: '_tmp_' + d for d in v.dims}).rename_dims({'_tmp_' + d: ren[d] for d in v.dims})
                  if v.dims else v) for n, v in kw.items()}
        ctx.hit('dims named with code points that are not NFC / NFKC (distinct names that normalise alike)' if uni
                else 'dims named like operands / internal names')
    if spec.get('wrap'):
        v = kw[data_name]
        m = rng.random(size=v.shape) < 0.4
        kw[data_name] = sc.DataArray(v, masks={'bad': sc.array(dims=v.dims, values=m) if v.dims else sc.scalar(bool(m))})
        ctx.hit('DataArray with a mask as the data operand')
    if rng.random() < 0.5 and len(kw) > 1:
        kw = dict(reversed(list(kw.items())))  # keyword-only parameters: any order
        ctx.hit('keywords in another order than the signature')
    # relation between the dims of the operands (whatever class produced them)
    od = {n: tuple(kw[n].dims) for n in names}
    crossed = any(_non_nested(od[a], od[b]) for i, a in enumerate(names) for b in names[i + 1:])
    if crossed:
        ctx.hit('operands on different, non-nested dims (outer product)')
    if len(names) == 3 and _non_nested(od[names[1]], od[names[2]]):
        ctx.hit('Ltotal and two_theta on different, non-nested dims')
    if ops.is_binned(kw[data_name]):
        if len(od[data_name]) > 1:
            ctx.hit('2-d bins')
        if any(set(od[n]) - set(od[data_name]) for n in names[1:]):
            ctx.hit('bins broadcast along a dim of a geometry operand')
    if shape_cls in OUTER_SHAPES:
        ctx.hit('layout ' + shape_cls)
    sig = (kernel, tuple(dtypes), tuple(units), shape_cls + ('/crossed' if crossed else '')
           + ('/var:' + '+'.join(sorted(with_var)) if with_var else '') + ('/' + force if spec and not with_var else ''),
           tuple(mags[:1]))
    return {'kernel': kernel, 'kw': kw, 'sig': sig, 'trivial': trivial, 'shape_cls': shape_cls}


# ---------------------------------------------------------------- in situ ---
_XDIMS = ('tof', 'wavelength', 'energy', 'dspacing', 'Q')


def _xnorm(v):
    # transform_coords renames the dim of a dimension-coordinate to the name of the target: one label for all
    ren = {d: 'tof' for d in v.dims if d in _XDIMS and d != 'tof'}
    return v.rename_dims(ren) if ren else v


def _pair(ctx, name, a, b, tol, case):
    a, b = _xnorm(_plain(_unwrap(a))), _xnorm(_plain(_unwrap(b)))
    ea = ops.result_values(a).astype(si.LD)
    # the elements of b laid out like those of a (two routes need not return their dims in the same order; a
    # round trip returns the union of the dims of its operands)
    eb = (ops.result_values(b) if a.dims == b.dims else ops.align(b, a)).astype(si.LD)
    if ops.elem_unit(a) != ops.elem_unit(b):
        fb = si.factor(ops.elem_unit(b)) / si.factor(ops.elem_unit(a))
        eb = eb * fb
    fin = np.isfinite(ea.astype(np.float64)) & np.isfinite(eb.astype(np.float64))
    if not np.all(fin):
        # elements with non-finite inputs (dead pixels): the kernel monitors decide those calls
        ctx.count('route elements not finite on a route (not compared)', int(fin.size - np.count_nonzero(fin)))
        ea, eb = ea[fin], eb[fin]
    err = si.relerr(ea, eb)
    worst = float(np.max(err)) if err.size else 0.0
    ctx.dev('route.' + ('f32:' if tol > 1e-8 else 'f64:') + name, worst)
    ctx.event('route.' + name)
    if worst > tol:
        ctx.violation('route_disagreement', f'{name}: routes differ by {worst:.3g} > {tol:g}',
                      case, route=name)


def direct_routes(ctx, K, kernel, kw, res):
    """The other routes to the quantity a direct kernel call returned, on the same operands (used for the
    layouts with operands on different dims, which convert() pipelines only reach in their simplest form)."""
    f32 = ops.elem_dtype(kw[DATA_OPERAND[kernel]]) == sc.DType.float32
    tol = 2 * (TOL32 if f32 else TOL64)
    case = {'direct_routes': kernel, 'args': {n: _descr(v) for n, v in kw.items()}}
    tt = kw.get('two_theta')
    if kernel == 'dspacing_from_tof':
        lam = K.wavelength_from_tof(tof=kw['tof'], Ltotal=kw['Ltotal'])
        _pair(ctx, 'direct.tof->d vs tof->lambda->d', res, K.dspacing_from_wavelength(wavelength=lam, two_theta=tt),
              tol, case)
        e = K.energy_from_tof(tof=kw['tof'], Ltotal=kw['Ltotal'])
        _pair(ctx, 'direct.tof->d vs tof->E->d', res, K.dspacing_from_energy(energy=e, two_theta=tt), tol, case)
    elif kernel == 'energy_from_tof':
        lam = K.wavelength_from_tof(tof=kw['tof'], Ltotal=kw['Ltotal'])
        _pair(ctx, 'direct.tof->E vs tof->lambda->E', res, K.energy_from_wavelength(wavelength=lam), tol, case)
    elif kernel == 'wavelength_from_tof':
        e = K.energy_from_tof(tof=kw['tof'], Ltotal=kw['Ltotal'])
        _pair(ctx, 'direct.tof->lambda vs tof->E->lambda', res, K.wavelength_from_energy(energy=e), tol, case)
    elif kernel == 'energy_from_wavelength':
        _pair(ctx, 'direct.lambda->E->lambda', K.wavelength_from_energy(energy=res), kw['wavelength'], tol, case)
    elif kernel == 'wavelength_from_energy':
        _pair(ctx, 'direct.E->lambda->E', K.energy_from_wavelength(wavelength=res), kw['energy'], tol, case)
    elif kernel == 'Q_from_wavelength':
        _pair(ctx, 'direct.lambda->Q->lambda', K.wavelength_from_Q(Q=res, two_theta=tt), kw['wavelength'], tol, case)
    elif kernel == 'wavelength_from_Q':
        _pair(ctx, 'direct.Q->lambda->Q', K.Q_from_wavelength(wavelength=res, two_theta=tt), kw['Q'], tol, case)
    elif kernel == 'dspacing_from_energy':
        lam = K.wavelength_from_energy(energy=kw['energy'])
        _pair(ctx, 'direct.E->d vs E->lambda->d', res, K.dspacing_from_wavelength(wavelength=lam, two_theta=tt),
              tol, case)
    elif kernel == 'dspacing_from_wavelength':
        # Q * d = 2 pi on the observed values
        q = K.Q_from_wavelength(wavelength=kw['wavelength'], two_theta=tt)
        qv = ops.result_values(q).astype(si.LD) * si.factor(ops.elem_unit(q))
        dv = ops.align(res, q).astype(si.LD) * si.factor(ops.elem_unit(res))
        prod = qv * dv
        fin = np.isfinite(prod.astype(np.float64))
        err = si.relerr(prod[fin], np.full(prod[fin].shape, 2 * si.PI))
        worst = float(np.max(err)) if err.size else 0.0
        ctx.dev('route.' + ('f32:' if f32 else 'f64:') + 'direct.Q*d=2pi', worst)
        ctx.event('route.direct.Q*d=2pi')
        if worst > tol:
            ctx.violation('route_disagreement', f'direct: Q*d differs from 2 pi by {worst:.3g}', case,
                          route='direct.Q*d')


# ------------------------------------------------- second use, graph nodes ---
def second_use(rng, ctx, K, kernel, origin):
    """The same operand objects passed again; display / copy / comparison of operands and result between two
    calls; the call repeated after an exception was raised and caught; the result fed back (other routes)."""
    import copy

    case = gen_case(rng, ctx, kernel)
    f, kw = getattr(K, kernel), case['kw']
    descr = {'second_use': kernel, 'args': {n: _descr(v) for n, v in kw.items()}}
    pristine = {n: v.copy() for n, v in kw.items()}
    try:
        r1 = f(**kw)
    except Exception:  # noqa: BLE001  (judged by the monitor)
        return case
    steps = []
    try:
        for v in [*kw.values(), r1]:
            repr(v), str(v), v.sizes, v.copy(), copy.copy(v), copy.deepcopy(v)
            if not ops.is_binned(v):
                v == v  # noqa: B015
            sc.identical(v, v, equal_nan=True)
            if hasattr(v, '_repr_html_'):
                v._repr_html_()
    except Exception:  # noqa: BLE001
        ctx.oracle_error('C01 second use: display/copy of operands')
        return case
    try:
        steps.append(('the same objects again', f(**kw)))
        steps.append(('copies taken before the first call', f(**pristine)))
        # an invalid call in between (string-valued operand): whatever it raises is caught
        origin['v'] = 'probe'
        try:
            f(**{**kw, OPERANDS[kernel][-1]: sc.array(dims=['pixel'], values=['a', 'b'])})
            ctx.count('second use: the invalid call in between did not raise')
        except Exception:  # noqa: BLE001
            ctx.count('second use: exception raised and caught in between')
        finally:
            origin['v'] = 'direct'
        steps.append(('after a caught exception', f(**kw)))
    except Exception:  # noqa: BLE001  (a valid call that raised: judged by the monitor)
        return case
    ctx.hit('second use of the same operands')
    for what, r in steps:
        ctx.event('second_use')
        if not sc.identical(r, r1, equal_nan=True):
            ctx.violation('second_use', f'{kernel}: {what}: the result differs from the first call', descr,
                          kernel=kernel)
            break
    mid = ctx.n_violations
    try:
        direct_routes(ctx, K, kernel, kw, r1)
    except Exception:  # noqa: BLE001
        if ctx.n_violations == mid:
            ctx.oracle_error('C01 second use: routes')
    return case


def graph_node(rng, ctx, K, kernel, k, origin):
    """The kernel as a node of a caller-built ``transform_coords`` graph: every parameter of the node is looked up
    as a coordinate (a parameter that is not an operand breaks this use).  The graph is displayed, copied and
    pickled before use."""
    import copy
    import pickle

    case = gen_case(rng, ctx, kernel, force='graphnode')
    kw = case['kw']
    names = OPERANDS[kernel]
    data = kw[names[0]]
    target = kernel.split('_from_')[0]
    geometry = {n: kw[n] for n in names[1:]}
    if ops.is_binned(data):
        c = data.bins.constituents
        ev = sc.DataArray(sc.ones(dims=[c['dim']], shape=[c['data'].sizes[c['dim']]], unit='counts'),
                          coords={names[0]: c['data']})
        da = sc.DataArray(sc.bins(begin=c['begin'], end=c['end'], dim=c['dim'], data=ev), coords=geometry)
    else:
        da = sc.DataArray(sc.ones(dims=data.dims, shape=data.shape, unit='counts'), coords={names[0]: data, **geometry})
    graph = {target: getattr(K, kernel)}
    repr(graph), str(graph)
    graph = [graph, copy.deepcopy(graph), pickle.loads(pickle.dumps(graph)), copy.copy(graph)][k % 4]
    descr = {'graph_node': kernel, 'args': {n: _descr(v) for n, v in kw.items()}}
    before, returned = ctx.n_violations, origin['returned']
    try:
        out = da.transform_coords(target, graph=graph)
        got = out.bins.coords[target] if ops.is_binned(data) and target in out.bins.coords else out.coords[target]
    except Exception as e:  # noqa: BLE001
        if origin['returned'] > returned:
            # the node was called and returned (judged by the monitor): scipp could not store what it returned
            ctx.count('graph node: transform_coords failed after the kernel had returned (not judged)')
        elif ctx.n_violations == before:  # not the kernel itself (the monitor has judged that)
            ctx.violation('graph_node', f'{kernel} as a node of a transform_coords graph: {type(e).__name__}: {e}',
                          descr, kernel=kernel)
        return case
    ctx.hit('kernel as a node of a caller-built graph')
    ctx.event('graph_node')
    try:
        want = getattr(K, kernel)(**kw)
        # transform_coords renames the dim of a dimension-coordinate and may flag the output as aligned: elements only
        g, w = _xnorm(got), _xnorm(want)
        same = (set(g.dims) == set(w.dims) and ops.elem_unit(g) == ops.elem_unit(w)
                and ops.elem_dtype(g) == ops.elem_dtype(w)
                and np.array_equal(ops.result_values(g), ops.align(w, g), equal_nan=True))
    except Exception:  # noqa: BLE001
        return case
    if not same:
        ctx.violation('graph_node', f'{kernel}: the coordinate computed through the graph differs from the direct call',
                      descr, kernel=kernel)
    return case


# --------------------------------- in-place modification, aliasing, recycled ids ---
UNITS_OF = {'tof': TIME_UNITS, 'Ltotal': LEN_UNITS, 'wavelength': WAV_UNITS, 'energy': EN_UNITS, 'Q': Q_UNITS,
            'two_theta': ANG_UNITS}
UNITS_OF_F32 = {'tof': ['us', 'ms'], 'Ltotal': ['m', 'mm', 'cm'], 'wavelength': ['angstrom', 'nm'],
                'energy': ['meV', 'eV'], 'Q': ['1/angstrom', '1/nm'], 'two_theta': ANG_UNITS}
# the ways a caller can change the contents of a variable it holds, without creating a new object
#   arith    in-place arithmetic on the whole variable (v *= g, v += delta)
#   element  single elements written through the numpy view v.values (v.value = x for a 0-d variable)
#   values   the whole array replaced through the setter v.values = ...
#   slice    a slice of the variable written (v[dim, a:b] as the target of an in-place operation / of .values = ...)
#   unit     v.unit = another unit of the same dimension (the numbers re-expressed, or -- angles, integers -- kept,
#            so that the same numbers now mean another quantity)
MUTATIONS = ['arith', 'element', 'values', 'slice', 'unit']


def _new_numbers(old, g):
    """Other valid numbers of the same class: floats scaled by 0.55..0.95 (angles stay in (0, pi]), whole numbers
    moved by one (down, the ones up: whole angles stay <= the largest whole angle below pi, which is >= 3)."""
    if old.dtype.kind in 'iu':
        return np.where(old > 1, old - 1, 2).astype(old.dtype)
    return (old.astype(np.float64) * g).astype(old.dtype)


def _mutate(rng, name, v, kind, f32case):
    """Change the contents of the operand ``v`` in place (the object stays the same).  Returns a short description,
    or None where the kind does not apply to this operand."""
    g = float(rng.uniform(0.55, 0.95))
    binned = ops.is_binned(v)
    buf = v.bins.constituents['data'] if binned else v  # (a view of the event buffer)
    old = np.array(buf.values)
    is_int = old.dtype.kind in 'iu'
    new = _new_numbers(old, g)
    if kind == 'arith':
        if not is_int:
            v *= sc.scalar(g)
            return 'v *= %r' % g
        delta = new - old
        buf += (sc.array(dims=buf.dims, values=delta, unit=buf.unit, dtype='int64') if buf.ndim
                else sc.scalar(int(delta), unit=buf.unit, dtype='int64'))
        return 'v += delta'
    if kind == 'element':
        if buf.ndim == 0:
            buf.value = new.item()
            return 'v.value = x'
        if old.size == 0:
            return None
        view = buf.values
        pick = rng.random(size=old.shape) < 0.4
        pick[tuple(int(rng.integers(0, m)) for m in old.shape)] = True
        view[pick] = new[pick]
        return 'v.values[mask] = x'
    if kind == 'values':
        buf.values = new
        return 'v.values = array'
    if kind == 'slice':
        if v.ndim == 0 or (binned and is_int):
            return None
        d = v.dims[int(rng.integers(0, v.ndim))]
        m = v.sizes[d]
        a = int(rng.integers(0, m))
        b = int(rng.integers(a + 1, m + 1))
        sl = v[d, a:b]
        if binned:
            sl *= sc.scalar(g)
            return 'v[dim, a:b] *= %r (bins)' % g
        sl.values = _new_numbers(np.array(sl.values), g)
        return 'v[dim, a:b].values = array'
    if kind == 'unit':
        cur = ops.elem_unit(v)
        cands = [u for u in dict.fromkeys((UNITS_OF_F32 if f32case else UNITS_OF)[name]) if sc.Unit(u) != cur]
        if not cands:
            return None
        nu = cands[int(rng.integers(0, len(cands)))]
        if name == 'two_theta':
            # the same numbers in a smaller angular unit are a smaller, valid angle
            smaller = [u for u in cands if si.factor(sc.Unit(u)) < si.factor(cur)]
            if smaller and (is_int or rng.random() < 0.5):
                nu = smaller[int(rng.integers(0, len(smaller)))]
                v.unit = nu
                return f'v.unit = {nu!r} (numbers kept)'
            if is_int:
                return None
        if is_int:
            v.unit = nu
            return f'v.unit = {nu!r} (numbers kept)'
        ratio = si.factor(cur) / si.factor(sc.Unit(nu))
        v.unit = nu
        buf = v.bins.constituents['data'] if binned else v
        buf.values = (old.astype(si.LD) * si.LD(g) * ratio).astype(old.dtype)
        return f'v.unit = {nu!r}; v.values = array'
    raise KeyError(kind)


def _same(a, b):
    return sc.identical(a, b, equal_nan=True)


def in_place(rng, ctx, K, kernel):
    """Operands that are modified IN PLACE between two calls, and aliasing between result and arguments.

    For every operand of the kernel and every way of changing a variable in place: call (and the sibling kernels
    that take a subset of the same operands, with the same objects); change the operand; (l.1) the result obtained
    earlier is unchanged; (k) call again with the very same objects -- the monitor judges the return against the
    definition for the contents the operands have NOW, siblings first every other time; the result equals that for
    fresh copies of the operands; (l.2) write into the result: the operands are unchanged and repeating the call
    gives the result again."""
    names = OPERANDS[kernel]
    f = getattr(K, kernel)
    siblings = [k2 for k2 in OPERANDS if k2 != kernel and set(OPERANDS[k2]) <= set(names)]
    turn = 0
    for n in names:
        for kind in MUTATIONS:
            turn += 1
            case = gen_case(rng, ctx, kernel, force='inplace')
            kw = case['kw']
            descr = {'in_place': kernel, 'operand': n, 'how': kind,
                     'args before': {m: _descr(v) for m, v in kw.items()}}
            f32case = any(ops.elem_dtype(v) == sc.DType.float32 for v in kw.values())

            def call_siblings(kw=kw):
                for k2 in siblings:
                    try:
                        getattr(K, k2)(**{m: kw[m] for m in OPERANDS[k2]})
                    except Exception:  # noqa: BLE001  (judged by the monitor)
                        pass

            try:
                r1 = f(**kw)
            except Exception:  # noqa: BLE001  (judged by the monitor; scipp's refusals of variances end here)
                ctx.count('in place: first call raised (judged by the monitor)')
                continue
            call_siblings()
            try:
                snap1 = r1.copy()
                others = {m: v.copy() for m, v in kw.items() if m != n}
                how = _mutate(rng, n, kw[n], kind, f32case)
            except Exception as e:  # noqa: BLE001  (container work of the harness that scipp refuses)
                ctx.count(f'in place: {kind} not possible on this operand ({type(e).__name__})')
                continue
            if how is None:
                ctx.count(f'in place: {kind} does not apply to this operand')
                continue
            descr['how'] = how
            descr['args'] = {m: _descr(v) for m, v in kw.items()}
            ctx.hit('in place: ' + kind)
            ctx.hit('in place: operand ' + n)
            ctx.case((*case['sig'], 'in place', n, kind), trivial=False)
            # (l.1) a result handed out earlier does not follow its arguments
            ctx.event('aliasing')
            if not _same(r1, snap1):
                ctx.violation('aliasing', f'{kernel}: the result obtained BEFORE {n} was modified in place ({how}) '
                              'changed with it', descr, kernel=kernel, mechanism='result follows argument')
            if any(not _same(kw[m], others[m]) for m in others):
                ctx.oracle_error('C01 in place: another operand changed with the modified one (harness)')
                continue
            # (k) the same objects again: results for the NEW contents (the monitor judges each return)
            if turn % 2:
                call_siblings()
            try:
                r2 = f(**kw)
            except Exception:  # noqa: BLE001  (judged by the monitor)
                continue
            if not turn % 2:
                call_siblings()
            try:
                fresh = f(**{m: v.copy() for m, v in kw.items()})
            except Exception:  # noqa: BLE001
                continue
            ctx.event('in_place')
            if not _same(r2, fresh):
                ctx.violation('in_place', f'{kernel}: after {n} was modified in place ({how}) the call with the same '
                              'objects differs from the call with fresh copies of them', descr, kernel=kernel,
                              operand=n)
                continue
            # (l.2) writing into the result leaves the arguments alone, and the call can be repeated
            try:
                r2 = f(**kw)  # (the call whose result is written to is the one made last)
            except Exception:  # noqa: BLE001
                continue
            try:
                snap2 = r2.copy()
                args_now = {m: v.copy() for m, v in kw.items()}
                if ops.is_binned(r2):
                    r2 *= sc.scalar(-3.0)
                else:
                    buf = np.array(r2.values)
                    r2.values = -3 * buf - 1
            except Exception as e:  # noqa: BLE001
                ctx.count(f'aliasing: the result could not be written ({type(e).__name__})')
                continue
            ctx.event('aliasing')
            bad = [m for m in kw if not _same(kw[m], args_now[m])]
            if bad:
                ctx.violation('aliasing', f'{kernel}: writing into the result changed the argument(s) {bad}', descr,
                              kernel=kernel, mechanism='argument follows result')
                continue
            try:
                r3 = f(**kw)
            except Exception:  # noqa: BLE001
                continue
            if not _same(r3, snap2):
                ctx.violation('aliasing', f'{kernel}: after writing into the result, the same call gives another '
                              'result than before', descr, kernel=kernel, mechanism='repeat after result was written')
    # fresh operand objects at recycled addresses: the objects of the previous call are gone, new ones with other
    # contents take their place in memory (CPython hands the same addresses out again)
    case = gen_case(rng, ctx, kernel, force='inplace')
    tmp = {m: v.copy() for m, v in case['kw'].items()}
    recycled = False
    for _ in range(4):
        ids = {id(v) for v in tmp.values()}
        try:
            f(**tmp)
        except Exception:  # noqa: BLE001
            break
        nxt = {}
        for m in list(tmp):
            v = tmp.pop(m)
            w = v.copy()
            del v
            try:
                _mutate(rng, m, w, 'values', False)
            except Exception:  # noqa: BLE001
                pass
            nxt[m] = w
        tmp = nxt
        recycled = recycled or bool(ids & {id(v) for v in tmp.values()})
    if recycled:
        ctx.hit('new operand objects at the addresses of released ones')


# ------------------------------------------------- first call in a fresh interpreter ---
_FRESH_SCRIPT = r"""
import json, sys
spec = json.loads(sys.stdin.read())
out = []
try:
    from scippneutron.conversion import tof as K   # the module of the entry points and nothing else
    import numpy as np
    import scipp as sc
    def build(o):
        if o['dtype'] == 'int64':
            vals = np.array(o['values'], dtype=np.int64)
        else:
            vals = np.array([float.fromhex(x) for x in o['values']], dtype=o['dtype'])
        if not o['dims']:
            return sc.scalar(vals.reshape(()).item() if o['dtype'] == 'int64' else vals.reshape(())[()],
                             unit=o['unit'], dtype=o['dtype'])
        return sc.array(dims=o['dims'], values=vals.reshape(o['shape']), unit=o['unit'], dtype=o['dtype'])
except BaseException as e:
    print(json.dumps({'import_error': type(e).__name__ + ': ' + str(e)}))
    sys.exit(0)
for call in spec:
    try:
        r = getattr(K, call['kernel'])(**{n: build(o) for n, o in call['args'].items()})
        out.append({'dims': list(r.dims), 'shape': list(r.shape), 'unit': str(r.unit), 'dtype': str(r.dtype),
                    'values': [float(x).hex() for x in np.ravel(r.values)]})
    except BaseException as e:
        out.append({'error': type(e).__name__ + ': ' + str(e)})
print(json.dumps({'results': out, 'modules': sorted(m for m in sys.modules if m.startswith('scippneutron'))}))
"""


def fresh_interpreter(rng, ctx, K, first):
    """Every kernel called in an interpreter that has imported nothing but ``scippneutron.conversion.tof`` (kernel
    number ``first`` is the very first call made there): judged like any other return, by the same oracle."""
    import json
    import os
    import subprocess
    import sys

    kernels = list(OPERANDS)
    order = kernels[first:] + kernels[:first]
    calls, spec = [], []
    for kernel in order:
        case = gen_case(rng, ctx, kernel, force='fresh')
        kw, a = case['kw'], {}
        units = dict(zip(OPERANDS[kernel], case['sig'][2], strict=True))
        for n, v in kw.items():
            dt = str(v.dtype)
            vals = np.ravel(v.values)
            a[n] = {'dims': list(v.dims), 'shape': list(v.shape), 'unit': units[n], 'dtype': dt,
                    'values': [int(x) for x in vals] if dt == 'int64' else [float(x).hex() for x in vals]}
            if sc.Unit(units[n]) != v.unit:
                ctx.oracle_error('C01 fresh interpreter: unit bookkeeping')
                return
        calls.append((kernel, kw))
        spec.append({'kernel': kernel, 'args': a})
    env = dict(os.environ)
    env['PYTHONPATH'] = os.pathsep.join(p for p in sys.path if p)
    try:
        proc = subprocess.run([sys.executable, '-c', _FRESH_SCRIPT], input=json.dumps(spec), capture_output=True,
                              text=True, env=env, timeout=300, check=False)
        reply = json.loads(proc.stdout.strip().splitlines()[-1])
    except Exception:  # noqa: BLE001
        ctx.oracle_error('C01 fresh interpreter: no reply from the subprocess')
        return
    if 'import_error' in reply:
        ctx.violation('fresh_interpreter', 'importing scippneutron.conversion.tof alone in a fresh interpreter failed: '
                      + reply['import_error'], {'fresh_interpreter': 'import'}, kernel='import')
        return
    ctx.hit('first call in a fresh interpreter with minimal imports')
    ctx.extra['fresh_interpreter_modules'] = reply.get('modules')
    for (kernel, kw), got in zip(calls, reply['results'], strict=True):
        descr = {'fresh_interpreter': kernel, 'first call there': order[0], 'args': {n: _descr(v) for n, v in kw.items()}}
        try:
            here = getattr(K, kernel)(**kw)  # (judged by the monitor)
        except Exception:  # noqa: BLE001
            here = None
        if 'error' in got:
            if here is not None:
                ctx.violation('fresh_interpreter', f'{kernel} raised in a fresh interpreter that imported only its '
                              f'module, not in the worker: {got["error"]}', descr, kernel=kernel)
            else:
                ctx.count('fresh interpreter: raised there and here (judged by the monitor)')
            continue
        if here is None:
            ctx.count('fresh interpreter: raised here only (judged by the monitor)')
            continue
        ctx.event('fresh_interpreter')
        if got['unit'] != str(here.unit) or got['dtype'] != str(here.dtype) or set(got['dims']) != set(here.dims):
            ctx.violation('fresh_interpreter', f'{kernel}: unit / dtype / dims in a fresh interpreter '
                          f'({got["unit"]}, {got["dtype"]}, {got["dims"]}) differ from those in the worker '
                          f'({here.unit}, {here.dtype}, {here.dims})', descr, kernel=kernel)
            continue
        try:
            vals = np.array([float.fromhex(x) for x in got['values']], dtype=got['dtype']).reshape(got['shape'])
            res = (sc.array(dims=got['dims'], values=vals, unit=here.unit, dtype=here.dtype) if got['dims']
                   else sc.scalar(vals[()], unit=here.unit, dtype=here.dtype))
        except Exception:  # noqa: BLE001
            ctx.oracle_error('C01 fresh interpreter: rebuilding the result')
            continue
        judge_kernel(ctx, kernel, kw, res, None, 'fresh interpreter')
        if not _same(res if res.dims == here.dims else res.transpose(here.dims), here):
            ctx.count('fresh interpreter: result differs from the one in the worker (within the bound if not reported)')


def decoy_names(rng, ctx, scn):
    """Coordinates whose names merely NORMALISE (NFKC) to 'tof' / 'Ltotal' / 'two_theta' sit next to the real ones and
    hold other numbers: they are other names, the conversion uses the real ones; and a quantity name that merely
    normalises to a valid one is not that quantity (refused, counted)."""
    npix, nt = int(rng.integers(2, 5)), int(rng.integers(2, 9))
    t = _draw_si(rng, npix * nt, 1e-6, 1e-1).reshape(npix, nt)
    L = _draw_si(rng, npix, 0.1, 1e3)
    tt = rng.uniform(1e-3, np.pi, size=npix)
    coords = {'tof': sc.array(dims=['pixel', 'tof'], values=_as_unit(t, 'us'), unit='us'),
              'Ltotal': sc.array(dims=['pixel'], values=L, unit='m'),
              'two_theta': sc.array(dims=['pixel'], values=tt, unit='rad')}
    # fullwidth letters / low line, SMALL ROMAN NUMERAL FIFTY, MODIFIER LETTER SMALL H, SOFT HYPHEN
    decoys = {'\uff54\uff4f\uff46': coords['tof'] * 1.37, 'Ltota\u217c': coords['Ltotal'] * 0.61,
              'two\uff3ftheta': coords['two_theta'] * 0.43, 'wavelengt\u02b0': coords['tof'] * 2.0,
              'Lt\u00adotal': coords['Ltotal'] * 3.0}
    plain = sc.DataArray(sc.ones(dims=['pixel', 'tof'], shape=[npix, nt]), coords=coords)
    da = sc.DataArray(sc.ones(dims=['pixel', 'tof'], shape=[npix, nt]), coords={**decoys, **coords})
    case = {'in_situ': 'decoy coordinate names', 'npix': npix, 'nt': nt}
    for target in ('wavelength', 'energy', 'dspacing', 'Q'):
        a = scn.convert(da, 'tof', target, scatter=True)
        b = scn.convert(plain, 'tof', target, scatter=True)
        _pair(ctx, 'decoy names: tof->' + target, a.coords[target], b.coords[target], 2 * TOL64, case)
        # (transform_coords renames the dim 'tof' of every coordinate: numbers and unit are what is compared)
        lost = [k for k in decoys if k not in a.coords or a.coords[k].unit != decoys[k].unit
                or not np.array_equal(a.coords[k].values, decoys[k].values)]
        if lost:
            ctx.violation('unicode_name', f'convert tof->{target}: coordinates named {lost} (not names of the graph) '
                          'were changed or dropped', case, mechanism='decoy changed')
    ctx.hit('convert: coordinates whose names only normalise to tof / Ltotal / two_theta next to the real ones')
    import unicodedata

    for origin, target in (('\uff54\uff4f\uff46', 'wavelength'), ('tof', '\uff44spacing'), ('tof', 'wavelength\u0301'),
                           ('tof', '\uff31'), ('tof', 'Q\u200b'), ('tof', 'energ\u0443')):
        try:
            out = scn.convert(da, origin, target, scatter=True)
        except Exception:  # noqa: BLE001
            ctx.count('refused: quantity name that only normalises to / looks like a valid one')
            ctx.event('unicode_name.refused')
            continue
        new = [k for k in out.coords if k not in da.coords]
        norm = unicodedata.normalize('NFKC', target)
        if new:
            ctx.violation('unicode_name', f'convert({origin!r}, {target!r}): not both are names of quantities (they only '
                          f'normalise to {unicodedata.normalize("NFKC", origin)!r}, {norm!r}), yet {new} was computed', case,
                          mechanism='normalised name accepted')
        else:
            ctx.count('accepted without computing anything: quantity name that only normalises to a valid one')


def in_situ_in_place(rng, ctx, scn, binned):
    """convert() again after the coordinates of the SAME DataArray were changed in place (through the views
    ``da.coords[...]`` / ``da.bins.coords[...]`` hands out): the kernels are judged by the monitor on what they are
    given; the converted coordinate equals the one of a deep copy of the modified input."""
    npix, nt = int(rng.integers(2, 5)), int(rng.integers(2, 9))
    L = _draw_si(rng, npix, 0.1, 1e3)
    tt = rng.uniform(1e-3, np.pi, size=npix)
    coords = {'Ltotal': sc.array(dims=['pixel'], values=L, unit='m'),
              'two_theta': sc.array(dims=['pixel'], values=tt, unit='rad')}
    if binned:
        sizes = rng.integers(1, 5, size=npix)
        nev = int(sizes.sum())
        ev = sc.DataArray(sc.ones(dims=['event'], shape=[nev], unit='counts'),
                          coords={'tof': sc.array(dims=['event'], values=_as_unit(_draw_si(rng, nev, 1e-6, 1e-1), 'us'),
                                                  unit='us')})
        end = np.cumsum(sizes)
        da = sc.DataArray(sc.bins(begin=sc.array(dims=['pixel'], values=end - sizes, unit=None),
                                  end=sc.array(dims=['pixel'], values=end, unit=None), dim='event', data=ev),
                          coords=coords)
    else:
        t = _draw_si(rng, npix * nt, 1e-6, 1e-1).reshape(npix, nt)
        da = sc.DataArray(sc.ones(dims=['pixel', 'tof'], shape=[npix, nt]),
                          coords={**coords, 'tof': sc.array(dims=['pixel', 'tof'], values=_as_unit(t, 'us'), unit='us')})
    case = {'in_situ': 'coordinates modified in place between two convert() calls', 'binned': binned, 'npix': npix}

    def tofc():
        return da.bins.coords['tof'] if binned else da.coords['tof']

    def get(d, name):
        return d.bins.coords[name] if binned and name in d.bins.coords else d.coords[name]

    steps = [('nothing yet', lambda: None),
             ('two_theta *= g', lambda: da.coords['two_theta'].__imul__(sc.scalar(float(rng.uniform(0.6, 0.95))))),
             ('Ltotal.values[i] = x', lambda: da.coords['Ltotal'].values.__setitem__(
                 int(rng.integers(0, npix)), float(_draw_si(rng, 1, 0.1, 1e3)[0]))),
             ('tof *= g', lambda: tofc().__imul__(sc.scalar(float(rng.uniform(0.6, 0.95))))),
             ('two_theta: unit deg, values rewritten', lambda: (
                 setattr(da.coords['two_theta'], 'values', np.minimum(np.degrees(da.coords['two_theta'].values), 180.0)),
                 setattr(da.coords['two_theta'], 'unit', 'deg'))),
             ('Ltotal.unit = cm (numbers kept)', lambda: setattr(da.coords['Ltotal'], 'unit', 'cm'))]
    for what, change in steps:
        try:
            change()
        except Exception as e:  # noqa: BLE001  (container work that scipp refuses)
            ctx.count(f'in situ, in place: {what} not possible ({type(e).__name__})')
            continue
        for target in ('dspacing', 'Q', 'energy'):
            a = scn.convert(da, 'tof', target, scatter=True)
            b = scn.convert(da.copy(), 'tof', target, scatter=True)
            ctx.count('convert_calls', 2)
            _pair(ctx, 'in place between two convert(): tof->' + target, get(a, target), get(b, target), 2 * TOL64,
                  {**case, 'after': what})
    ctx.hit('convert: coordinates modified in place between two calls, ' + ('binned' if binned else 'dense'))


class _QuantityName(str, enum.Enum):
    """Names of the quantities as members of a ``(str, Enum)`` (a str wherever a str is documented)."""
    tof = 'tof'
    wavelength = 'wavelength'
    energy = 'energy'
    dspacing = 'dspacing'
    Q = 'Q'


# in-situ classes every shard drives once: (crossed, binned, extras)
#   masks      per-pixel mask, mask along the x dim (dense), bin-level and event-level masks (binned)
#   variances  the tof coordinate carries variances (dense: 2-d per pixel; binned: per event)
#   pixel dim  named like the event dim inside the bins / like a name used internally
#   names      origin / target / start given as numpy.str_ or (str, Enum) members, scatter as numpy.bool_
ROUTE_ROUNDS = [
    {'name': 'crossed_dense', 'crossed': True, 'binned': False},
    {'name': 'crossed_binned', 'crossed': True, 'binned': True},
    {'name': 'dense: masks, variances, dim x, numpy.str_', 'crossed': False, 'binned': False, 'masks': True,
     'var': True, 'pixel_dim': 'x', 'names': 'numpy'},
    {'name': 'binned: masks, variances, dim event, (str, Enum)', 'crossed': False, 'binned': True, 'masks': True,
     'var': True, 'pixel_dim': 'event', 'names': 'enum'},
    {'name': 'crossed binned: event variances, masks, dim row', 'crossed': True, 'binned': True, 'masks': True,
     'var': True, 'pixel_dim': 'row', 'names': None},
]


def routes_case(rng, ctx, scn, force=None, size=None):
    """Drive all routes through the shipped graphs via convert().

    ``crossed``: Ltotal depends on a dim ``setting`` only and two_theta on ``pixel`` only (a bank on a sphere
    around the sample measured with several source settings), so the two geometry coordinates sit on different
    dims and every kernel has to return their outer product."""
    npix, nt = int(rng.integers(1, 6)), int(rng.integers(2, 30))
    f32 = rng.random() < 0.3
    binned = rng.random() < 0.35
    crossed = rng.random() < 0.25
    masks, with_var = rng.random() < 0.15, rng.random() < 0.15
    pixel_dim, names_as = 'pixel', None
    if force:
        crossed, binned = force['crossed'], force['binned']
        masks, with_var = force.get('masks', False), force.get('var', False)
        pixel_dim, names_as = force.get('pixel_dim', 'pixel'), force.get('names')
    if size:
        npix, nt = size
    if with_var and crossed and not binned:
        with_var = False  # scipp refuses to broadcast a coordinate with variances along the other geometry dim
    nset = int(rng.integers(2, 4)) if crossed else None
    if crossed and not size:
        npix, nt = max(npix, 2), min(nt, 12)
    tunit = ['us', 'ms', 'ns', 's'][rng.integers(0, 2 if f32 else 4)]
    lunit = ['m', 'mm', 'cm', 'km'][rng.integers(0, 3 if f32 else 4)]
    n_t = nt if (size and binned) else npix * nt  # (events are drawn nt at a time)
    t_si = _draw_si(rng, n_t, 1e-6, 1e-1) if f32 else _draw_si(rng, n_t, 1e-7, 1e3)
    l_si = _draw_si(rng, nset if crossed else npix, 0.1, 1e3)
    tt = _angles(rng, npix, ctx)
    if f32:
        tt = np.clip(tt, 1e-3, np.pi - 1e-3)
    dt = 'float32' if f32 else 'float64'
    tol = 2 * (TOL32 if f32 else TOL64)
    coords = {
        'Ltotal': sc.array(dims=['setting' if crossed else 'pixel'], values=_as_unit(l_si, lunit), unit=lunit),
        'two_theta': sc.array(dims=['pixel'], values=tt, unit='rad'),
    }
    odims, oshape = (['setting', 'pixel'], [nset, npix]) if crossed else (['pixel'], [npix])
    if binned:
        sizes = rng.integers(0, 2 * nt // npix + 2, size=int(np.prod(oshape)))
        if force and not sizes.sum():
            sizes[0] = 3
        nev = int(sizes.sum())
        tv = np.resize(_as_unit(t_si, tunit), nev).astype(dt)
        tcoord = sc.array(dims=['event'], values=tv, unit=tunit, dtype=dt)
        if with_var:
            tcoord = _add_variances(tcoord, rng)
        ev = sc.DataArray(sc.ones(dims=['event'], shape=[nev], unit='counts'), coords={'tof': tcoord})
        if masks:
            ev.masks['event_level'] = sc.array(dims=['event'], values=rng.random(size=nev) < 0.3)
        end = np.cumsum(sizes)
        da = sc.DataArray(sc.bins(begin=sc.array(dims=odims, values=(end - sizes).reshape(oshape), unit=None),
                                  end=sc.array(dims=odims, values=end.reshape(oshape), unit=None),
                                  dim='event', data=ev), coords=coords)
        if nev == 0:
            return None
    else:
        tof = sc.array(dims=['pixel', 'tof'], values=_as_unit(t_si, tunit).reshape(npix, nt),
                       unit=tunit, dtype=dt)
        if with_var:
            tof = _add_variances(tof, rng)
        da = sc.DataArray(sc.ones(dims=[*odims, 'tof'], shape=[*oshape, nt]),
                          coords={**coords, 'tof': tof})
        if masks:
            da.masks['along_x'] = sc.array(dims=['pixel', 'tof'], values=rng.random(size=(npix, nt)) < 0.3)
    if masks:
        da.masks['per_pixel'] = sc.array(dims=['pixel'], values=rng.random(size=npix) < 0.4)
        if crossed:
            da.masks['bin_level'] = sc.array(dims=odims, values=rng.random(size=oshape) < 0.3)
        ctx.hit('convert: masks on the input, ' + ('bin-level and event-level' if binned else 'per pixel and along x'))
    if with_var:
        ctx.hit('convert: tof coordinate with variances, ' + ('events' if binned else 'dense'))
    if pixel_dim != 'pixel':
        da = da.rename_dims({'pixel': pixel_dim})
        ctx.hit(f'convert: pixel dim named {pixel_dim!r}')
    if names_as == 'numpy':
        wrap, flag = np.str_, np.bool_
        ctx.hit('convert / graph factories: names as numpy.str_, scatter as numpy.bool_')
    elif names_as == 'enum':
        wrap, flag = _QuantityName, np.bool_
        ctx.hit('convert / graph factories: names as (str, Enum) members')
    else:
        wrap, flag = str, bool
    if crossed:
        ctx.hit('convert: Ltotal and two_theta coordinates on different dims, ' + ('binned' if binned else 'dense'))
    case = {'in_situ': 'routes', 'f32': f32, 'binned': binned, 'tunit': tunit, 'lunit': lunit,
            'npix': npix, 'nt': nt, 'crossed_nset': nset, 'masks': masks, 'variances': with_var,
            'pixel_dim': pixel_dim, 'names_as': names_as}

    def co(d, name):
        return d.bins.coords[name] if binned else d.coords[name]

    def only(d, keep):
        # keep only the named event/dense coordinate plus the geometry, so that the next
        # conversion really recomputes (an existing coordinate would be returned as is)
        names = ('tof', 'wavelength', 'energy', 'dspacing', 'Q')
        if binned:
            drop = [n for n in names if n in d.bins.coords and n != keep]
            d = d.bins.drop_coords(drop) if drop else d
            dd = [n for n in names if n in d.coords]
            return d.drop_coords(dd) if dd else d
        drop = [n for n in names if n in d.coords and n != keep]
        return d.drop_coords(drop) if drop else d

    def conv(d, origin, target, scatter):
        out = scn.convert(only(d, origin), wrap(origin), wrap(target), scatter=flag(scatter))
        ctx.count('convert_calls')
        return out

    tag = ('f32:' if f32 else 'f64:')
    lam = conv(da, 'tof', 'wavelength', scatter=True)
    e_direct = conv(da, 'tof', 'energy', scatter=True)
    e_via = conv(lam, 'wavelength', 'energy', scatter=True)
    _pair(ctx, 'tof->E vs tof->lambda->E', co(e_direct, 'energy'), co(e_via, 'energy'), tol, case)
    d_direct = conv(da, 'tof', 'dspacing', scatter=True)
    d_lam = conv(lam, 'wavelength', 'dspacing', scatter=True)
    d_e = conv(e_direct, 'energy', 'dspacing', scatter=True)
    _pair(ctx, 'tof->d vs tof->lambda->d', co(d_direct, 'dspacing'), co(d_lam, 'dspacing'), tol, case)
    _pair(ctx, 'tof->d vs tof->E->d', co(d_direct, 'dspacing'), co(d_e, 'dspacing'), tol, case)
    lam_back = conv(e_via, 'energy', 'wavelength', scatter=True)
    _pair(ctx, 'lambda->E->lambda', co(lam, 'wavelength'), co(lam_back, 'wavelength'), tol, case)
    q = conv(lam, 'wavelength', 'Q', scatter=True)
    lam_q = conv(q, 'Q', 'wavelength', scatter=True)
    _pair(ctx, 'lambda->Q->lambda', co(lam, 'wavelength'), co(lam_q, 'wavelength'), tol, case)
    # Q*d = 2 pi, on the observed values
    qa, da_ = _xnorm(co(q, 'Q')), _xnorm(co(d_lam, 'dspacing'))
    qv = ops.result_values(qa).astype(si.LD)
    dv = (ops.result_values(da_) if da_.dims == qa.dims else ops.align(da_, qa)).astype(si.LD)
    prod = qv * dv
    err = si.relerr(prod, np.full(prod.shape, 2 * si.PI))
    worst = float(np.max(err)) if err.size else 0.0
    ctx.dev('route.' + tag + 'Q*d=2pi', worst)
    ctx.event('route.Q*d=2pi')
    if worst > tol:
        ctx.violation('route_disagreement', f'Q*d differs from 2 pi by {worst:.3g}', case,
                      route='Q*d')
    # the public graph factories must wire the same kernels as convert() uses
    from scippneutron.conversion.graph import beamline as GB
    from scippneutron.conversion.graph import tof as GT
    ref = {'wavelength': lam, 'energy': e_direct, 'dspacing': d_direct,
           'Q': conv(da, 'tof', 'Q', scatter=True)}
    _pair(ctx, 'tof->Q vs tof->lambda->Q', co(ref['Q'], 'Q'), co(q, 'Q'), tol, case)
    for fname, start, target in (('elastic', 'tof', 'dspacing'), ('elastic_dspacing', 'tof', 'dspacing'),
                                 ('elastic_energy', 'tof', 'energy'), ('elastic_Q', 'tof', 'Q'),
                                 ('kinematic', 'tof', 'wavelength'), ('kinematic', 'tof', 'energy'),
                                 ('elastic_dspacing', 'wavelength', 'dspacing'), ('elastic_Q', 'wavelength', 'Q'),
                                 ('elastic_energy', 'wavelength', 'energy'), ('elastic_dspacing', 'energy', 'dspacing')):
        src = {'tof': da, 'wavelength': lam, 'energy': e_direct}[start]
        graph = {**GB.beamline(scatter=flag(True)), **getattr(GT, fname)(wrap(start))}
        out = only(src, start).transform_coords(target, graph=graph)
        ctx.count('factory_graph_calls')
        want = ref[target]
        if start != 'tof':
            want = conv(src, start, target, scatter=True)
        _pair(ctx, f'graph.{fname}({start})->{target} vs convert', co(out, target), co(want, target), tol, case)
    return ('routes', dt, tunit, lunit, ('binned' if binned else 'dense') + ('/crossed' if crossed else '')
            + ('/masks' if masks else '') + ('/var' if with_var else '')
            + (f'/{pixel_dim}' if pixel_dim != 'pixel' else '') + (f'/{names_as}' if names_as else ''))


# -------------------------------------------------------------- heavy cases ---
# sizes beyond the thresholds at which scipp splits work between threads / chunks, and not a multiple of anything
HEAVY_N = 2**20 + 7
HEAVY_2D = (3, 400001)


def heavy_cases(rng, ctx, K, scn, origin, turn):
    """Large cases per kernel: 1-d of 2**20+7 elements next to scalar geometry for every kernel, and 3 x 400001 per
    pixel / 2**20+7 events in ~1000 bins taking turns over the kernels (both for the first kernel); one large
    binned convert() pipeline.  Moderate magnitudes (float32 domain)."""
    def draw(n, name):
        lo, hi = {'tof': (1e-6, 1e-1), 'Ltotal': (0.1, 1e3), 'wavelength': (1e-12, 1e-8), 'energy': (1.6e-26, 1.6e-18),
                  'Q': (1e8, 1e12)}[name]
        return _draw_si(rng, n, lo, hi)

    unit = {'tof': 'us', 'Ltotal': 'm', 'wavelength': 'angstrom', 'energy': 'meV', 'Q': '1/angstrom', 'two_theta': 'rad'}
    for k, kernel in enumerate(OPERANDS):
        names = OPERANDS[kernel]
        layouts = ('1d', 'per_pixel_2d', 'binned')
        for layout in (layouts if k == 0 else (layouts[0], layouts[1 + (k + turn) % 2])):
            dt = 'float32' if k and (k + turn) % 4 == 0 else 'float64'
            kw = {}
            nbin = 1000
            for n in names:
                is_data = n == names[0]
                if layout == '1d':
                    dims, shape = (['x'], (HEAVY_N,)) if is_data else ([], ())
                elif layout == 'per_pixel_2d':
                    dims, shape = (['pixel', 'tof'], HEAVY_2D) if is_data else (['pixel'], HEAVY_2D[:1])
                else:
                    dims, shape = ['pixel'], (nbin,)
                n_el = HEAVY_N if (is_data and layout == 'binned') else (int(np.prod(shape)) if shape else 1)
                v = rng.uniform(1e-3, np.pi, size=n_el) if n == 'two_theta' else _as_unit(draw(n_el, n), unit[n])
                if is_data and layout == 'binned':
                    cuts = np.sort(rng.integers(0, HEAVY_N + 1, size=nbin - 1))
                    sizes = np.diff(np.concatenate([[0], cuts, [HEAVY_N]]))
                    kw[n] = ops.make_binned(v.astype(dt), sizes, dims, shape, unit[n], dtype=dt)
                else:
                    kw[n] = _mk(v.reshape(shape) if shape else v, dims, unit[n], dt if is_data else 'float64')
            try:
                getattr(K, kernel)(**kw)
            except Exception:  # noqa: BLE001  (judged by the monitor)
                pass
            ctx.hit(f'heavy: {layout}')
            ctx.event('heavy')
            ctx.case((kernel, 'heavy', layout, dt))
    origin['v'] = 'convert'
    try:
        sig = routes_case(rng, ctx, scn, force={'name': 'heavy', 'crossed': False, 'binned': True, 'masks': True},
                          size=(1000, HEAVY_N // 4 + 5))
        ctx.hit('heavy: convert pipeline')
        if sig:
            ctx.case((*sig, 'heavy'))
    except Exception as e:  # noqa: BLE001
        ctx.violation('convert_raised', f'convert raised {type(e).__name__}: {e}', {'in_situ': 'routes', 'heavy': True})
    origin['v'] = 'direct'


# ------------------------------------------------------------------ driver ---
DIRECT_ROUTES = ['direct.tof->d vs tof->lambda->d', 'direct.tof->d vs tof->E->d', 'direct.tof->E vs tof->lambda->E',
                 'direct.tof->lambda vs tof->E->lambda', 'direct.lambda->E->lambda', 'direct.E->lambda->E',
                 'direct.lambda->Q->lambda', 'direct.Q->lambda->Q', 'direct.E->d vs E->lambda->d',
                 'direct.Q*d=2pi']
def plan(tier, seed):
    if tier == 'quick':
        # 13 shards + the heavy cases on a shard of their own: one wave together with the two environment variants
        return [{'calls': 350, 'routes': 45} for _ in range(13)] + [{'calls': 0, 'routes': 0, 'heavy': True}]
    return [{'calls': 8000, 'routes': 1000, 'heavy': i == 15} for i in range(16)]


def requirements(tier):
    ev = {k: 20 for k in OPERANDS}
    ev.update({'route.Q*d=2pi': 20, 'route.lambda->E->lambda': 20})
    ev.update({'route.' + r: 16 for r in DIRECT_ROUTES})
    ev.update({'variances.' + k: 20 for k in OPERANDS})
    ev.update({'variances.judged': 100, 'variances.refusal': 20, 'second_use': 50, 'graph_node': 50,
               'DataArray operand': 50, 'heavy': 19, 'in_place': 500, 'aliasing': 1000, 'fresh_interpreter': 27,
               'unicode_name.refused': 30, 'route.decoy names: tof->dspacing': 10, 'route.decoy names: tof->Q': 10,
               'route.in place between two convert(): tof->dspacing': 100})
    return {'events': ev,
            'forced': ['two_theta<1e-9', 'two_theta within 1e-12 of pi', 'two_theta == pi',
                       'integer geometry operand', 'binned operand is a slice of a larger one',
                       'nearly uniform per-pixel geometry', 'dead pixel (NaN geometry)',
                       'operands on different, non-nested dims (outer product)',
                       'Ltotal and two_theta on different, non-nested dims',
                       '2-d bins', 'bins broadcast along a dim of a geometry operand',
                       'convert: Ltotal and two_theta coordinates on different dims, dense',
                       'convert: Ltotal and two_theta coordinates on different dims, binned']
            + ['variances: ' + c for c, v in CLASS_ROUNDS.items() if v.get('var')]
            + ['variances on the data operand', 'variances on Ltotal', 'variances on two_theta',
               'dims named like operands / internal names', 'outer bin dim named like the event dim inside the bins',
               'DataArray with a mask as the data operand', 'keywords in another order than the signature',
               'second use of the same operands', 'kernel as a node of a caller-built graph',
               'convert: masks on the input, bin-level and event-level',
               'convert: masks on the input, per pixel and along x',
               'convert: tof coordinate with variances, events', 'convert: tof coordinate with variances, dense',
               "convert: pixel dim named 'x'", "convert: pixel dim named 'event'", "convert: pixel dim named 'row'",
               'convert / graph factories: names as numpy.str_, scatter as numpy.bool_',
               'convert / graph factories: names as (str, Enum) members',
               'heavy: 1d', 'heavy: per_pixel_2d', 'heavy: binned', 'heavy: convert pipeline',
               'dims named with code points that are not NFC / NFKC (distinct names that normalise alike)',
               'convert: coordinates whose names only normalise to tof / Ltotal / two_theta next to the real ones',
               'first call in a fresh interpreter with minimal imports',
               'convert: coordinates modified in place between two calls, dense',
               'convert: coordinates modified in place between two calls, binned',
               'new operand objects at the addresses of released ones']
            + ['in place: ' + k for k in MUTATIONS]
            + ['in place: operand ' + n for n in UNITS_OF]
            + ['layout ' + c for c in OUTER_SHAPES]
            + ['angle unit ' + u for u in sorted(set(ANG_UNITS))]}


def run(shard, ctx):
    import scippneutron as scn
    from scippneutron.conversion import tof as K

    bad = si.self_test()
    if bad:
        ctx.inconclusive_because('unit table cross-check failed: ' + '; '.join(bad))
        return
    rng = np.random.Generator(np.random.PCG64([shard['seed'], shard['index'], 1]))
    tr = Tracer()
    origin = {'v': 'direct', 'returned': 0}

    def mk(kernel):
        def on_return(ev):
            origin['returned'] += ev.exc is None
            if origin['v'] == 'probe':  # an invalid call made on purpose (second_use)
                ctx.count('probe calls with an invalid operand (not judged)')
                return
            judge_kernel(ctx, kernel, ev.args, ev.result, ev.exc, origin['v'])
        return on_return

    for k in OPERANDS:
        tr.watch(getattr(K, k), k, on_return=mk(k))
    with tr:
        if shard.get('heavy'):
            heavy_cases(rng, ctx, K, scn, origin, shard['seed'])
        # every kernel first, then random
        kernels = list(OPERANDS)
        for i in range(shard['calls']):
            nk = len(kernels)
            if i < len(FORCED_ROUNDS) * nk:
                case = gen_case(rng, ctx, kernels[i % nk], force=FORCED_ROUNDS[i // nk])
            else:
                case = gen_case(rng, ctx, kernels[i % nk] if i < (len(FORCED_ROUNDS) + 2) * nk else None)
            before = ctx.n_violations
            res = None
            try:
                res = getattr(K, case['kernel'])(**case['kw'])
            except Exception:  # noqa: BLE001  (already judged by the monitor via PY_UNWIND)
                pass
            if res is not None and case['shape_cls'] in OUTER_SHAPES:
                # operands on different dims: the other routes to the same quantity, on the same operands
                mid = ctx.n_violations
                try:
                    direct_routes(ctx, K, case['kernel'], case['kw'], res)
                except Exception:  # noqa: BLE001
                    if ctx.n_violations == mid:  # not a kernel that raised (the monitor has judged that)
                        ctx.oracle_error('C01 direct routes')
            ctx.case(case['sig'], trivial=case['trivial'])
            if i < 2 or ctx.n_violations > before:
                ctx.sample({'kernel': case['kernel'], 'sig': case['sig'],
                            'args': {n: _descr(v) for n, v in case['kw'].items()}})
        if shard['calls']:
            for k, kernel in enumerate(kernels):
                for case in (second_use(rng, ctx, K, kernel, origin),
                             graph_node(rng, ctx, K, kernel, k + shard['index'], origin)):
                    ctx.case(case['sig'], trivial=case['trivial'])
            rng2 = np.random.Generator(np.random.PCG64([shard['seed'], shard['index'], 2]))
            for kernel in kernels:
                try:
                    in_place(rng2, ctx, K, kernel)
                except Exception:  # noqa: BLE001
                    ctx.oracle_error('C01 in place / aliasing')
            if shard['index'] < 3:
                # (shards 0..2: three fresh interpreters per run, each calls every kernel once; which kernel is the
                # very first call there rotates with shard and seed)
                fresh_interpreter(rng2, ctx, K, (3 * shard['index'] + shard['seed']) % len(kernels))
        origin['v'] = 'convert'
        if shard['calls']:
            try:
                rng3 = np.random.Generator(np.random.PCG64([shard['seed'], shard['index'], 3]))
                decoy_names(rng3, ctx, scn)
                in_situ_in_place(rng3, ctx, scn, binned=False)
                in_situ_in_place(rng3, ctx, scn, binned=True)
            except Exception as e:  # noqa: BLE001
                ctx.violation('convert_raised', f'convert raised {type(e).__name__}: {e}',
                              {'in_situ': 'decoy coordinate names / coordinates modified in place'})
        for j in range(shard['routes']):
            try:
                sig = routes_case(rng, ctx, scn, force=ROUTE_ROUNDS[j] if j < len(ROUTE_ROUNDS) else None)
            except Exception as e:  # noqa: BLE001
                ctx.violation('convert_raised', f'convert raised {type(e).__name__}: {e}',
                              {'in_situ': 'routes'})
                continue
            if sig:
                ctx.case(sig)
    ctx.extra['mpmath_selftest'] = _mp_selftest(ctx)


def _mp_selftest(ctx):
    """Long double against mpmath at 40 digits on a sample (oracle self-test)."""
    try:
        import mpmath as mp
    except ImportError:
        ctx.inconclusive_because('mpmath not importable for the oracle self-test')
        return None
    mp.mp.dps = 40
    c = consts()
    rng = np.random.Generator(np.random.PCG64(7))
    worst = 0.0
    for _ in range(50):
        t, L, th = (float(10 ** rng.uniform(-6, 3)), float(10 ** rng.uniform(-3, 3)),
                    float(rng.uniform(1e-9, np.pi)))
        a = {'tof': si.LD(t), 'Ltotal': si.LD(L), 'two_theta': si.LD(th)}
        got, _ = expected_si('dspacing_from_tof', a)
        want = mp.mpf(float(c['h'])) * t / (mp.mpf(float(c['m_n'])) * L * 2 * mp.sin(mp.mpf(th) / 2))
        worst = max(worst, float(abs(mp.mpf(repr(got).split("'")[1]) - want) / want))
    if worst > 1e-17:
        ctx.inconclusive_because(f'long double vs mpmath self-test off by {worst:.3g}')
    return {'samples': 50, 'max_rel_diff': worst}

TECHNIQUE = ('runtime monitors (sys.monitoring) on the returns of the 9 elastic kernels, direct and '
             'inside convert(); long-double reference model; route-agreement monitor on observed values')
LEVEL_TEXT = ('exploration: every observed kernel return in hostile generated workloads is compared with '
              'the de Broglie/Bragg definition evaluated independently in 80-bit arithmetic at the 1e-11 / '
              '1e-5 bounds the property states; all routes through the shipped graphs are compared pairwise. '
              'Sampling of a continuous input space: held on the decided executions reported, not a proof.')
LEVEL_NOTE = ('trusted: numpy long double, the independent SI table (cross-checked against sc.to_unit at '
              'start-up, mpmath self-test per run), scipp containers/broadcasting, scipp.constants h and m_n')
DESIGN_REF = 'DESIGN.md section 4, C01'
