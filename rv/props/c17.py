"""C17 Peak fitting returns one coherent result per peak; removal touches only windows.

Result monitors sit on the returns of ``fit_peaks`` and ``remove_peaks``; a
trace of ``_fit_windows``, ``_fit_peak``, ``_fit_peak_single_model``,
``_perform_fit`` and ``_assess_fit`` (observed through their code objects)
supplies the sequence of model pairs attempted, the number of points each
attempt saw and the windows that were built.  Everything that is *expected*
is recomputed by ``rv.oracle.peakmath`` (own formulas, long double, scipy's
chi-square distribution, an independent weighted linear least-squares
background fit); scippneutron's model code is never called for an expected
value.
"""

from __future__ import annotations

import dataclasses
import itertools
import math

import numpy as np
import scipp as sc

from rv.oracle import peakmath as pm
from rv.snap import describe, fp
from rv.trace import Tracer

ID = 'C17'
LEVEL = 'exploration'
RULE = (
    'case = one fit_peaks call on a generated spectrum (1..6 Gaussian/Lorentzian/pseudo-Voigt '
    'peaks, FWHM 0.5..40 grid steps, linear or quadratic background, Gaussian noise with the '
    'true variances, 50..2000 points, uniform / geometric / quadratically stretched grid, with '
    'or without units) or one remove_peaks call on its results; window class (below the grid '
    'step, a few points, moderate, wide, full range, explicit sorted, explicit unsorted / '
    'overlapping / outside), estimate class (inside, on either edge, outside on either side, '
    'two outside) and model specification class (names, foreign-prefix instances, lists, '
    'mixed tuples) are cycled deterministically so that every combination occurs; distinct = '
    'distinct (call, window class, estimate class, spec class, grid, #estimates) signatures; '
    'no case is trivial'
)
ASSUMPTIONS = [
    'the points of a window are those selected by scipp label-based slicing of the sorted '
    'point coordinate, lo <= x < hi (trusted container semantics)',
    'admissible input: 1-d float64 data with positive variances on a strictly ascending point '
    'coordinate, estimates sorted when windows are built automatically, explicit windows with '
    'lower <= upper, neighbor_separation_factor < 1, guess_background_fraction at its default',
    '"near the edge" is read as in DESIGN 4/C17: closer than two (smallest) grid steps to a '
    'window bound; "local spacing" as any spacing adjacent to the grid point nearest the peak '
    '(values between the smallest and largest adjacent spacing are undecided)',
    'distance to neighbouring estimates: factor x gap from the neighbour (DESIGN 4/C17); an '
    'edge whose limit lies outside the data range cannot satisfy both clauses and is not judged '
    'for separation',
    'numpy long double evaluates the model formulas with error << 1e-12; scipy.stats.chi2 is '
    'the chi-square distribution',
]
TECHNIQUE = ('runtime monitors (sys.monitoring) on fit_peaks / remove_peaks returns and a call trace of '
             'the per-peak helpers; statistics, requirements, windows and removal recomputed by an '
             'independent model (own peak formulas, scipy chi2, weighted linear least squares)')
LEVEL_TEXT = ('exploration: every observed fit_peaks / remove_peaks return in a generated workload that '
              'cycles all window, estimate and model-specification classes is compared with an '
              'independent recomputation (1e-9 relative statistics, exact requirement predicates, '
              'bitwise isolation and outside-window equality). Held on the decided executions reported, '
              'not a proof.')
LEVEL_NOTE = ('trusted: numpy/scipy arithmetic and chi2 distribution, scipp containers and label-based '
              'slicing, rv.snap fingerprints, the sys.monitoring trace layer')
DESIGN_REF = 'DESIGN.md section 4, C17; section 6 item 10'
TIMEOUT_S = {'quick': 900, 'thorough': 4 * 3600}

REL = 1e-9
PEAK_CLASS = {'GaussianModel': 'gaussian', 'LorentzianModel': 'lorentzian',
              'PseudoVoigtModel': 'pseudo_voigt'}
BKG_NAME = {'linear': 1, 'quadratic': 2}


# ------------------------------------------------------------- utilities ---
def _kind_of_peak_spec(s):
    if isinstance(s, str):
        return s
    return PEAK_CLASS.get(type(s).__name__, type(s).__name__)


def _degree_of_bkg_spec(s):
    if isinstance(s, str):
        return BKG_NAME.get(s, s)
    names = getattr(s, 'param_names', None)
    return len(names) - 1 if names is not None else type(s).__name__


def _as_list(spec):
    if isinstance(spec, str) or not isinstance(spec, list | tuple):
        return [spec]
    return list(spec)


def spec_pairs(peak_spec, bkg_spec):
    """Documented order: every peak with every background, background varied first."""
    return [(_kind_of_peak_spec(p), _degree_of_bkg_spec(b))
            for p, b in itertools.product(_as_list(peak_spec), _as_list(bkg_spec))]


def _model_pair(peak_model, bkg_model):
    return (_kind_of_peak_spec(peak_model), _degree_of_bkg_spec(bkg_model))


def _popt_values(popt):
    return {k: float(v.value) for k, v in popt.items()}


def _split_popt(pv):
    """(polynomial coefficients a0.., peak parameter dict or None) from prefixed names."""
    deg = -1
    while f'bkg_a{deg + 1}' in pv:
        deg += 1
    coef = [pv[f'bkg_a{i}'] for i in range(deg + 1)]
    pk = {k[len('peak_'):]: v for k, v in pv.items() if k.startswith('peak_')}
    return coef, (pk or None)


def _same(a, b, tol):
    """Reported vs recomputed: equal non-finite values agree."""
    if math.isnan(a) or math.isnan(b):
        return math.isnan(a) and math.isnan(b), math.nan
    if math.isinf(a) or math.isinf(b):
        return a == b, math.nan
    d = abs(a - b)
    return d <= tol, d


def _raised_in(exc):
    """Innermost scippneutron function on the traceback (a mechanism fact)."""
    tb = exc.__traceback__
    name = None
    while tb is not None:
        co = tb.tb_frame.f_code
        if 'scippneutron' in (co.co_filename or ''):
            name = co.co_name
        tb = tb.tb_next
    return name


def _bits_equal(a, b):
    a = np.ascontiguousarray(a)
    b = np.ascontiguousarray(b)
    return a.shape == b.shape and a.dtype == b.dtype and a.tobytes() == b.tobytes()


def _npoints_class(n):
    return 'empty' if n == 0 else ('1-3' if n < 4 else 'ge4')


# --------------------------------------------------------------- monitors ---
class Monitors:
    """State of the trace checker + the judging functions."""

    def __init__(self, ctx, FP):
        self.ctx = ctx
        self.FP = FP
        self.calls = []  # stack of records of running fit_peaks calls
        self.tag = {}  # workload facts of the case in flight (for signatures / witnesses)

    # every handler is wrapped: an exception in a handler would otherwise propagate
    # into the monitored code
    def safe(self, f, where):
        def g(ev):
            try:
                return f(ev)
            except Exception:  # noqa: BLE001
                self.ctx.oracle_error(f'C17 {where}')
                return None
        return g

    # ---- trace ------------------------------------------------------------
    def fit_peaks_start(self, ev):
        a = ev.args
        self.calls.append({
            'pairs': spec_pairs(a.get('peak'), a.get('background')),
            'fit_windows': None, 'peaks': [], 'fp_data': fp(a.get('data')),
        })

    def _rec(self):
        return self.calls[-1] if self.calls else None

    def fit_peak_start(self, ev):
        rec = self._rec()
        if rec is not None:
            rec['peaks'].append({'attempts': [], 'n': len(ev.args['data'])})

    def _cur_peak(self):
        rec = self._rec()
        if rec is None or not rec['peaks']:
            return None
        return rec['peaks'][-1]

    def single_start(self, ev):
        cur = self._cur_peak()
        if cur is not None:
            a = ev.args
            cur['attempts'].append({
                'pair': _model_pair(a['peak'], a['background']), 'n': len(a['data']),
                'prefixes': (a['peak'].prefix, a['background'].prefix),
                'performs': [], 'assess': None, 'result': None, 'exc': None,
            })

    def _cur_attempt(self):
        cur = self._cur_peak()
        if cur is None or not cur['attempts']:
            return None
        return cur['attempts'][-1]

    def single_return(self, ev):
        ctx = self.ctx
        att = self._cur_attempt()
        if att is None:
            return
        att['result'], att['exc'] = ev.result, ev.exc
        kind, deg = att['pair']
        k = pm.n_params(kind, deg)
        att['k'] = k
        if ev.exc is not None:
            return  # judged where it leaves fit_peaks
        name = ev.result.assessment.name
        if att['n'] < k:
            ctx.event('too_narrow_rule')
            if name != 'window_too_narrow':
                ctx.violation('narrow_window_not_reported',
                              f'{att["n"]} points for {k} parameters gave {name!r}',
                              {'pair': att['pair'], 'n': att['n'], 'k': k, **self.tag},
                              level='_fit_peak_single_model')
        elif name == 'window_too_narrow':
            ctx.count('too_narrow_with_enough_points')
        if att['assess'] is not None and att['assess'] != name:
            ctx.violation('assessment_not_propagated',
                          f'_assess_fit returned {att["assess"]!r} but the result says {name!r}',
                          {'pair': att['pair'], **self.tag}, assessed=att['assess'], reported=name)

    def perform_return(self, ev):
        ctx = self.ctx
        att = self._cur_attempt()
        if ev.exc is not None:
            ctx.count('perform_fit_raised:' + type(ev.exc).__name__)
            if att is not None:
                att['performs'].append({'exc': type(ev.exc).__name__})
            return
        data = ev.args['data']
        popt, stats = ev.result
        x = data.coords[data.dim].values
        y, var = data.values, data.variances
        pv = _popt_values(popt)
        coef, pk = _split_popt(pv)
        kind = att['pair'][0] if (att is not None and pk is not None) else None
        what = 'bkg+peak' if pk is not None else 'bkg'
        rep = {n: float(stats[n].value) for n in ('red_chisq', 'p_value', 'aic')}
        info = judge_stats(ctx, x, y, var, coef, pk, kind, rep, f'_perform_fit[{what}]',
                           {'where': '_perform_fit', 'model': what, **self.tag})
        if att is not None:
            att['performs'].append({'what': what, 'aic': rep['aic'], 'info': info})
        if pk is None and info is not None and len(x) > len(coef):
            # how close the code's own background fit is to the linear least-squares minimum
            mine = pm.background_only_aic(x, y, var, len(coef) - 1)
            if math.isfinite(mine) and math.isfinite(rep['aic']):
                ctx.dev('bkg_aic.code_minus_lsq', rep['aic'] - mine)
                ctx.dev('bkg_aic.lsq_minus_code', mine - rep['aic'])
                if mine - rep['aic'] > 1e-6 * len(x) + REL * abs(mine):
                    ctx.inconclusive_because(
                        'independent weighted least squares is not the minimum: '
                        f'AIC {mine!r} vs observed background fit {rep["aic"]!r}')

    def assess_return(self, ev):
        att = self._cur_attempt()
        self.ctx.event('_assess_fit')
        if ev.exc is None and att is not None:
            att['assess'] = ev.result.name
            if ev.args.get('bkg_goodness_stats') is None:
                self.ctx.count('background_fit_failed')
                att['bkg_failed'] = True

    def fit_peak_return(self, ev):
        """(iv) documented order of attempts, stop at the first success."""
        ctx = self.ctx
        rec, cur = self._rec(), self._cur_peak()
        if rec is None or cur is None or ev.exc is not None:
            return
        expected = rec['pairs']
        tried = [a['pair'] for a in cur['attempts']]
        names = [a['result'].assessment.name if a['result'] is not None else None
                 for a in cur['attempts']]
        case = {'expected_order': expected, 'attempted': tried, 'assessments': names, **self.tag}
        ctx.event('model_order')
        if tried != expected[:len(tried)] or not tried:
            ctx.violation('model_order', f'attempted {tried}, documented order {expected}', case)
            return
        if any(p != ('peak_', 'bkg_') for p in (a['prefixes'] for a in cur['attempts'])):
            ctx.count('foreign_prefix_kept')
        succ = [i for i, n in enumerate(names) if n == 'success']
        if succ:
            if succ[0] != len(tried) - 1:
                ctx.violation('not_stopped_at_first_success',
                              f'success at attempt {succ[0] + 1} but {len(tried)} attempts made', case)
            elif ev.result is not cur['attempts'][succ[0]]['result']:
                ctx.violation('success_not_returned',
                              'the first successful attempt is not the returned result', case)
            if succ[0] > 0:
                ctx.count('success_after_failed_attempts')
        else:
            if len(tried) != len(expected):
                ctx.violation('gave_up_early',
                              f'{len(tried)} of {len(expected)} model pairs tried without a success',
                              case)
            elif not any(ev.result is a['result'] for a in cur['attempts']):
                ctx.violation('result_not_an_attempt', 'returned result is none of the attempts', case)
            if len(expected) > 1:
                ctx.count('all_pairs_failed')
        cur['returned'] = ev.result

    def fit_windows_return(self, ev):
        rec = self._rec()
        if rec is not None:
            rec['fit_windows'] = ev.result if ev.exc is None else None
        if ev.exc is not None:
            return
        judge_auto_windows(self.ctx, ev.args['data'], ev.args['center'], ev.args['width'],
                           ev.args['fit_parameters'], ev.result, self.tag)

    # ---- result monitor on fit_peaks ---------------------------------------
    def fit_peaks_return(self, ev):
        ctx = self.ctx
        rec = self.calls.pop() if self.calls else None
        if rec is None:
            return
        a = ev.args
        data, est, windows = a['data'], a['peak_estimates'], a['windows']
        dim = data.dim
        x = data.coords[dim].values
        y, var = data.values, data.variances
        m = len(est)
        auto = windows.ndim == 0
        base = {'windows': describe(windows), 'estimates': describe(est),
                'n_points': len(x), 'x_first_last': [float(x[0]), float(x[-1])],
                'min_step': float(np.min(np.diff(x))), 'peak_spec': repr(a['peak'])[:160],
                'background_spec': repr(a['background'])[:160], **self.tag}
        ctx.event('fit_peaks')
        if fp(data) != rec['fp_data']:
            ctx.violation('fit_peaks_mutated_input', 'fit_peaks changed its data argument', base)
        used = rec['fit_windows'] if auto else windows
        if ev.exc is not None:
            self._judge_raise(ev.exc, rec, used, est, x, base, auto)
            return
        res = ev.result
        if not isinstance(res, list) or len(res) != m:
            ctx.violation('result_count', f'{len(res) if hasattr(res, "__len__") else res!r} results '
                          f'for {m} estimates', base, n_results=len(res), n_estimates=m)
            return
        if used is None:
            ctx.count('windows_not_observed')
            return
        lo_all = used['range', 0].values
        hi_all = used['range', 1].values
        pairs = rec['pairs']
        kmin = min(pm.n_params(kd, dg) for kd, dg in pairs)
        for i, r in enumerate(res):
            case = {**base, 'peak_index': i, 'window': [float(lo_all[i]), float(hi_all[i])]}
            wv = r.window.values
            if not (_bits_equal(wv, np.array([lo_all[i], hi_all[i]])) and r.window.unit == used.unit):
                ctx.violation('result_order', f'result {i} carries window {wv.tolist()}, window {i} is '
                              f'{[float(lo_all[i]), float(hi_all[i])]}', case)
                continue
            ctx.event('result_in_order')
            mask = pm.in_window(x, lo_all[i], hi_all[i])
            n = int(mask.sum())
            if i < len(rec['peaks']) and rec['peaks'][i]['n'] != n:
                # the fit saw other points than lo <= x < hi of the window it reports; the
                # statistics are still judged against the data in the reported window
                ctx.count('fitted_points_differ_from_lo<=x<hi_of_reported_window')
            name = r.assessment.name
            pair = _model_pair(r.peak, r.background)
            if pair not in pairs:
                ctx.violation('result_model_not_requested', f'result models {pair} not among {pairs}',
                              case)
                continue
            if n < kmin:
                ctx.event('too_narrow_rule')
                ctx.hit('window with fewer points than parameters')
                if n == 0:
                    ctx.hit('empty window')
                if name != 'window_too_narrow':
                    ctx.violation('narrow_window_not_reported',
                                  f'{n} points, smallest model has {kmin} parameters, got {name!r}',
                                  case, level='fit_peaks')
                    continue
            if name == 'window_too_narrow':
                ctx.count('assessment:window_too_narrow')
                continue
            ctx.count('assessment:' + name)
            pv = _popt_values(r.popt)
            coef, pk = _split_popt(pv)
            k = pm.n_params(*pair)
            if len(pv) != k or pk is None or set(pk) != set(pm.PEAK_PARAMS[pair[0]]):
                ctx.violation('popt_names', f'popt keys {sorted(pv)} do not match models {pair}', case)
                continue
            if any(math.isnan(v) for v in pv.values()):
                ctx.count('failure_result_without_parameters')
                continue
            if r.popt['peak_loc'].unit != data.coords[dim].unit:
                ctx.count('popt_unit_unexpected')
                continue
            if n == k:
                ctx.hit('points == parameters')
            rep = {'red_chisq': float(r.red_chisq.value), 'p_value': float(r.p_value.value),
                   'aic': float(r.aic.value)}
            xw, yw, vw = x[mask], y[mask], var[mask]
            info = judge_stats(ctx, xw, yw, vw, coef, pk, pair[0], rep, 'result', case)
            if name == 'success':
                req = a.get('fit_requirements') or self.FP.FitRequirements()
                judge_success(ctx, xw, yw, vw, float(lo_all[i]), float(hi_all[i]), coef, pk, pair,
                              rep, req, case)
        self._judge_better_than(res, base)
        self._judge_isolation(a, res, used, base)

    def _judge_better_than(self, res, base):
        """FitResult.better_than 'uses aic': the smaller AIC (= 2k - 2 ln L) is the better fit."""
        ctx = self.ctx
        fin = [r for r in res if math.isfinite(float(r.aic.value))]
        for r, o in zip(fin[:-1], fin[1:], strict=False):
            a1, a2 = float(r.aic.value), float(o.aic.value)
            if a1 == a2:
                continue
            ctx.event('better_than')
            got = (bool(r.better_than(o)), bool(o.better_than(r)))
            if got != (a1 < a2, a2 < a1):
                ctx.violation('better_than', f'better_than gives {got} for AIC {a1!r} vs {a2!r}',
                              {**base, 'aic': [a1, a2]})

    def _judge_raise(self, exc, rec, used, est, x, base, auto):
        ctx = self.ctx
        where = _raised_in(exc)
        j = len(rec['peaks']) - 1 if where != 'fit_peaks' else len(rec['peaks'])
        keys = {'exc': type(exc).__name__, 'raised_in': where,
                'windows': 'auto' if auto else 'explicit'}
        case = {**base, 'exception': f'{type(exc).__name__}: {exc}'[:300], 'peak_index': j}
        if used is not None and 0 <= j < len(est):
            lo, hi = float(used['range', 0].values[j]), float(used['range', 1].values[j])
            n = int(pm.in_window(x, lo, hi).sum())
            p = float(est.values[j])
            att = rec['peaks'][j]['attempts'][-1] if j < len(rec['peaks']) and rec['peaks'][j]['attempts'] else None
            k = att['k'] if att and 'k' in att else min(pm.n_params(*pr) for pr in rec['pairs'])
            keys.update(points=_npoints_class(n), points_lt_params=bool(n < k),
                        inverted_window=bool(lo > hi),
                        estimate_outside=bool(p < x[0] or p > x[-1]))
            case.update(window=[lo, hi], points_in_window=n, parameters=k)
            if n < k:
                ctx.hit('window with fewer points than parameters')
        ctx.violation('fit_peaks_raised',
                      f'fit_peaks raised {type(exc).__name__}: {str(exc)[:120]} (in {where}) for an '
                      'admissible input', case, **keys)

    def _judge_isolation(self, a, res, used, base):
        """(v) each peak alone, with the window of the joint run, gives the identical result."""
        ctx = self.ctx
        est = a['peak_estimates']
        edim = est.dim
        for i, r in enumerate(res):
            w = sc.array(dims=[edim, 'range'], values=np.array([r.window.values]), unit=r.window.unit)
            case = {**base, 'peak_index': i, 'window': r.window.values.tolist()}
            try:
                single = self.FP.fit_peaks(
                    a['data'], peak_estimates=est[edim, i:i + 1], windows=w,
                    background=a['background'], peak=a['peak'],
                    fit_parameters=a.get('fit_parameters'),
                    fit_requirements=a.get('fit_requirements'))
            except Exception as e:  # noqa: BLE001
                ctx.violation('isolation', f'peak {i} alone raised {type(e).__name__}: {e} while the '
                              'joint run returned a result', case, how='raised')
                continue
            ctx.event('isolation')
            if len(single) != 1 or fp(single[0]) != fp(r):
                got = single[0].assessment.name if len(single) == 1 else len(single)
                ctx.violation('isolation', f'peak {i} alone gives {got!r}, in the joint run '
                              f'{r.assessment.name!r}: results are not fingerprint-identical', case,
                              how='differs')


def judge_stats(ctx, x, y, var, coef, pk, kind, rep, label, case):
    """(ii) reported statistics vs recomputation from popt and the data."""
    n, k = len(x), len(coef) + (len(pk) if pk else 0)
    if n == 0 or var is None:
        ctx.count('stats_not_judged:no_data_or_variances')
        return None
    if pk is not None and not pk['scale'] > 1e-15:
        ctx.count('stats_not_judged:degenerate_scale')
        return None
    f = pm.polynomial(x, coef)
    fmag = pm.polynomial_abs(x, coef)
    if pk is not None:
        pv = pm.peak(kind, x, pk)
        f = f + pv
        fmag = fmag + np.abs(pv)
    chi2 = pm.chi_square(y, var, f)
    dchi2 = pm.chi_square_bound(y, var, f, fmag)
    st = pm.statistics(chi2, n, k)
    tol = pm.statistics_tolerance(chi2, dchi2, n, k, st, REL)
    tag = 'result' if label == 'result' else 'perform_fit'
    ok_all = True
    for name in ('red_chisq', 'p_value', 'aic'):
        ok, d = _same(rep[name], st[name], tol[name])
        if d == d:
            # red. chi^2 relative; p absolute; AIC per point (= relative error of chi^2 it implies)
            if name == 'red_chisq':
                ctx.dev(f'{tag}.red_chisq.rel', d / abs(st[name]) if st[name] else d)
            elif name == 'p_value':
                ctx.dev(f'{tag}.p_value.abs', d)
            elif dchi2 <= 1e-10 * chi2:
                # (an exact fit, n == k, has chi^2 at rounding level: AIC is ill-conditioned there)
                ctx.dev(f'{tag}.aic.abs_per_point_well_conditioned', d / n)
            ctx.dev(f'{tag}.{name}.fraction_of_tolerance', d / tol[name] if tol[name] > 0 else d)
        if not ok:
            ok_all = False
            ctx.violation('statistic', f'{label}: reported {name} = {rep[name]!r}, recomputed '
                          f'{st[name]!r} (n = {n}, k = {k}, tolerance {tol[name]:.3g})',
                          {**case, 'n': n, 'k': k, 'chi2': chi2}, statistic=name, where=tag)
    ctx.event('statistics.' + tag)
    return {'chi2': chi2, 'st': st, 'ok': ok_all}


def judge_success(ctx, xw, yw, vw, lo, hi, coef, pk, pair, rep, req, case):
    """(iii) a result marked successful satisfies every stated requirement."""
    kind, deg = pair
    ctx.event('success_requirements')

    def bad(which, what, **kw):
        ctx.violation('success_violates_requirement', f'success although {what}',
                      {**case, 'popt_peak': pk, 'reported': rep}, requirement=which, **kw)

    p = rep['p_value']
    k = pm.n_params(kind, deg)
    if not p >= req.min_p_value:
        bad('min_p_value', f'p = {p!r} is not >= min_p_value = {req.min_p_value!r} '
            f'({len(xw)} points, {k} parameters)',
            p_is_nan=bool(math.isnan(p)), zero_dof=bool(len(xw) == k))
    amp = pk['amplitude']
    if not amp >= 0:
        bad('amplitude', f'amplitude = {amp!r} < 0')
    steps = np.diff(xw)
    smin = float(np.min(steps)) if len(steps) else math.inf
    loc = pk['loc']
    slack = 1 - 1e-12
    if not (loc - lo >= 2 * smin * slack and hi - loc >= 2 * smin * slack):
        bad('edge', f'loc = {loc!r} is closer than 2 steps ({smin!r}) to the window [{lo!r}, {hi!r}]')
    ctx.dev('success.min_edge_distance_in_steps_inverse',
            smin / max(min(loc - lo, hi - loc), 1e-300))
    fw = pm.fwhm(kind, pk)
    if not fw <= req.max_peak_width_factor * (hi - lo) * (1 + 1e-12):
        bad('max_width', f'fwhm = {fw!r} > {req.max_peak_width_factor!r} x window width {hi - lo!r}')
    c = int(np.argmin(np.abs(xw - loc)))
    adj = [float(xw[j + 1] - xw[j]) for j in (c - 1, c) if 0 <= j < len(xw) - 1]
    if adj:
        small, large = min(adj), max(adj)
        if fw < req.min_peak_width_factor * small * (1 - 1e-9):
            bad('min_width', f'fwhm = {fw!r} < {req.min_peak_width_factor!r} x local spacing {small!r}')
        elif fw < req.min_peak_width_factor * large:
            ctx.count('undecided:min_width_between_adjacent_spacings')
    # better than the background alone, AIC of an independent linear least-squares fit
    n = len(xw)
    if n > deg + 1:
        aic_b = pm.background_only_aic(xw, yw, vw, deg)
        aic = rep['aic']
        if math.isfinite(aic_b) and math.isfinite(aic):
            band = 1e-6 * n + REL * (abs(aic) + abs(aic_b))
            ctx.dev('success.aic_minus_background_aic', aic - aic_b)
            if aic > aic_b + band:
                bad('better_than_background', f'AIC = {aic!r} is worse than the background-only '
                    f'AIC = {aic_b!r} (independent weighted least squares)')
            elif aic > aic_b - band:
                ctx.count('undecided:aic_within_band_of_background')
        else:
            ctx.count('aic_not_finite')


def judge_auto_windows(ctx, data, center, width, fit_parameters, result, tag):
    """(vi) automatically built windows."""
    x = data.coords[data.dim].values
    lo_d, hi_d = float(x.min()), float(x.max())
    p = center.values.astype(np.float64)
    f = float(fit_parameters.neighbor_separation_factor)
    w0 = result['range', 0].values
    w1 = result['range', 1].values
    lo_s, hi_s = pm.separation_limits(p, f)
    slack = 8 * pm.EPS * max(float(np.max(np.abs(p))), abs(lo_d), abs(hi_d), 1e-300)
    base = {'estimates': p.tolist(), 'width': float(width.value), 'data_range': [lo_d, hi_d],
            'separation_factor': f, 'windows': np.stack([w0, w1], axis=1).tolist(), **tag}
    if len(w0) != len(p):
        ctx.violation('auto_window_count', f'{len(w0)} windows for {len(p)} estimates', base)
        return
    for i in range(len(p)):
        ctx.event('auto_window')
        a, b = float(w0[i]), float(w1[i])
        inside = lo_d <= p[i] <= hi_d
        case = {**base, 'peak_index': i}
        if not (lo_d <= a <= hi_d and lo_d <= b <= hi_d):
            pushed = bool((a > hi_d and abs(a - lo_s[i]) <= slack) or (b < lo_d and abs(b - hi_s[i]) <= slack)
                          or (a < lo_d and abs(a - lo_s[i]) <= slack) or (b > hi_d and abs(b - hi_s[i]) <= slack))
            nb_out = bool((i > 0 and not lo_d <= p[i - 1] <= hi_d)
                          or (i + 1 < len(p) and not lo_d <= p[i + 1] <= hi_d))
            ctx.violation('auto_window_outside_range',
                          f'window {i} = [{a!r}, {b!r}] leaves the data range [{lo_d!r}, {hi_d!r}]',
                          case, estimate_outside=not inside, neighbour_outside=nb_out,
                          pushed_by_separation=pushed, inverted=bool(a > b))
            continue
        if inside:
            if not a <= p[i] <= b:
                ctx.violation('auto_window_excludes_estimate',
                              f'window {i} = [{a!r}, {b!r}] does not contain its estimate {float(p[i])!r}', case)
        else:
            ctx.count('auto_window_of_outside_estimate')
        if i > 0:
            if lo_s[i] > hi_d:
                ctx.count('separation_limit_outside_range')
            elif a < lo_s[i] - slack:
                ctx.violation('auto_window_too_close_to_neighbour',
                              f'left edge {a!r} of window {i} is closer than {f!r} x gap to estimate '
                              f'{float(p[i - 1])!r} (limit {float(lo_s[i])!r})', case, side='left')
            else:
                ctx.event('auto_window_separation')
        if i + 1 < len(p):
            if hi_s[i] < lo_d:
                ctx.count('separation_limit_outside_range')
            elif b > hi_s[i] + slack:
                ctx.violation('auto_window_too_close_to_neighbour',
                              f'right edge {b!r} of window {i} is closer than {f!r} x gap to estimate '
                              f'{float(p[i + 1])!r} (limit {float(hi_s[i])!r})', case, side='right')
            else:
                ctx.event('auto_window_separation')


def make_remove_monitor(ctx, tag):
    """(vii) remove_peaks: input unchanged, outside bitwise, inside minus the analytic peaks."""

    def on_start(ev):
        data, fits = ev.args['data'], ev.args['fit_results']
        return {'fp_data': fp(data), 'fp_fits': fp(fits) if isinstance(fits, list | tuple) else None,
                'y': np.array(data.values, copy=True)}

    def on_return(ev):
        data, fits = ev.args['data'], ev.args['fit_results']
        pre = ev.pre
        dim = data.dim
        x = data.coords[dim].values
        base = {'n_points': len(x), 'n_results': len(fits) if hasattr(fits, '__len__') else None,
                **tag}
        ctx.event('remove_peaks')
        if ev.exc is not None:
            if type(ev.exc).__name__ == 'VariancesError' and data.variances is not None:
                ctx.count('remove_peaks_refused_variances')  # documented refusal
            else:
                ctx.violation('remove_peaks_raised', f'remove_peaks raised {type(ev.exc).__name__}: '
                              f'{ev.exc}', base, exc=type(ev.exc).__name__)
            if fp(data) != pre['fp_data']:
                ctx.violation('remove_mutated_input', 'remove_peaks changed its input', base)
            return
        if fp(data) != pre['fp_data'] or (pre['fp_fits'] is not None and fp(fits) != pre['fp_fits']):
            ctx.violation('remove_mutated_input', 'remove_peaks changed its input (data or results)',
                          base)
        out = ev.result
        y0 = pre['y']
        succ = []
        for r in fits:
            if r.assessment.name != 'success':
                continue
            pv = _popt_values(r.popt)
            _, pk = _split_popt(pv)
            kind = _kind_of_peak_spec(r.peak)
            succ.append((float(r.window.values[0]), float(r.window.values[1]), kind, pk))
        base['successful_windows'] = [[s[0], s[1]] for s in succ]
        if (out.dims != data.dims or out.shape != data.shape or out.unit != data.unit
                or out.variances is not None or set(out.coords) != set(data.coords)
                or any(fp(out.coords[c]) != fp(data.coords[c]) for c in data.coords)
                or set(out.masks) != set(data.masks)):
            ctx.violation('remove_changed_structure', 'output differs from the input in dims, unit, '
                          'coordinates or masks', base)
            return
        exp, covered, mag = pm.removed(x, y0, succ)
        got = out.values
        outside = ~covered
        same = got[outside].view(np.int64) == y0[outside].view(np.int64)
        ctx.event('remove.outside', int(outside.sum()))
        if not np.all(same):
            j = int(np.flatnonzero(outside)[np.argmin(same)])
            ctx.violation('remove_changed_outside', f'{int((~same).sum())} points outside every '
                          f'successful window changed, e.g. x = {float(x[j])!r}: {float(y0[j])!r} -> {float(got[j])!r}',
                          {**base, 'index': j}, n_successful=len(succ))
        if covered.any():
            heights = np.zeros(len(x))
            ncov = np.zeros(len(x))
            for lo, hi, kind, pk in succ:
                mk = pm.in_window(x, lo, hi)
                heights[mk] += pm.peak_height(kind, pk)
                ncov[mk] += 1
            if covered.sum() and np.max(ncov) > 1:
                ctx.hit('overlapping successful windows')
            tol = 1e-12 * heights + 4 * pm.EPS * (ncov + 1) * (np.abs(y0) + mag.astype(float))
            d = np.abs(got.astype(pm.LD) - exp).astype(float)
            idx = np.flatnonzero(covered)
            rel = d[idx] / np.maximum(heights[idx], 1e-300)
            ctx.dev('remove.inside_error_over_height', float(np.max(rel)))
            ctx.event('remove.inside', int(covered.sum()))
            badm = d[idx] > tol[idx]
            if np.any(badm):
                j = int(idx[np.argmax(d[idx] - tol[idx])])
                ctx.violation('remove_wrong_inside', f'{int(badm.sum())} points inside successful '
                              f'windows are not data minus the fitted peak(s), e.g. x = {float(x[j])!r}: got '
                              f'{float(got[j])!r}, expected {float(exp[j])!r} (data {float(y0[j])!r})',
                              {**base, 'index': j}, covering_windows=int(ncov[j]))

    return on_start, on_return


# -------------------------------------------------------------- workload ---
WINDOW_CLASSES = ['sub_step', 'few_points', 'moderate', 'wide', 'full_range', 'explicit',
                  'explicit_unsorted']
ESTIMATE_CLASSES = ['inside', 'lower_edge', 'upper_edge', 'outside_below', 'outside_above',
                    'two_outside_above', 'two_outside_below', 'inside_then_far_outside']
SPEC_CLASSES = 8
UNITS = [(None, None), ('angstrom', 'counts'), ('us', 'counts'), ('m', 'K'), (None, 'counts')]
DIMS = ['x', 'dspacing', 'tof']


def make_specs(cls, M):
    """Model specifications: every name, instances with foreign prefixes, lists, mixed tuples."""
    if cls == 0:
        return 'gaussian', 'linear'
    if cls == 1:
        return 'lorentzian', 'quadratic'
    if cls == 2:
        return 'pseudo_voigt', 'linear'
    if cls == 3:
        return M.GaussianModel(prefix='foreign_'), M.PolynomialModel(degree=2, prefix='pre_')
    if cls == 4:
        return ['gaussian', 'lorentzian'], ['linear', 'quadratic']
    if cls == 5:
        return (('lorentzian', M.PseudoVoigtModel(prefix='v'), 'gaussian'),
                (M.PolynomialModel(degree=1, prefix=''), 'quadratic'))
    if cls == 6:
        return [M.LorentzianModel(prefix='peak_')], 'linear'
    return ['pseudo_voigt', 'gaussian'], 'quadratic'


def gen_spectrum(rng, tier):
    n = int(round(10 ** rng.uniform(np.log10(50), np.log10(2000))))
    gk = ['uniform', 'uniform', 'uniform', 'geometric', 'quadratic'][rng.integers(0, 5)]
    i = np.arange(n, dtype=np.float64)
    if gk == 'uniform':
        step = 10 ** rng.uniform(-3, 1)
        if rng.random() < 0.25:
            step = 0.05
        x = step * rng.uniform(-50, 300) + step * i
    elif gk == 'geometric':
        ratio = rng.uniform(1.3, 6.0)
        x = 10 ** rng.uniform(-1, 3) * ratio ** (i / (n - 1))
    else:
        step = 10 ** rng.uniform(-3, 1)
        x = step * rng.uniform(-50, 300) + step * (i + rng.uniform(0.2, 2.0) * i * i / n)
    steps = np.diff(x)
    npk = int(rng.integers(1, 7))
    npk = max(1, min(npk, n // 25))
    seg = (0.9 * n) / npk
    peaks = []
    for j in range(npk):
        ci = 0.05 * n + seg * (j + rng.uniform(0.3, 0.7))
        ci = min(max(ci, 2), n - 3)
        fw_steps = min(10 ** rng.uniform(np.log10(0.5), np.log10(40)), seg / 8)
        fw_steps = max(fw_steps, 0.5)
        local = steps[int(ci)]
        loc = float(np.interp(ci, i, x))
        kind = ['gaussian', 'lorentzian', 'pseudo_voigt'][rng.integers(0, 3)]
        fw = fw_steps * local
        p = {'loc': loc, 'scale': fw / (2 * math.sqrt(2 * math.log(2))) if kind == 'gaussian' else fw / 2}
        if kind == 'pseudo_voigt':
            p['fraction'] = float(rng.uniform(0, 1))
        peaks.append({'kind': kind, 'p': p, 'fwhm': fw, 'fwhm_steps': fw_steps})
    t = (x - 0.5 * (x[0] + x[-1])) / (0.5 * (x[-1] - x[0]))
    b0 = 10 ** rng.uniform(1.3, 3)
    quad = rng.random() < 0.5
    bg = b0 * (1 + rng.uniform(-0.5, 0.5) * t + (rng.uniform(-0.3, 0.3) * t * t if quad else 0.0))
    y = bg.copy()
    if rng.random() < 0.5:
        sigma = np.full(n, b0 * 10 ** rng.uniform(-3, -1.3))
        nk = 'constant'
    else:
        sigma = np.sqrt(bg) * 10 ** rng.uniform(-1.0, 0.3)
        nk = 'sqrt'
    for pk in peaks:
        at = float(np.interp(pk['p']['loc'], x, sigma))
        height = at * 10 ** rng.uniform(np.log10(5), np.log10(500))
        pk['p']['amplitude'] = 1.0
        pk['p']['amplitude'] = height / pm.peak_height(pk['kind'], pk['p'])
        if npk > 1 and rng.random() < 0.12:
            pk['p']['amplitude'] *= -1.0  # a dip: must never be reported as a successful peak
            pk['dip'] = True
        y = y + pm.peak(pk['kind'], x, pk['p']).astype(np.float64)
    y = y + rng.normal(0.0, 1.0, n) * sigma
    return {'x': x, 'y': y, 'var': sigma ** 2, 'peaks': peaks, 'grid': gk, 'noise': nk,
            'quadratic_bg': quad, 'n': n}


def build_case(rng, gi, tier, M, P):
    """One fit_peaks call: (data, kwargs, tag)."""
    wc = WINDOW_CLASSES[gi % len(WINDOW_CLASSES)]
    ec = ESTIMATE_CLASSES[(gi // len(WINDOW_CLASSES)) % len(ESTIMATE_CLASSES)]
    sc_cls = gi % SPEC_CLASSES if (gi // 56) % 2 == 0 else int(rng.integers(0, SPEC_CLASSES))
    s = gen_spectrum(rng, tier)
    x, n = s['x'], s['n']
    xu, yu = UNITS[rng.integers(0, len(UNITS))]
    dim = DIMS[rng.integers(0, len(DIMS))]
    data = sc.DataArray(
        sc.array(dims=[dim], values=s['y'], variances=s['var'], unit=yu or 'one'),
        coords={dim: sc.array(dims=[dim], values=x, unit=xu or 'one')})
    rng_x = x[-1] - x[0]
    med = float(np.median(np.diff(x)))
    est = np.array([pk['p']['loc'] + rng.uniform(-0.3, 0.3) * pk['fwhm'] for pk in s['peaks']])
    fwhms = [pk['fwhm'] for pk in s['peaks']]
    out_d = lambda: float(10 ** rng.uniform(np.log10(0.5 * med), np.log10(0.6 * rng_x)))  # noqa: E731
    if ec == 'lower_edge':
        est[0] = x[0]
    elif ec == 'upper_edge':
        est[-1] = x[-1]
    elif ec == 'outside_below':
        est[0] = x[0] - out_d()
    elif ec == 'outside_above':
        est[-1] = x[-1] + out_d()
    elif ec == 'two_outside_above':
        d1 = out_d()
        extra = [x[-1] + d1, x[-1] + d1 + out_d()]
        est = np.concatenate([est[:4], extra])
        fwhms = fwhms[:4] + [fwhms[-1]] * 2
    elif ec == 'two_outside_below':
        d1 = out_d()
        extra = [x[0] - d1 - out_d(), x[0] - d1]
        est = np.concatenate([extra, est[-4:]])
        fwhms = [fwhms[0]] * 2 + fwhms[-4:]
    elif ec == 'inside_then_far_outside':
        est = np.concatenate([est[:5], [x[-1] + rng.uniform(0.3, 2.0) * rng_x]])
        fwhms = fwhms[:5] + [fwhms[-1]]
    order = np.argsort(est, kind='stable')
    est, fwhms = est[order], [fwhms[k] for k in order]
    m = len(est)
    tag = {'window_class': wc, 'estimate_class': ec, 'spec_class': sc_cls, 'grid': s['grid'],
           'units': [xu, yu], 'dim': dim, 'dips': sum(bool(pk.get('dip')) for pk in s['peaks'])}
    if wc == 'sub_step':
        windows = sc.scalar(med * rng.uniform(0.2, 0.95), unit=xu or 'one')
    elif wc == 'few_points':
        if s['grid'] == 'uniform' and abs(med - 0.05) < 1e-12 and rng.random() < 0.5:
            windows = sc.scalar(0.12, unit=xu or 'one')
        else:
            windows = sc.scalar(med * rng.uniform(1.0, 9.0), unit=xu or 'one')
    elif wc == 'moderate':
        windows = sc.scalar(float(np.median(fwhms)) * rng.uniform(5, 14) + 8 * med, unit=xu or 'one')
    elif wc == 'wide':
        windows = sc.scalar(rng_x * rng.uniform(0.3, 1.0), unit=xu or 'one')
    elif wc == 'full_range':
        windows = sc.scalar(rng_x * (1.0 if rng.random() < 0.5 else rng.uniform(1.0, 2.5)),
                            unit=xu or 'one')
    else:
        w = np.empty((m, 2))
        for k in range(m):
            half = fwhms[k] * rng.uniform(2.5, 8) + 4 * med
            w[k] = est[k] - half * rng.uniform(0.6, 1.4), est[k] + half * rng.uniform(0.6, 1.4)
        if wc == 'explicit_unsorted':
            perm = rng.permutation(m)
            est, w = est[perm], w[perm]
            k = int(rng.integers(0, m))
            r = rng.random()
            if r < 0.25:
                w[k] = est[k], est[k]  # empty
            elif r < 0.5:
                w[k] = x[-1] + med, x[-1] + rng_x  # entirely outside
            elif r < 0.75:
                w[k] = x[0] - rng_x, x[0] + med * rng.uniform(0.5, 30)  # sticks out below
        windows = sc.array(dims=[dim, 'range'], values=w, unit=xu or 'one')
    peak_spec, bkg_spec = make_specs(sc_cls, M)
    kw = {'peak_estimates': sc.array(dims=[dim], values=est, unit=xu or 'one'), 'windows': windows,
          'background': bkg_spec, 'peak': peak_spec}
    r = rng.random()
    if r < 0.5:
        kw['fit_parameters'] = P.FitParameters(
            neighbor_separation_factor=float(rng.uniform(0.05, 0.9)))
        tag['separation_factor'] = kw['fit_parameters'].neighbor_separation_factor
    if rng.random() < 0.5:
        kw['fit_requirements'] = P.FitRequirements(
            min_p_value=float([0.01, 1e-4, 0.2][rng.integers(0, 3)]),
            max_peak_width_factor=float([1.0, 0.5, 0.3][rng.integers(0, 3)]),
            min_peak_width_factor=float([1.0, 2.0, 0.5][rng.integers(0, 3)]))
        tag['requirements'] = repr(kw['fit_requirements'])
    sig = ('fit_peaks', wc, ec, sc_cls, s['grid'], m)
    return data, kw, tag, sig, s


def plan(tier, seed):
    if tier == 'quick':
        return [{'spectra': 10} for _ in range(16)]
    return [{'spectra': 313} for _ in range(16)]


def requirements(tier):
    k = 1 if tier == 'quick' else 20
    return {
        'events': {'fit_peaks': 100 * k, 'result_in_order': 150 * k, 'statistics.result': 100 * k,
                   'statistics.perform_fit': 200 * k, 'success_requirements': 40 * k,
                   'model_order': 150 * k, 'isolation': 150 * k, 'auto_window': 150 * k,
                   'auto_window_separation': 60 * k, 'too_narrow_rule': 10 * k,
                   'remove_peaks': 100 * k, 'remove.inside': 1000 * k, 'remove.outside': 1000 * k,
                   '_assess_fit': 150 * k},
        'forced': ['window with fewer points than parameters', 'estimate outside the data',
                   'estimate on the lower edge', 'estimate on the upper edge',
                   'window below the grid spacing', 'window spanning the full range',
                   'explicit windows', 'explicit windows, unsorted estimates',
                   'model list', 'instance with foreign prefix',
                   'overlapping successful windows', 'spectrum with a dip (negative peak)'],
        'counters': {'success_after_failed_attempts': 1, 'all_pairs_failed': 1,
                     'assessment:success': 30 * k},
    }


def run(shard, ctx):
    import warnings

    from scippneutron import peaks as P
    from scippneutron.peaks import _fit_peaks as FP
    from scippneutron.peaks import _remove_peaks as RP
    from scippneutron.peaks import model as M

    warnings.simplefilter('ignore')
    mon = Monitors(ctx, FP)
    tr = Tracer()
    tr.watch(FP.fit_peaks, 'fit_peaks', on_start=mon.safe(mon.fit_peaks_start, 'fit_peaks start'),
             on_return=mon.safe(mon.fit_peaks_return, 'fit_peaks return'))
    tr.watch(FP._fit_peak, '_fit_peak', on_start=mon.safe(mon.fit_peak_start, '_fit_peak start'),
             on_return=mon.safe(mon.fit_peak_return, '_fit_peak return'))
    tr.watch(FP._fit_peak_single_model, '_fit_peak_single_model',
             on_start=mon.safe(mon.single_start, 'single start'),
             on_return=mon.safe(mon.single_return, 'single return'))
    tr.watch(FP._fit_windows, '_fit_windows',
             on_return=mon.safe(mon.fit_windows_return, '_fit_windows return'))
    tr.watch(FP._perform_fit, '_perform_fit',
             on_return=mon.safe(mon.perform_return, '_perform_fit return'))
    tr.watch(FP._assess_fit, '_assess_fit',
             on_return=mon.safe(mon.assess_return, '_assess_fit return'))
    rs, rr = make_remove_monitor(ctx, mon.tag)
    safe_rs = mon.safe(rs, 'remove start')
    tr.watch(RP.remove_peaks, 'remove_peaks', on_start=safe_rs,
             on_return=mon.safe(rr, 'remove return'))

    per = shard['spectra']
    with tr:
        for j in range(per):
            gi = shard['index'] * per + j
            rng = np.random.Generator(np.random.PCG64([shard['seed'], shard['index'], j]))
            data, kw, tag, sig, s = build_case(rng, gi, shard['tier'], M, P)
            mon.tag.clear()
            mon.tag.update(tag)
            _forced(ctx, tag, kw, data)
            before = ctx.n_violations
            res = None
            try:
                res = P.fit_peaks(data, **kw)
            except Exception:  # noqa: BLE001  (judged by the monitor through PY_UNWIND)
                pass
            ctx.case(sig)
            if j < 1 or ctx.n_violations > before:
                ctx.sample({'signature': sig, **tag, 'n_points': s['n'],
                            'estimates': kw['peak_estimates'].values.tolist(),
                            'windows': describe(kw['windows']),
                            'assessments': [r.assessment.name for r in res] if res else None})
            if res is None:
                continue
            plain = sc.DataArray(sc.values(data.data), coords=dict(data.coords))
            for variant in ('as_fitted', 'overlapping'):
                fits = list(res)
                if variant == 'overlapping':
                    ok = [r for r in res if r.assessment.name == 'success']
                    if not ok:
                        break
                    # widen every successful window so that neighbours overlap; add a copy of one
                    fits = []
                    for r in res:
                        if r.assessment.name == 'success':
                            w = r.window.values
                            ext = (w[1] - w[0]) * rng.uniform(0.2, 1.5)
                            r = dataclasses.replace(r, window=sc.array(
                                dims=['range'], values=[w[0] - ext, w[1] + ext], unit=r.window.unit))
                        fits.append(r)
                    fits.append(dataclasses.replace(ok[0]))
                    rng.shuffle(fits)
                try:
                    P.remove_peaks(plain, fits)
                except Exception:  # noqa: BLE001  (judged by the monitor)
                    pass
                ctx.case(('remove_peaks', variant, tag['window_class'], len(fits),
                          sum(r.assessment.name == 'success' for r in fits)))
            if j == 0:
                try:
                    P.remove_peaks(data, list(res))  # data with variances: documented refusal
                except Exception:  # noqa: BLE001
                    pass


def _forced(ctx, tag, kw, data):
    x = data.coords[data.dim].values
    est = kw['peak_estimates'].values
    w = kw['windows']
    if np.any((est < x[0]) | (est > x[-1])):
        ctx.hit('estimate outside the data')
    if np.any(est == x[0]):
        ctx.hit('estimate on the lower edge')
    if np.any(est == x[-1]):
        ctx.hit('estimate on the upper edge')
    if w.ndim == 0:
        if w.value < np.min(np.diff(x)):
            ctx.hit('window below the grid spacing')
        if w.value >= x[-1] - x[0]:
            ctx.hit('window spanning the full range')
    else:
        ctx.hit('explicit windows')
        if np.any(np.diff(est) < 0):
            ctx.hit('explicit windows, unsorted estimates')
    if tag.get('dips'):
        ctx.hit('spectrum with a dip (negative peak)')
    for s in (kw['peak'], kw['background']):
        if isinstance(s, list | tuple) and len(s) > 1:
            ctx.hit('model list')
        for e in _as_list(s):
            if not isinstance(e, str) and e.prefix not in ('peak_', 'bkg_'):
                ctx.hit('instance with foreign prefix')


# ------------------------------------------------------- known findings ---
def _keys(v):
    return v.get('keys') or {}


FINDING_PREDICATES = {
    # parameter guesses are computed before the point-count guard: a window with at most three
    # (or no) points makes the guess code raise ValueError instead of 'window too narrow'
    'fit_peaks.guess_before_point_count_guard': lambda v: (
        v['kind'] == 'fit_peaks_raised' and _keys(v).get('exc') == 'ValueError'
        and _keys(v).get('raised_in') in ('_guess_from_peak', '_guess')
        and _keys(v).get('points_lt_params') is True),
    # neighbour separation is applied after clipping to the data range: with an estimate
    # outside the data an edge is pushed out of the range again; above the range the window
    # becomes inverted and slicing raises IndexError
    'fit_peaks.auto_window_pushed_out_of_range_by_separation': lambda v: (
        (v['kind'] == 'auto_window_outside_range' and _keys(v).get('pushed_by_separation') is True
         and (_keys(v).get('estimate_outside') is True or _keys(v).get('neighbour_outside') is True))
        or (v['kind'] == 'fit_peaks_raised' and _keys(v).get('exc') == 'IndexError'
            and _keys(v).get('raised_in') == 'fit_peaks' and _keys(v).get('windows') == 'auto'
            and _keys(v).get('inverted_window') is True)),
    # a window with exactly as many points as parameters has no degree of freedom: the p-value
    # is NaN, `NaN < min_p_value` is false and the fit can be marked successful
    'fit_peaks.nan_p_value_passes_min_p': lambda v: (
        v['kind'] == 'success_violates_requirement' and _keys(v).get('requirement') == 'min_p_value'
        and _keys(v).get('p_is_nan') is True and _keys(v).get('zero_dof') is True),
}
