"""C17 Peak fitting returns one coherent result per peak; removal touches only windows.

The workload quantifies over what the property quantifies over: estimates with and
WITHOUT a peak under them (flat / sloped / curved backgrounds, noise only), every window
class, and every documented form of the model and result arguments (names, instances,
iterables of any kind including one-shot iterators, several models of the same class).

Result monitors sit on the returns of ``fit_peaks`` and ``remove_peaks``; a
trace of ``_fit_windows``, ``_fit_peak``, ``_fit_peak_single_model``,
``_perform_fit`` and ``_assess_fit`` (observed through their code objects)
supplies the sequence of model pairs attempted, the number of points each
attempt saw and the windows that were built.  Everything that is *expected*
is recomputed by ``rv.oracle.peakmath`` (own formulas, long double, scipy's
chi-square distribution, an independent weighted linear least-squares
background fit); scippneutron's model code is never called for an expected
value.
"""

from __future__ import annotations

import dataclasses
import itertools
import math

import numpy as np
import scipp as sc

from rv.oracle import peakmath as pm
from rv.snap import describe, fp
from rv.trace import Tracer

ID = 'C17'
LEVEL = 'exploration'
RULE = (
    'case = one fit_peaks call on a generated spectrum (1..6 estimates; under each a Gaussian / '
    'Lorentzian / pseudo-Voigt peak of FWHM 0.5..40 grid steps or NO peak at all: content class '
    'all peaks / some estimates without a peak / no peak anywhere; flat, sloped, curved or '
    'strongly curved background, Gaussian noise with the true variances, 50..2000 points (..800 '
    'for wide windows, ..1000 where estimates have no peak), uniform / geometric (spacing growing or '
    'shrinking) / quadratically stretched / piecewise-constant-spacing grid, with or without units) or '
    'one remove_peaks call on its results; window class '
    '(below the grid step, a few points, moderate, wide, full range, explicit sorted, explicit '
    'unsorted / overlapping / outside; scalar widths of float or integer dtype), estimate class '
    '(inside, on either edge, outside on either side, two outside), content class and the shape '
    'of the model specification (1..3 peak models x 1..3 background models) are cycled '
    'deterministically, the background class, the elements (names, instances with default / '
    'expected / foreign prefix, polynomial degree 1..3, lists with several models of one class in '
    'either order) and the iterable form are drawn; model lists and fit_results are handed over '
    'in every iterable form: list, tuple, dict, dict views, deque, an object with only __iter__ '
    '(re-iterable) and generator, iter(), filter, map, chain, reversed, a hand-written iterator '
    '(one-shot; the monitors take their elements from what the workload registered, never from '
    'the argument); explicit 2-d windows in every layout scipp allows for sizes {dim: m, range: 2} '
    '((dim, range) and (range, dim), owning or transposed view, concat of the bounds, slice of a '
    'larger array) x 1 / 2 / 3+ estimates, cycled; every single-peak re-run gets its window in '
    'one of those layouts; estimates as a variable or a slice of a longer one; resolution cases: '
    '1..3 under-resolved peaks (FWHM 0.45..2.2 x min_peak_width_factor x local spacing, factor 1 / '
    '1.5 / 2) on a non-uniform grid, each in an explicit window across which the spacing changes '
    'x2.5..x20 (geometric up / down, fine-coarse, coarse-fine, three-piece), the peak in the coarse '
    'or the fine part, the true FWHM just below / above the local threshold and half-way to the '
    'threshold every other spacing of the window (mean, min, max, median, first, last) would give; '
    'FitParameters / FitRequirements fields as float, int or numpy scalar; '
    'separation cases: 2..6 estimates at UNEVEN gaps (largest 1.6..3 x smallest) x neighbor_separation_factor '
    'over its whole range (0, small, default / field left out, 1/2, between 1/2 and 1, 1; int, float, numpy '
    'scalars) x one call per band of the scalar width against the thresholds 2 (1 - f) gap, gap, 2 gap of '
    'every pair (below all, reaching a limit below the smallest gap, above the smallest gap below every limit, '
    'up to twice the largest gap, wider), windows judged where they are built and on the results; '
    'field cases: every other field of FitRequirements / FitParameters at both ends of its range and in '
    'between (min_p_value 0..1, width factors 0..inf, guess_background_fraction 0.1..0.95; its ends 0 and 1 '
    'may be refused) on a spectrum with a resolved, an '
    'under-resolved, a too broad and a mis-modelled peak and a peak-free estimate; narrow-window cases: '
    'non-default guess_background_fraction f (0.1, 0.25, 0.75, 0.95, drawn in (0.04, 0.98); float / numpy) x '
    'windows holding every point count from the number of parameters up to 2 / f + 2 (one explicit window '
    'per count in one call, any layout; automatic windows of such widths) x single model pairs and lists: '
    'one result per estimate, no exception (quick tier for f > 1/2: one pair, three counts); protocol cases: one '
    'reference call per shard and the same input in every other documented form (variances on windows / '
    'estimates / width / coordinate, masks that mask nothing / outside / inside the windows, 13 dimension '
    'names, keyword calls, numpy / Enum / subclass names, objects used twice, call repeated after a refusal, '
    'results fed back, subclasses and attribute-only stand-ins of the argument classes, display / copy / '
    'pickle between calls) must give bit-identical results; one spectrum of 2**20 + 7 or 3 x 400001 points; '
    'distinct = distinct (call, window class, estimate class, spec shape, grid, #estimates, '
    'content, background class, iterable forms) signatures; no case is trivial'
)
ASSUMPTIONS = [
    'the points of a window are those selected by scipp label-based slicing of the sorted '
    'point coordinate, lo <= x < hi (trusted container semantics)',
    'admissible input: 1-d float64 data with positive variances on a strictly ascending point '
    'coordinate, estimates sorted when windows are built automatically, explicit windows with '
    'lower <= upper, 0 <= neighbor_separation_factor <= 1 (at 1 the limit is the estimate itself: '
    'contains-the-estimate and the limit are judged with 8 eps slack of the coordinate magnitude), '
    '0 < guess_background_fraction < 1 with any window (a window with at least as many points as the '
    'model has parameters is fitted or assessed, whatever int(n f / 2) comes to); the fractions 0 and 1 and '
    'variances on estimates / width / coordinate with automatic windows are outside the domain: a '
    'ValueError resp. VariancesError there is counted, a result is judged',
    'the same input in another documented form (container, dtype of a name, dimension label, keyword vs '
    'positional, subclass or attribute-compatible stand-in, masks that mask no point of any window, '
    'variances on explicit windows / estimates which only label the windows) has the same results bit for bit',
    'with masked points inside a window the statistics are those of all points of the window (the property '
    'text: "the data in the window"); the comparison with the background-only least-squares minimum is not '
    'judged there',
    '"near the edge" is read as in DESIGN 4/C17: closer than two (smallest) grid steps to a '
    'window bound; "local spacing" as any spacing adjacent to the grid point nearest the peak '
    '(values between the smallest and largest adjacent spacing are undecided)',
    'distance to neighbouring estimates: factor x gap from the neighbour (DESIGN 4/C17); an '
    'edge whose limit lies outside the data range cannot satisfy both clauses and is not judged '
    'for separation',
    'numpy long double evaluates the model formulas with error << 1e-12; scipy.stats.chi2 is '
    'the chi-square distribution',
    '"better than the background alone" is judged against the weighted least-squares minimum of '
    'the SAME polynomial degree as the successful result on the points of its window; for degree '
    '> 2 (instances only) the code\'s own background fit stops measurably above that minimum and '
    'the comparison is counted, not judged',
    'a reported reason of failure is only contradicted where no reading of the requirement supports '
    'it: too narrow against the LARGER adjacent spacing, too wide against the extent of the points '
    'in the window (<= window width), near the edge against the outermost points, background is '
    'better against the least-squares minimum of the same degree',
    'a one-shot iterator argument is never read by a monitor: its elements are those the '
    'workload registered for that object (unregistered one-shot iterators are counted, not judged)',
]
TECHNIQUE = ('runtime monitors (sys.monitoring) on fit_peaks / remove_peaks returns and a call trace of '
             'the per-peak helpers; statistics, requirements, windows and removal recomputed by an '
             'independent model (own peak formulas, scipy chi2, weighted linear least squares)')
LEVEL_TEXT = ('exploration: every observed fit_peaks / remove_peaks return in a generated workload that '
              'cycles all window, estimate and model-specification classes is compared with an '
              'independent recomputation (1e-9 relative statistics, exact requirement predicates for '
              'successes and for the reported reason of a failure, the local spacing taken from the '
              'coordinate around the fitted centre, '
              'bitwise isolation and outside-window equality). Held on the decided executions reported, '
              'not a proof.')
LEVEL_NOTE = ('trusted: numpy/scipy arithmetic and chi2 distribution, scipp containers and label-based '
              'slicing, rv.snap fingerprints, the sys.monitoring trace layer')
DESIGN_REF = 'DESIGN.md section 4, C17; section 6 item 10'
TIMEOUT_S = {'quick': 2400, 'thorough': 6 * 3600}  # watchdog only; the machine may be shared

REL = 1e-9
PEAK_CLASS = {'GaussianModel': 'gaussian', 'LorentzianModel': 'lorentzian',
              'PseudoVoigtModel': 'pseudo_voigt'}
BKG_NAME = {'linear': 1, 'quadratic': 2}


# ------------------------------------------------------------- utilities ---
def _plain(s):
    """The characters of a str of any kind (np.str_, str subclass, (str, Enum) member) as a plain str."""
    return str.__getitem__(s, slice(None)) if type(s) is not str else s


def _kind_of_peak_spec(s):
    if isinstance(s, str):
        return _plain(s)
    for c in type(s).__mro__:  # a subclass of a documented model is that model
        if c.__name__ in PEAK_CLASS:
            return PEAK_CLASS[c.__name__]
    return type(s).__name__


def _degree_of_bkg_spec(s):
    if isinstance(s, str):
        return BKG_NAME.get(_plain(s), _plain(s))
    names = getattr(s, 'param_names', None)
    return len(names) - 1 if names is not None else type(s).__name__


class Sources:
    """What lies behind the one-shot iterables the workload hands to the code under test.

    A generator / ``filter`` / ``map`` / ``iter(list)`` argument can be looked at only once, and
    that one look belongs to the code under test.  The workload therefore registers, by object
    identity, the elements it put into each one-shot iterable (and how to build a fresh iterable
    of the same form); monitors ask here instead of iterating the argument.  Re-iterable
    arguments (list, tuple, dict, dict views, deque, objects with ``__iter__``) are not
    registered: monitors iterate them themselves.
    """

    def __init__(self):
        self._d = {}

    def clear(self):
        self._d.clear()

    def register(self, obj, items, rebuild):
        self._d[id(obj)] = (obj, list(items), rebuild)  # obj kept alive: ids stay unique
        return obj

    def lookup(self, obj):
        e = self._d.get(id(obj))
        return e if e is not None and e[0] is obj else None

    def elements(self, obj):
        """Elements of an iterable argument without consuming it (None: one-shot iterator the
        workload did not register, cannot be known)."""
        e = self.lookup(obj)
        if e is not None:
            return list(e[1])
        it = iter(obj)
        if it is obj:
            return None
        return list(it)

    def fresh(self, obj):
        """The same argument again, usable for a second call."""
        e = self.lookup(obj)
        return e[2]() if e is not None else obj


class _ReIterable:
    """An Iterable in the narrow sense: ``__iter__`` only (no ``__len__``, no indexing)."""

    def __init__(self, items):
        self._items = tuple(items)

    def __iter__(self):
        return iter(self._items)


class _OneShot:
    """A hand-written iterator (``__iter__`` returns self)."""

    def __init__(self, items):
        self._it = iter(tuple(items))

    def __iter__(self):
        return self

    def __next__(self):
        return next(self._it)


# every way of handing over "an iterable of things"
FORMS = ['list', 'generator', 'tuple', 'iter', 'dict_keys', 'filter', 'deque', 'map',
         'iterable_object', 'chain', 'dict_values', 'iterator_object', 'reversed', 'dict']
ONE_SHOT_FORMS = {'generator', 'iter', 'filter', 'map', 'chain', 'iterator_object', 'reversed'}


def in_form(form, items, sources):
    """``items`` as an iterable of the given form (one-shot forms are registered)."""
    import collections

    items = list(items)
    if form in ('dict_keys', 'dict') and len({id(i) if not isinstance(i, str) else i
                                               for i in items}) != len(items):
        form = 'list'  # repeated names cannot be dict keys

    def build():
        if form == 'list':
            obj = list(items)
        elif form == 'tuple':
            obj = tuple(items)
        elif form == 'generator':
            obj = (i for i in items)
        elif form == 'iter':
            obj = iter(list(items))
        elif form == 'filter':
            obj = filter(lambda i: True, list(items))
        elif form == 'map':
            obj = map(lambda i: i, list(items))
        elif form == 'chain':
            h = len(items) // 2
            obj = itertools.chain(items[:h], iter(items[h:]))
        elif form == 'reversed':
            obj = reversed(items[::-1])
        elif form == 'dict_keys':
            obj = dict.fromkeys(items).keys()
        elif form == 'dict':
            obj = dict.fromkeys(items)
        elif form == 'dict_values':
            obj = dict(enumerate(items)).values()
        elif form == 'deque':
            obj = collections.deque(items)
        elif form == 'iterable_object':
            obj = _ReIterable(items)
        elif form == 'iterator_object':
            obj = _OneShot(items)
        else:
            raise KeyError(form)
        if iter(obj) is obj:
            sources.register(obj, items, build)
        return obj

    return build(), form


# every way of laying out "a 2d array with sizes {dim: m, 'range': 2}": scipp addresses dimensions
# by label, so the order of the dimensions, the memory order and whether the variable owns its
# buffer or is a view into a larger one are all the same windows
WINDOW_LAYOUTS = ['dim_range', 'range_dim', 'range_dim_view', 'concat_range', 'dim_range_view',
                  'sliced_view']
ISOLATION_LAYOUTS = ['dim_range', 'range_dim', 'concat_range', 'range_dim_view']


def windows_in_layout(layout, w, dim, unit):
    """The (m, 2) array of [lower, upper] bounds as a scipp variable in the given layout."""
    w = np.ascontiguousarray(w, dtype=np.float64)
    m = len(w)
    if layout == 'dim_range':  # dims (dim, 'range'), row-major
        v = sc.array(dims=[dim, 'range'], values=w, unit=unit)
    elif layout == 'range_dim':  # dims ('range', dim), owns a row-major buffer
        v = sc.array(dims=['range', dim], values=w.T.copy(), unit=unit)
    elif layout == 'range_dim_view':  # .transpose() of the usual layout: dims ('range', dim), strided
        v = sc.array(dims=[dim, 'range'], values=w, unit=unit).transpose(['range', dim])
    elif layout == 'concat_range':  # lower and upper bounds stacked: dims ('range', dim)
        v = sc.concat([sc.array(dims=[dim], values=w[:, 0].copy(), unit=unit),
                       sc.array(dims=[dim], values=w[:, 1].copy(), unit=unit)], 'range')
    elif layout == 'dim_range_view':  # dims (dim, 'range') on a 'range'-major buffer
        v = sc.array(dims=['range', dim], values=w.T.copy(), unit=unit).transpose([dim, 'range'])
    elif layout == 'sliced_view':  # dims (dim, 'range'): a slice out of a larger array
        big = np.full((m + 3, 4), np.nan)
        big[1:m + 1, 1:3] = w
        v = sc.array(dims=[dim, 'range'], values=big, unit=unit)[dim, 1:m + 1]['range', 1:3]
    else:
        raise KeyError(layout)
    if dict(v.sizes) != {dim: m, 'range': 2} or not np.array_equal(
            np.stack([v['range', 0].values, v['range', 1].values], axis=1), w):
        raise AssertionError(f'layout {layout} does not hold the windows')
    return v


def _count_class(m):
    return '1 estimate' if m == 1 else ('2 estimates' if m == 2 else '3+ estimates')


# (layout, number of estimates or None = as drawn) of the explicit-window cases, cycled
EXPLICIT_COMBOS = ([(lay, t) for t in (3, 1, 2) for lay in ('range_dim', 'range_dim_view', 'concat_range')]
                   + [('dim_range_view', 1), ('sliced_view', 3), ('dim_range', None),
                      ('dim_range_view', 3), ('sliced_view', 1), ('dim_range', None),
                      ('dim_range', 1), ('dim_range', 2)])
FORCED_LAYOUT_CLASSES = sorted({f'explicit windows laid out {lay}, {_count_class(t)}'
                                for lay, t in EXPLICIT_COMBOS if lay != 'dim_range'})


def _is_single_model(spec):
    return isinstance(spec, str) or hasattr(spec, 'param_names')


def spec_pairs(peak_spec, bkg_spec, sources):
    """Documented order: every peak with every background, background varied first.
    None if a specification is a one-shot iterator of unknown content."""
    ps = [peak_spec] if _is_single_model(peak_spec) else sources.elements(peak_spec)
    bs = [bkg_spec] if _is_single_model(bkg_spec) else sources.elements(bkg_spec)
    if ps is None or bs is None:
        return None
    return [(_kind_of_peak_spec(p), _degree_of_bkg_spec(b)) for p, b in itertools.product(ps, bs)]


def _model_pair(peak_model, bkg_model):
    return (_kind_of_peak_spec(peak_model), _degree_of_bkg_spec(bkg_model))


def _popt_values(popt):
    return {k: float(v.value) for k, v in popt.items()}


def _split_popt(pv):
    """(polynomial coefficients a0.., peak parameter dict or None) from prefixed names."""
    deg = -1
    while f'bkg_a{deg + 1}' in pv:
        deg += 1
    coef = [pv[f'bkg_a{i}'] for i in range(deg + 1)]
    pk = {k[len('peak_'):]: v for k, v in pv.items() if k.startswith('peak_')}
    return coef, (pk or None)


def _same(a, b, tol):
    """Reported vs recomputed: equal non-finite values agree."""
    if math.isnan(a) or math.isnan(b):
        return math.isnan(a) and math.isnan(b), math.nan
    if math.isinf(a) or math.isinf(b):
        return a == b, math.nan
    d = abs(a - b)
    return d <= tol, d


def _raised_in(exc):
    """Innermost scippneutron function on the traceback (a mechanism fact)."""
    tb = exc.__traceback__
    name = None
    while tb is not None:
        co = tb.tb_frame.f_code
        if 'scippneutron' in (co.co_filename or ''):
            name = co.co_name
        tb = tb.tb_next
    return name


def _bits_equal(a, b):
    a = np.ascontiguousarray(a)
    b = np.ascontiguousarray(b)
    return a.shape == b.shape and a.dtype == b.dtype and a.tobytes() == b.tobytes()


def _npoints_class(n):
    return 'empty' if n == 0 else ('1-3' if n < 4 else 'ge4')


# --------------------------------------------------------------- monitors ---
class Monitors:
    """State of the trace checker + the judging functions."""

    def __init__(self, ctx, FP):
        self.ctx = ctx
        self.FP = FP
        self.sources = Sources()
        self.calls = []  # stack of records of running fit_peaks calls
        self.tag = {}  # workload facts of the case in flight (for signatures / witnesses)

    # every handler is wrapped: an exception in a handler would otherwise propagate
    # into the monitored code
    def safe(self, f, where):
        def g(ev):
            try:
                return f(ev)
            except Exception:  # noqa: BLE001
                self.ctx.oracle_error(f'C17 {where}')
                return None
        return g

    # ---- trace ------------------------------------------------------------
    def fit_peaks_start(self, ev):
        a = ev.args
        self.calls.append({
            'pairs': spec_pairs(a.get('peak'), a.get('background'), self.sources),
            'fit_windows': None, 'peaks': [], 'fp_data': fp(a.get('data')),
        })

    def _rec(self):
        return self.calls[-1] if self.calls else None

    def fit_peak_start(self, ev):
        rec = self._rec()
        if rec is not None:
            rec['peaks'].append({'attempts': [], 'n': len(ev.args['data'])})

    def _cur_peak(self):
        rec = self._rec()
        if rec is None or not rec['peaks']:
            return None
        return rec['peaks'][-1]

    def single_start(self, ev):
        cur = self._cur_peak()
        if cur is not None:
            a = ev.args
            cur['attempts'].append({
                'pair': _model_pair(a['peak'], a['background']), 'n': len(a['data']),
                'prefixes': (a['peak'].prefix, a['background'].prefix),
                'performs': [], 'assess': None, 'result': None, 'exc': None,
            })

    def _cur_attempt(self):
        cur = self._cur_peak()
        if cur is None or not cur['attempts']:
            return None
        return cur['attempts'][-1]

    def single_return(self, ev):
        ctx = self.ctx
        att = self._cur_attempt()
        if att is None:
            return
        att['result'], att['exc'] = ev.result, ev.exc
        kind, deg = att['pair']
        k = pm.n_params(kind, deg)
        att['k'] = k
        if ev.exc is not None:
            return  # judged where it leaves fit_peaks
        name = ev.result.assessment.name
        if att['n'] < k:
            ctx.event('too_narrow_rule')
            if name != 'window_too_narrow':
                ctx.violation('narrow_window_not_reported',
                              f'{att["n"]} points for {k} parameters gave {name!r}',
                              {'pair': att['pair'], 'n': att['n'], 'k': k, **self.tag},
                              level='_fit_peak_single_model')
        elif name == 'window_too_narrow':
            ctx.count('too_narrow_with_enough_points')
        if att['assess'] is not None and att['assess'] != name:
            ctx.violation('assessment_not_propagated',
                          f'_assess_fit returned {att["assess"]!r} but the result says {name!r}',
                          {'pair': att['pair'], **self.tag}, assessed=att['assess'], reported=name)

    def perform_return(self, ev):
        ctx = self.ctx
        att = self._cur_attempt()
        if ev.exc is not None:
            ctx.count('perform_fit_raised:' + type(ev.exc).__name__)
            if att is not None:
                att['performs'].append({'exc': type(ev.exc).__name__})
            return
        data = ev.args['data']
        popt, stats = ev.result
        x = data.coords[data.dim].values
        y, var = data.values, data.variances
        pv = _popt_values(popt)
        coef, pk = _split_popt(pv)
        kind = att['pair'][0] if (att is not None and pk is not None) else None
        what = 'bkg+peak' if pk is not None else 'bkg'
        rep = {n: float(stats[n].value) for n in ('red_chisq', 'p_value', 'aic')}
        info = judge_stats(ctx, x, y, var, coef, pk, kind, rep, f'_perform_fit[{what}]',
                           {'where': '_perform_fit', 'model': what, **self.tag})
        if att is not None:
            att['performs'].append({'what': what, 'aic': rep['aic'], 'info': info})
        if pk is None and info is not None and len(x) > len(coef):
            # how close the code's own background fit is to the linear least-squares minimum
            mine = pm.background_only_aic(x, y, var, len(coef) - 1)
            if math.isfinite(mine) and math.isfinite(rep['aic']):
                sfx = '' if len(coef) <= 3 else '.degree>2'
                ctx.dev('bkg_aic.code_minus_lsq' + sfx, rep['aic'] - mine)
                ctx.dev('bkg_aic.lsq_minus_code' + sfx, mine - rep['aic'])
                if mine - rep['aic'] > 1e-6 * len(x) + REL * abs(mine):
                    ctx.inconclusive_because(
                        'independent weighted least squares is not the minimum: '
                        f'AIC {mine!r} vs observed background fit {rep["aic"]!r}')

    def assess_return(self, ev):
        att = self._cur_attempt()
        self.ctx.event('_assess_fit')
        if ev.exc is None and att is not None:
            att['assess'] = ev.result.name
            if ev.args.get('bkg_goodness_stats') is None:
                self.ctx.count('background_fit_failed')
                att['bkg_failed'] = True

    def fit_peak_return(self, ev):
        """(iv) documented order of attempts, stop at the first success."""
        ctx = self.ctx
        rec, cur = self._rec(), self._cur_peak()
        if rec is None or cur is None or ev.exc is not None:
            return
        expected = rec['pairs']
        if expected is None:
            ctx.count('model_order_not_judged:one_shot_specification_of_unknown_content')
            cur['returned'] = ev.result
            return
        tried = [a['pair'] for a in cur['attempts']]
        names = [a['result'].assessment.name if a['result'] is not None else None
                 for a in cur['attempts']]
        case = {'expected_order': expected, 'attempted': tried, 'assessments': names, **self.tag}
        ctx.event('model_order')
        if tried != expected[:len(tried)] or not tried:
            ctx.violation('model_order', f'attempted {tried}, documented order {expected}', case)
            return
        if any(p != ('peak_', 'bkg_') for p in (a['prefixes'] for a in cur['attempts'])):
            ctx.count('foreign_prefix_kept')
        succ = [i for i, n in enumerate(names) if n == 'success']
        if succ:
            if succ[0] != len(tried) - 1:
                ctx.violation('not_stopped_at_first_success',
                              f'success at attempt {succ[0] + 1} but {len(tried)} attempts made', case)
            elif ev.result is not cur['attempts'][succ[0]]['result']:
                ctx.violation('success_not_returned',
                              'the first successful attempt is not the returned result', case)
            if succ[0] > 0:
                ctx.count('success_after_failed_attempts')
        else:
            if len(tried) != len(expected):
                ctx.violation('gave_up_early',
                              f'{len(tried)} of {len(expected)} model pairs tried without a success',
                              case)
            elif not any(ev.result is a['result'] for a in cur['attempts']):
                ctx.violation('result_not_an_attempt', 'returned result is none of the attempts', case)
            if len(expected) > 1:
                ctx.count('all_pairs_failed')
        cur['returned'] = ev.result

    def fit_windows_return(self, ev):
        rec = self._rec()
        if rec is not None:
            rec['fit_windows'] = ev.result if ev.exc is None else None
        if ev.exc is not None:
            return
        r = ev.result
        judge_auto_windows(self.ctx, ev.args['data'], ev.args['center'], ev.args['width'],
                           float(ev.args['fit_parameters'].neighbor_separation_factor),
                           np.stack([r['range', 0].values, r['range', 1].values], axis=1), self.tag,
                           where='_fit_windows')

    # ---- result monitor on fit_peaks ---------------------------------------
    def fit_peaks_return(self, ev):
        ctx = self.ctx
        rec = self.calls.pop() if self.calls else None
        if rec is None:
            return
        a = ev.args
        data, est, windows = a['data'], a['peak_estimates'], a['windows']
        dim = data.dim
        x = data.coords[dim].values
        y, var = data.values, data.variances
        m = len(est)
        auto = windows.ndim == 0
        base = {'windows': describe(windows), 'estimates': describe(est),
                'n_points': len(x), 'x_first_last': [float(x[0]), float(x[-1])],
                'min_step': float(np.min(np.diff(x))), 'peak_spec': repr(a['peak'])[:160],
                'background_spec': repr(a['background'])[:160], **self.tag}
        ctx.event('fit_peaks')
        if fp(data) != rec['fp_data']:
            ctx.violation('fit_peaks_mutated_input', 'fit_peaks changed its data argument', base)
        used = rec['fit_windows'] if auto else windows
        if ev.exc is not None:
            if type(ev.exc).__name__ in self.tag.get('refusal_ok', ()):
                # an input outside the admissible domain that the workload hands over on purpose
                # (stated in ASSUMPTIONS): a refusal of the stated type is counted, not judged
                ctx.count('refused:' + self.tag.get('refusal_class', 'unnamed'))
                return
            self._judge_raise(ev.exc, rec, used, est, x, base, auto, a.get('fit_parameters'))
            return
        res = ev.result
        if not isinstance(res, list) or len(res) != m:
            ctx.violation('result_count', f'{len(res) if hasattr(res, "__len__") else res!r} results '
                          f'for {m} estimates', base, n_results=len(res), n_estimates=m)
            return
        if self.tag.get('refusal_ok'):
            ctx.count('accepted_where_refusal_was_allowed:' + self.tag.get('refusal_class', 'unnamed'))
        if auto and all(hasattr(r, 'window') for r in res):
            # (vi) on what the caller gets: the windows the results carry (whatever helper built them)
            fpar = a.get('fit_parameters')
            f = 1 / 3 if fpar is None else float(fpar.neighbor_separation_factor)  # documented default
            try:
                rw = np.array([[float(r.window.values[0]), float(r.window.values[1])] for r in res])
                judge_auto_windows(ctx, data, est, windows, f, rw, self.tag, where='results')
            except Exception:  # noqa: BLE001
                ctx.oracle_error('C17 auto windows of the results')
        if used is None:
            ctx.count('windows_not_observed')
            return
        lo_all = used['range', 0].values
        hi_all = used['range', 1].values
        pairs = rec['pairs']
        if pairs is None:
            ctx.count('fit_peaks_not_judged:one_shot_specification_of_unknown_content')
            return
        kmin = min(pm.n_params(kd, dg) for kd, dg in pairs)
        peak_free = self.tag.get('peak_free')
        for i, r in enumerate(res):
            case = {**base, 'peak_index': i, 'window': [float(lo_all[i]), float(hi_all[i])]}
            wv = r.window.values
            if not (_bits_equal(wv, np.array([lo_all[i], hi_all[i]])) and r.window.unit == used.unit):
                ctx.violation('result_order', f'result {i} carries window {wv.tolist()}, window {i} is '
                              f'{[float(lo_all[i]), float(hi_all[i])]}', case)
                continue
            ctx.event('result_in_order')
            mask = pm.in_window(x, lo_all[i], hi_all[i])
            n = int(mask.sum())
            if i < len(rec['peaks']) and rec['peaks'][i]['n'] != n:
                # the fit saw other points than lo <= x < hi of the window it reports; the
                # statistics are still judged against the data in the reported window
                ctx.count('fitted_points_differ_from_lo<=x<hi_of_reported_window')
            name = r.assessment.name
            pair = _model_pair(r.peak, r.background)
            if pair not in pairs:
                ctx.violation('result_model_not_requested', f'result models {pair} not among {pairs}',
                              case)
                continue
            if n < kmin:
                ctx.event('too_narrow_rule')
                ctx.hit('window with fewer points than parameters')
                if n == 0:
                    ctx.hit('empty window')
                if name != 'window_too_narrow':
                    ctx.violation('narrow_window_not_reported',
                                  f'{n} points, smallest model has {kmin} parameters, got {name!r}',
                                  case, level='fit_peaks')
                    continue
            free = bool(peak_free[i]) if peak_free is not None and i < len(peak_free) else None
            if name == 'window_too_narrow':
                ctx.count('assessment:window_too_narrow')
                continue
            ctx.count('assessment:' + name)
            if free:
                ctx.event('peak_free_window')
                ctx.count('peak_free_window:' + name)
                case['peak_free_window'] = True
            pv = _popt_values(r.popt)
            coef, pk = _split_popt(pv)
            k = pm.n_params(*pair)
            if len(pv) != k or pk is None or set(pk) != set(pm.PEAK_PARAMS[pair[0]]):
                ctx.violation('popt_names', f'popt keys {sorted(pv)} do not match models {pair}', case)
                continue
            if any(math.isnan(v) for v in pv.values()):
                ctx.count('failure_result_without_parameters')
                continue
            if r.popt['peak_loc'].unit != data.coords[dim].unit:
                ctx.count('popt_unit_unexpected')
                continue
            if n == k:
                ctx.hit('points == parameters')
            gf = self.tag.get('guess_fraction')
            if gf is not None:
                ctx.event('narrow_window_with_fraction')
                nt = int(n * gf / 2)
                ctx.hit('narrow window with enough points, ' + ('fewer than 2 / fraction (no point for the tails)'
                                                                 if nt == 0 else 'at least 2 / fraction'))
                if n - 2 * nt <= 2:
                    ctx.hit('narrow window with enough points, one or two points between the tails')
            rep = {'red_chisq': float(r.red_chisq.value), 'p_value': float(r.p_value.value),
                   'aic': float(r.aic.value)}
            xw, yw, vw = x[mask], y[mask], var[mask]
            info = judge_stats(ctx, xw, yw, vw, coef, pk, pair[0], rep, 'result', case)
            req = a.get('fit_requirements') or self.FP.FitRequirements()
            if name == 'success':
                judge_success(ctx, xw, yw, vw, float(lo_all[i]), float(hi_all[i]), coef, pk, pair,
                              rep, req, case, position=pairs.index(pair), peak_free=free)
            elif name != 'failed' and info is not None:
                judge_failure_reason(ctx, name, xw, yw, vw, coef, pk, pair, rep, req, case)
        self._judge_better_than(res, base)
        self._judge_isolation(a, res, used, base)

    def _judge_better_than(self, res, base):
        """FitResult.better_than 'uses aic': the smaller AIC (= 2k - 2 ln L) is the better fit."""
        ctx = self.ctx
        fin = [r for r in res if math.isfinite(float(r.aic.value))]
        for r, o in zip(fin[:-1], fin[1:], strict=False):
            a1, a2 = float(r.aic.value), float(o.aic.value)
            if a1 == a2:
                continue
            ctx.event('better_than')
            got = (bool(r.better_than(o)), bool(o.better_than(r)))
            if got != (a1 < a2, a2 < a1):
                ctx.violation('better_than', f'better_than gives {got} for AIC {a1!r} vs {a2!r}',
                              {**base, 'aic': [a1, a2]})

    def _judge_raise(self, exc, rec, used, est, x, base, auto, fpar=None):
        ctx = self.ctx
        where = _raised_in(exc)
        j = len(rec['peaks']) - 1 if where != 'fit_peaks' else len(rec['peaks'])
        keys = {'exc': type(exc).__name__, 'raised_in': where,
                'windows': 'auto' if auto else 'explicit'}
        case = {**base, 'exception': f'{type(exc).__name__}: {exc}'[:300], 'peak_index': j}
        if used is not None and 0 <= j < len(est):
            lo, hi = float(used['range', 0].values[j]), float(used['range', 1].values[j])
            n = int(pm.in_window(x, lo, hi).sum())
            p = float(est.values[j])
            att = rec['peaks'][j]['attempts'][-1] if j < len(rec['peaks']) and rec['peaks'][j]['attempts'] else None
            k = att['k'] if att and 'k' in att else min(
                (pm.n_params(*pr) for pr in rec['pairs'] or []), default=5)
            keys.update(points=_npoints_class(n), points_lt_params=bool(n < k),
                        inverted_window=bool(lo > hi),
                        estimate_outside=bool(p < x[0] or p > x[-1]))
            case.update(window=[lo, hi], points_in_window=n, parameters=k)
            if n < k:
                ctx.hit('window with fewer points than parameters')
            # a fact of the input: with this fraction of this window, is there a point for the tails
            # (int(n f / 2) on either side) and one between them?  (documented: 'first and last
            # quarter of the window' for 0.5, 'the remainder' for the peak)
            try:
                frac = 0.5 if fpar is None else float(fpar.guess_background_fraction)
                if n >= k and 0 < frac < 1:
                    nt = int(n * frac / 2)
                    keys['mechanism'] = ('empty_guess_region' if nt == 0 or n - 2 * nt <= 0
                                         else 'guess_regions_not_empty')
                    case.update(guess_background_fraction=frac, points_in_either_tail=nt,
                                points_between_tails=n - 2 * nt)
            except Exception:  # noqa: BLE001
                ctx.oracle_error('C17 guess regions of a raising window')
        ctx.violation('fit_peaks_raised',
                      f'fit_peaks raised {type(exc).__name__}: {str(exc)[:120]} (in {where}) for an '
                      'admissible input', case, **keys)

    def _judge_isolation(self, a, res, used, base):
        """(v) each peak alone, with the window of the joint run, gives the identical result."""
        ctx = self.ctx
        est = a['peak_estimates']
        edim = est.dim
        if self.tag.get('skip_isolation'):
            ctx.count('isolation_not_run:budget_of_the_class')
            return
        for i, r in enumerate(res):
            # the one window in either layout scipp allows for sizes {dim: 1, 'range': 2}
            layout = ISOLATION_LAYOUTS[i % len(ISOLATION_LAYOUTS)]
            if r.window.variances is not None:
                # (the single window is rebuilt from values; the protocol class compares these runs)
                ctx.count('isolation_not_judged:window_carries_variances')
                continue
            w = windows_in_layout(layout, np.array([r.window.values]), edim, r.window.unit)
            ctx.event('isolation.windows_' + layout)
            case = {**base, 'peak_index': i, 'window': r.window.values.tolist(),
                    'layout_of_single_window': layout}
            try:
                single = self.FP.fit_peaks(
                    a['data'], peak_estimates=est[edim, i:i + 1], windows=w,
                    background=self.sources.fresh(a['background']),
                    peak=self.sources.fresh(a['peak']),
                    fit_parameters=a.get('fit_parameters'),
                    fit_requirements=a.get('fit_requirements'))
            except Exception as e:  # noqa: BLE001
                ctx.violation('isolation', f'peak {i} alone raised {type(e).__name__}: {e} while the '
                              'joint run returned a result', case, how='raised')
                continue
            ctx.event('isolation')
            if len(single) != 1 or fp(single[0]) != fp(r):
                got = single[0].assessment.name if len(single) == 1 else len(single)
                ctx.violation('isolation', f'peak {i} alone gives {got!r}, in the joint run '
                              f'{r.assessment.name!r}: results are not fingerprint-identical', case,
                              how='differs')


def judge_stats(ctx, x, y, var, coef, pk, kind, rep, label, case):
    """(ii) reported statistics vs recomputation from popt and the data."""
    n, k = len(x), len(coef) + (len(pk) if pk else 0)
    if n == 0 or var is None:
        ctx.count('stats_not_judged:no_data_or_variances')
        return None
    if pk is not None and not pk['scale'] > 1e-15:
        ctx.count('stats_not_judged:degenerate_scale')
        return None
    f = pm.polynomial(x, coef)
    fmag = pm.polynomial_abs(x, coef)
    if pk is not None:
        pv = pm.peak(kind, x, pk)
        f = f + pv
        fmag = fmag + np.abs(pv)
    chi2 = pm.chi_square(y, var, f)
    dchi2 = pm.chi_square_bound(y, var, f, fmag)
    if chi2 <= dchi2:
        # an exact fit (as many points as parameters): chi^2 is within the forward rounding bound of
        # its own evaluation of zero, and chi^2 / dof, log(chi^2) are not defined to any accuracy
        # there (float64 may give exactly 0 -> nan / -inf where long double gives 1e-28 -> inf / -300)
        ctx.count('undecided:chi2_within_rounding_of_zero')
        return None
    st = pm.statistics(chi2, n, k)
    tol = pm.statistics_tolerance(chi2, dchi2, n, k, st, REL)
    tag = 'result' if label == 'result' else 'perform_fit'
    ok_all = True
    for name in ('red_chisq', 'p_value', 'aic'):
        ok, d = _same(rep[name], st[name], tol[name])
        if d == d:
            # red. chi^2 relative; p absolute; AIC per point (= relative error of chi^2 it implies)
            if name == 'red_chisq':
                ctx.dev(f'{tag}.red_chisq.rel', d / abs(st[name]) if st[name] else d)
            elif name == 'p_value':
                ctx.dev(f'{tag}.p_value.abs', d)
            elif dchi2 <= 1e-10 * chi2:
                # (an exact fit, n == k, has chi^2 at rounding level: AIC is ill-conditioned there)
                ctx.dev(f'{tag}.aic.abs_per_point_well_conditioned', d / n)
            ctx.dev(f'{tag}.{name}.fraction_of_tolerance', d / tol[name] if tol[name] > 0 else d)
        if not ok:
            ok_all = False
            ctx.violation('statistic', f'{label}: reported {name} = {rep[name]!r}, recomputed '
                          f'{st[name]!r} (n = {n}, k = {k}, tolerance {tol[name]:.3g})',
                          {**case, 'n': n, 'k': k, 'chi2': chi2}, statistic=name, where=tag)
    ctx.event('statistics.' + tag)
    return {'chi2': chi2, 'st': st, 'ok': ok_all}


def judge_success(ctx, xw, yw, vw, lo, hi, coef, pk, pair, rep, req, case, position=0,
                  peak_free=None):
    """(iii) a result marked successful satisfies every stated requirement.

    ``position``: index of the successful pair in the documented order of attempts;
    ``peak_free``: the workload put no peak under this estimate (tallies only)."""
    kind, deg = pair
    ctx.event('success_requirements')
    which = 'first_pair' if position == 0 else 'later_pair'

    def bad(which, what, **kw):
        ctx.violation('success_violates_requirement', f'success although {what}',
                      {**case, 'popt_peak': pk, 'reported': rep}, requirement=which, **kw)

    p = rep['p_value']
    k = pm.n_params(kind, deg)
    if not p >= req.min_p_value:
        bad('min_p_value', f'p = {p!r} is not >= min_p_value = {req.min_p_value!r} '
            f'({len(xw)} points, {k} parameters)',
            p_is_nan=bool(math.isnan(p)), zero_dof=bool(len(xw) == k))
    amp = pk['amplitude']
    if not amp >= 0:
        bad('amplitude', f'amplitude = {amp!r} < 0')
    steps = np.diff(xw)
    smin = float(np.min(steps)) if len(steps) else math.inf
    loc = pk['loc']
    slack = 1 - 1e-12
    if not (loc - lo >= 2 * smin * slack and hi - loc >= 2 * smin * slack):
        bad('edge', f'loc = {loc!r} is closer than 2 steps ({smin!r}) to the window [{lo!r}, {hi!r}]')
    ctx.dev('success.min_edge_distance_in_steps_inverse',
            smin / max(min(loc - lo, hi - loc), 1e-300))
    fw = pm.fwhm(kind, pk)
    if not fw <= req.max_peak_width_factor * (hi - lo) * (1 + 1e-12):
        bad('max_width', f'fwhm = {fw!r} > {req.max_peak_width_factor!r} x window width {hi - lo!r}')
    adj = local_spacings(xw, loc)
    if adj:
        small, large = min(adj), max(adj)
        if fw < req.min_peak_width_factor * small * (1 - 1e-9):
            others = window_spacings(xw)
            bad('min_width', f'fwhm = {fw!r} < {req.min_peak_width_factor!r} x local spacing {small!r} '
                f'(spacings adjacent to the grid point nearest loc = {loc!r}: {adj}; of the whole '
                f'window: {others})',
                grid_in_window='uniform' if others['max'] <= others['min'] * (1 + 1e-9) else 'non_uniform')
        elif fw < req.min_peak_width_factor * large:
            ctx.count('undecided:min_width_between_adjacent_spacings')
        else:
            min_width_evidence(ctx, xw, fw, req.min_peak_width_factor, small, large, 'success')
    # better than the background alone, AIC of an independent linear least-squares fit
    n = len(xw)
    if case.get('masked_inside'):
        # masked points inside the window: the fit leaves them out, the statistics are those of
        # 'the data in the window'; the least-squares minimum over all points of the window is
        # then not what the code's background-only fit can be held against
        ctx.count('success_vs_background_aic_not_judged:masked_points_in_window')
    elif deg > 2:
        # measured on the unchanged tree: the code's own background-only fit of a cubic in the
        # raw (uncentred) coordinate stops up to 0.1 AIC units above the least-squares minimum
        # (bkg_aic.code_minus_lsq), so the threshold "AIC of the background alone" cannot be
        # located to the band used below; degrees 1 and 2 (the named models) agree to < 1e-5
        ctx.count('success_vs_background_aic_not_judged:degree>2')
    elif n > deg + 1:
        aic_b = pm.background_only_aic(xw, yw, vw, deg)
        aic = rep['aic']
        if math.isfinite(aic_b) and math.isfinite(aic):
            band = 1e-6 * n + REL * (abs(aic) + abs(aic_b))
            ctx.dev('success.aic_minus_background_aic', aic - aic_b)
            if aic > aic_b + band:
                bad('better_than_background', f'AIC = {aic!r} is worse than the background-only '
                    f'AIC = {aic_b!r} (independent weighted least squares, degree {deg})',
                    attempt=which)
            elif aic > aic_b - band:
                ctx.count('undecided:aic_within_band_of_background')
            if not aic_b - band < aic <= aic_b + band:
                ctx.event('success_vs_background_aic')
                ctx.event('success_vs_background_aic.' + which)
                ctx.count(f'success_vs_background_aic:{kind}+degree{deg}')
                if peak_free:
                    ctx.event('success_vs_background_aic.peak_free_window')
        else:
            ctx.count('aic_not_finite')


def local_spacings(xw, loc):
    """The spacings of the coordinate around ``loc``: those adjacent to the grid point nearest
    to it (one at either end of the window)."""
    if len(xw) < 2:
        return []
    c = int(np.argmin(np.abs(xw - loc)))
    return [float(xw[j + 1] - xw[j]) for j in (c - 1, c) if 0 <= j < len(xw) - 1]


def window_spacings(xw):
    """Spacings of the window that are NOT 'around the peak centre' (what the local spacing is
    told apart from)."""
    st = np.diff(xw)
    return {'mean': float((xw[-1] - xw[0]) / (len(xw) - 1)), 'min': float(st.min()),
            'max': float(st.max()), 'median': float(np.median(st)), 'first': float(st[0]),
            'last': float(st[-1])}


def min_width_evidence(ctx, xw, fw, factor, small, large, verdict):
    """Tallies for a result whose 'FWHM >= factor x local spacing' verdict was decided (FWHM
    outside the band between the two adjacent spacings): how far the local spacing is from the
    other spacings of the window, and whether the verdict would be the opposite one had any of
    those been used in its place."""
    ctx.event('min_width_rule')
    ctx.event('min_width_rule.' + verdict)
    if not factor > 0:
        return
    thr = fw / factor
    others = window_spacings(xw)
    local = 0.5 * (small + large)
    ctx.dev('min_width.local_over_mean_spacing_of_window', local / others['mean'])
    ctx.dev('min_width.mean_spacing_of_window_over_local', others['mean'] / local)
    flipped = [k for k, v in others.items()
               if (thr >= large and thr < v) or (thr < small and thr >= v)]
    if flipped:
        ctx.event('min_width.verdict_depends_on_local_spacing')
        ctx.event('min_width.verdict_depends_on_local_spacing.' + verdict)
        for k in flipped:
            ctx.count('min_width.opposite_verdict_with_' + k + '_spacing_of_window')


def judge_failure_reason(ctx, name, xw, yw, vw, coef, pk, pair, rep, req, case):
    """The converse of (iii), as far as the documented meaning of an assessment goes (FitAssessment:
    'the peak is too narrow given the resolution of the data', 'too wide given the size of the fit
    window', 'too close to the edge of the window', 'the peak amplitude is negative', 'the p-value is
    below threshold', 'the background fit yielded a better result'): the reported reason must be
    true of the reported parameters.  Every comparison uses the reading most favourable to the
    report (widest spacing / smallest window extent / distance to the outermost points), so a
    report is only contradicted where no reading of the requirement supports it."""
    kind, deg = pair
    if len(xw) < 2:
        return
    ctx.event('failure_reason')
    ctx.event('failure_reason.' + name)

    def bad(what, **kw):
        ctx.violation('failure_reason_not_true', f'reported {name!r} although {what}',
                      {**case, 'popt_peak': pk, 'reported': rep}, reason=name, **kw)

    fw = pm.fwhm(kind, pk)
    loc = pk['loc']
    if name == 'peak_too_narrow':
        adj = local_spacings(xw, loc)
        small, large = min(adj), max(adj)
        f = req.min_peak_width_factor
        if fw >= f * large * (1 + 1e-9):
            others = window_spacings(xw)
            bad(f'fwhm = {fw!r} >= {f!r} x local spacing {large!r} (spacings adjacent to the grid '
                f'point nearest loc = {loc!r}: {adj}; of the whole window: {others})',
                grid_in_window='uniform' if others['max'] <= others['min'] * (1 + 1e-9) else 'non_uniform')
        elif fw >= f * small:
            ctx.count('undecided:min_width_between_adjacent_spacings')
        else:
            min_width_evidence(ctx, xw, fw, f, small, large, 'peak_too_narrow')
    elif name == 'peak_too_wide':
        extent = float(xw[-1] - xw[0])
        if fw <= req.max_peak_width_factor * extent * (1 - 1e-12):
            bad(f'fwhm = {fw!r} <= {req.max_peak_width_factor!r} x extent of the points in the '
                f'window {extent!r}')
    elif name == 'peak_near_edge':
        smin = float(np.min(np.diff(xw)))
        if loc - xw[0] >= 2 * smin * (1 + 1e-12) and xw[-1] - loc >= 2 * smin * (1 + 1e-12):
            bad(f'loc = {loc!r} is at least 2 steps ({smin!r}) from the outermost points '
                f'[{float(xw[0])!r}, {float(xw[-1])!r}] of the window')
    elif name == 'peak_points_down':
        if pk['amplitude'] >= 0:
            bad(f'amplitude = {pk["amplitude"]!r} >= 0')
    elif name == 'p_too_small':
        if rep['p_value'] >= req.min_p_value:
            bad(f'p = {rep["p_value"]!r} >= min_p_value = {req.min_p_value!r}')
    elif name == 'background_is_better' and deg <= 2 and len(xw) > deg + 1:
        # the code's own background fit cannot lie below the least-squares minimum
        aic_b = pm.background_only_aic(xw, yw, vw, deg)
        aic = rep['aic']
        if math.isfinite(aic_b) and math.isfinite(aic):
            band = 1e-6 * len(xw) + REL * (abs(aic) + abs(aic_b))
            if aic < aic_b - band:
                bad(f'AIC = {aic!r} is below the smallest AIC any degree-{deg} background can '
                    f'reach on these points, {aic_b!r}')


def judge_auto_windows(ctx, data, center, width, f, result, tag, where='_fit_windows'):
    """(vi) automatically built windows: ``result`` is the (m, 2) array of bounds, ``f`` the
    separation factor; judged where ``_fit_windows`` returns and on the windows the results of
    ``fit_peaks`` carry."""
    x = data.coords[data.dim].values
    lo_d, hi_d = float(x.min()), float(x.max())
    p = center.values.astype(np.float64)
    sfx = '' if where == '_fit_windows' else '.' + where
    result = np.asarray(result, dtype=np.float64).reshape(-1, 2)
    w0 = result[:, 0]
    w1 = result[:, 1]
    lo_s, hi_s = pm.separation_limits(p, f)
    slack = 8 * pm.EPS * max(float(np.max(np.abs(p))), abs(lo_d), abs(hi_d), 1e-300)
    fclass = tag.get('separation_class')
    base = {'estimates': p.tolist(), 'width': float(width.value), 'data_range': [lo_d, hi_d],
            'separation_factor': f, 'windows': result.tolist(), 'observed_at': where, **tag}
    if len(w0) != len(p):
        ctx.violation('auto_window_count', f'{len(w0)} windows for {len(p)} estimates', base)
        return
    for i in range(len(p)):
        ctx.event('auto_window' + sfx)
        a, b = float(w0[i]), float(w1[i])
        inside = lo_d <= p[i] <= hi_d
        case = {**base, 'peak_index': i}
        if not (lo_d <= a <= hi_d and lo_d <= b <= hi_d):
            pushed = bool((a > hi_d and abs(a - lo_s[i]) <= slack) or (b < lo_d and abs(b - hi_s[i]) <= slack)
                          or (a < lo_d and abs(a - lo_s[i]) <= slack) or (b > hi_d and abs(b - hi_s[i]) <= slack))
            nb_out = bool((i > 0 and not lo_d <= p[i - 1] <= hi_d)
                          or (i + 1 < len(p) and not lo_d <= p[i + 1] <= hi_d))
            ctx.violation('auto_window_outside_range',
                          f'window {i} = [{a!r}, {b!r}] leaves the data range [{lo_d!r}, {hi_d!r}]',
                          case, estimate_outside=not inside, neighbour_outside=nb_out,
                          pushed_by_separation=pushed, inverted=bool(a > b), observed_at=where)
            continue
        if inside:
            # (for factor 1 the separation limit IS the estimate, computed as neighbour + 1 x gap:
            # the two clauses meet within rounding of that sum)
            if not a - slack <= p[i] <= b + slack:
                ctx.violation('auto_window_excludes_estimate',
                              f'window {i} = [{a!r}, {b!r}] does not contain its estimate {float(p[i])!r}',
                              case, observed_at=where)
        else:
            ctx.count('auto_window_of_outside_estimate')
        for side, nb, lim, edge in (('left', i - 1, lo_s[i], a), ('right', i + 1, hi_s[i], b)):
            if not 0 <= nb < len(p):
                continue
            if (side == 'left' and lim > hi_d) or (side == 'right' and lim < lo_d):
                ctx.count('separation_limit_outside_range')
                continue
            too_close = edge < lim - slack if side == 'left' else edge > lim + slack
            gap = abs(float(p[nb] - p[i]))
            # did the requested width reach the limit (so that keeping the distance took an adjustment)?
            reached = float(width.value) / 2 > (1 - f) * gap
            if too_close:
                ctx.violation('auto_window_too_close_to_neighbour',
                              f'{side} edge {edge!r} of window {i} is {abs(edge - float(p[nb]))!r} from the '
                              f'neighbouring estimate {float(p[nb])!r}: closer than {f!r} x gap = '
                              f'{f * gap!r} (limit {float(lim)!r})', case, side=side, observed_at=where,
                              width_reaches_limit=bool(reached),
                              factor_above_half=bool(f > 0.5))
            else:
                ctx.event('auto_window_separation' + sfx)
                if reached:
                    ctx.event('auto_window_separation.width_reaches_limit' + sfx)
                if fclass:
                    ctx.event(f'auto_window_separation.factor_{fclass}' + sfx)


def _iterable_class(obj):
    if isinstance(obj, list | tuple):
        return 'sequence'
    try:
        return 'one_shot_iterator' if iter(obj) is obj else 're_iterable'
    except TypeError:
        return 'not_iterable'


def make_remove_monitor(ctx, tag, sources):
    """(vii) remove_peaks: input unchanged, outside bitwise, inside minus the analytic peaks.

    ``fit_results`` is documented as an Iterable: the results are never read from the argument
    of a one-shot iterator (that would take them away from the code under test) but from what
    the workload registered for it."""

    def on_start(ev):
        data, fits = ev.args['data'], ev.args['fit_results']
        items = sources.elements(fits)
        return {'fp_data': fp(data), 'items': items,
                'fp_fits': fp(items) if items is not None else None,
                'y': np.array(data.values, copy=True)}

    def on_return(ev):
        data = ev.args['data']
        pre = ev.pre
        fits = pre['items']
        dim = data.dim
        x = data.coords[dim].values
        how = _iterable_class(ev.args['fit_results'])
        base = {'n_points': len(x), 'n_results': len(fits) if fits is not None else None,
                'fit_results_given_as': type(ev.args['fit_results']).__name__, **tag}
        if fits is None:
            ctx.count('remove_peaks_not_judged:one_shot_iterator_of_unknown_content')
            return
        ctx.event('remove_peaks')
        ctx.event('remove_peaks.' + how)
        if ev.exc is not None:
            if type(ev.exc).__name__ == 'VariancesError' and data.variances is not None:
                ctx.count('remove_peaks_refused_variances')  # documented refusal
            else:
                ctx.violation('remove_peaks_raised', f'remove_peaks raised {type(ev.exc).__name__}: '
                              f'{ev.exc}', base, exc=type(ev.exc).__name__)
            if fp(data) != pre['fp_data']:
                ctx.violation('remove_mutated_input', 'remove_peaks changed its input', base)
            return
        if fp(data) != pre['fp_data'] or fp(fits) != pre['fp_fits']:
            ctx.violation('remove_mutated_input', 'remove_peaks changed its input (data or results)',
                          base)
        out = ev.result
        y0 = pre['y']
        succ = []
        for r in fits:
            if r.assessment.name != 'success':
                continue
            pv = _popt_values(r.popt)
            _, pk = _split_popt(pv)
            kind = _kind_of_peak_spec(r.peak)
            succ.append((float(r.window.values[0]), float(r.window.values[1]), kind, pk))
        base['successful_windows'] = [[s[0], s[1]] for s in succ]
        if (out.dims != data.dims or out.shape != data.shape or out.unit != data.unit
                or out.variances is not None or set(out.coords) != set(data.coords)
                or any(fp(out.coords[c]) != fp(data.coords[c]) for c in data.coords)
                or set(out.masks) != set(data.masks)
                or any(fp(out.masks[c]) != fp(data.masks[c]) for c in data.masks)):
            ctx.violation('remove_changed_structure', 'output differs from the input in dims, unit, '
                          'coordinates or masks', base)
            return
        exp, covered, mag = pm.removed(x, y0, succ)
        got = out.values
        outside = ~covered
        same = got[outside].view(np.int64) == y0[outside].view(np.int64)
        ctx.event('remove.outside', int(outside.sum()))
        if not np.all(same):
            j = int(np.flatnonzero(outside)[np.argmin(same)])
            ctx.violation('remove_changed_outside', f'{int((~same).sum())} points outside every '
                          f'successful window changed, e.g. x = {float(x[j])!r}: {float(y0[j])!r} -> {float(got[j])!r}',
                          {**base, 'index': j}, n_successful=len(succ), given_as=how)
        if covered.any():
            heights = np.zeros(len(x))
            ncov = np.zeros(len(x))
            for lo, hi, kind, pk in succ:
                mk = pm.in_window(x, lo, hi)
                heights[mk] += pm.peak_height(kind, pk)
                ncov[mk] += 1
            if covered.sum() and np.max(ncov) > 1:
                ctx.hit('overlapping successful windows')
            tol = 1e-12 * heights + 4 * pm.EPS * (ncov + 1) * (np.abs(y0) + mag.astype(float))
            d = np.abs(got.astype(pm.LD) - exp).astype(float)
            idx = np.flatnonzero(covered)
            rel = d[idx] / np.maximum(heights[idx], 1e-300)
            ctx.dev('remove.inside_error_over_height', float(np.max(rel)))
            ctx.event('remove.inside', int(covered.sum()))
            ctx.event('remove.inside.' + how, int(covered.sum()))
            badm = d[idx] > tol[idx]
            if np.any(badm):
                j = int(idx[np.argmax(d[idx] - tol[idx])])
                ctx.violation('remove_wrong_inside', f'{int(badm.sum())} points inside successful '
                              f'windows are not data minus the fitted peak(s), e.g. x = {float(x[j])!r}: got '
                              f'{float(got[j])!r}, expected {float(exp[j])!r} (data {float(y0[j])!r})',
                              {**base, 'index': j}, covering_windows=int(ncov[j]), given_as=how)

    return on_start, on_return


# -------------------------------------------------------------- workload ---
WINDOW_CLASSES = ['sub_step', 'few_points', 'moderate', 'wide', 'full_range', 'explicit',
                  'explicit_unsorted']
ESTIMATE_CLASSES = ['inside', 'lower_edge', 'upper_edge', 'outside_below', 'outside_above',
                    'two_outside_above', 'two_outside_below', 'inside_then_far_outside']
# (#peak models, #background models) of a specification; a single model is given bare or
# inside an iterable, several models always inside an iterable
SPEC_SHAPES = [(1, 1), (1, 2), (2, 1), (1, 2), (1, 1), (2, 2), (1, 3), (3, 2)]
SPEC_CLASSES = len(SPEC_SHAPES)
PEAK_KINDS = ['gaussian', 'lorentzian', 'pseudo_voigt']
# what lies under an estimate / which background the spectrum has
CONTENT_CLASSES = ['peaks', 'some_estimates_without_peak', 'no_peak_at_all']
BACKGROUND_CLASSES = ['flat', 'sloped', 'curved', 'strongly_curved']
UNITS = [(None, None), ('angstrom', 'counts'), ('us', 'counts'), ('m', 'K'), (None, 'counts')]
DIMS = ['x', 'dspacing', 'tof']


def _peak_element(kind, how, M):
    if how == 'name':
        return kind
    cls = {'gaussian': M.GaussianModel, 'lorentzian': M.LorentzianModel,
           'pseudo_voigt': M.PseudoVoigtModel}[kind]
    return cls(prefix=how)


def _bkg_element(deg, how, M):
    if how == 'name' and deg in (1, 2):
        return {1: 'linear', 2: 'quadratic'}[deg]
    return M.PolynomialModel(degree=deg, prefix='' if how == 'name' else how)


def make_specs(cls, gi, rng, M, sources, max_pairs=6):
    """Model specifications in every documented form: names, instances (default, expected or
    foreign prefix), one model bare or several in any iterable (sequence, re-iterable, one-shot),
    lists with several models of the same class (all backgrounds are polynomials; now and then
    the same peak class twice)."""
    n_peak, n_bkg = SPEC_SHAPES[cls]
    if n_peak * n_bkg > max_pairs:
        n_peak = max(1, max_pairs // n_bkg)
    kinds = [str(k) for k in rng.permutation(PEAK_KINDS)[:n_peak]]
    if n_peak > 1 and rng.random() < 0.15:
        kinds[-1] = kinds[0]
    # degrees of a background list: mostly the poorer model first (the documented example
    # ['linear', 'quadratic']), but every order occurs; degree 3 exists as an instance only
    r = rng.random()
    if n_bkg == 1:
        degs = [3] if r < 0.08 else ([1] if r < 0.54 else [2])
    elif n_bkg == 2:
        degs = [1, 2] if r < 0.7 else ([2, 1] if r < 0.82 else ([1, 3] if r < 0.92 else [2, 3]))
    else:
        degs = [1, 2, 3] if r < 0.6 else [int(d) for d in rng.permutation([1, 2, 3])]
    hows_p = ['name', 'name', 'peak_', '', 'foreign_', 'v']
    hows_b = ['name', 'name', 'bkg_', '', 'pre_', 'b2']
    peaks = [_peak_element(k, hows_p[rng.integers(0, len(hows_p))], M) for k in kinds]
    bkgs = [_bkg_element(d, hows_b[rng.integers(0, len(hows_b))], M) for d in degs]
    desc = {'peak_models': kinds, 'background_degrees': degs}
    out = []
    for name, items, k in (('peak', peaks, gi), ('background', bkgs, gi + 5 + gi // len(FORMS))):
        if len(items) == 1 and rng.random() < 0.6:
            out.append(items[0])
            desc[name + '_spec_form'] = 'bare'
        else:
            obj, form = in_form(FORMS[k % len(FORMS)], items, sources)
            out.append(obj)
            desc[name + '_spec_form'] = form
    return out[0], out[1], desc


NON_UNIFORM_GRIDS = ['geometric', 'piecewise', 'quadratic', 'geometric_descending']
GRID_KINDS = ['uniform', 'uniform', 'uniform', 'geometric', 'quadratic', 'geometric_descending',
              'piecewise']


def gen_spectrum(rng, tier, content='peaks', bgc=None, n_max=2000, n_estimates=None, grid=None):
    """A spectrum; ``peaks`` lists every place an estimate will point at.  Entries with
    ``present`` False are places WITHOUT a peak (nothing is added to the signal there):
    spurious estimates, as a peak finder produces them on noise or on a curved background."""
    n = int(round(10 ** rng.uniform(np.log10(50), np.log10(n_max))))
    if n_estimates is not None:
        n = max(n, 30 * n_estimates)
    gk = GRID_KINDS[rng.integers(0, len(GRID_KINDS))]
    if grid is not None:
        gk = grid
    i = np.arange(n, dtype=np.float64)
    if gk == 'uniform':
        step = 10 ** rng.uniform(-3, 1)
        if rng.random() < 0.25:
            step = 0.05
        x = step * rng.uniform(-50, 300) + step * i
    elif gk == 'geometric':
        ratio = rng.uniform(1.3, 6.0)
        x = 10 ** rng.uniform(-1, 3) * ratio ** (i / (n - 1))
    elif gk == 'geometric_descending':
        # logarithmic the other way round: the spacing shrinks along the axis
        ratio = rng.uniform(1.3, 6.0)
        g = 10 ** rng.uniform(-1, 3) * ratio ** (i / (n - 1))
        x = (g[0] + g[-1]) - g[::-1]
    elif gk == 'piecewise':
        # 2..4 stretches of constant spacing, the spacing jumps by up to x5 at each knot
        step = 10 ** rng.uniform(-3, 1)
        knots = np.sort(rng.integers(n // 10, n - n // 10, int(rng.integers(1, 4))))
        st = np.full(n - 1, step)
        for kn in knots:
            st[kn:] = step * 10 ** rng.uniform(-0.7, 0.7)
        x = step * rng.uniform(-50, 300) + np.concatenate([[0.0], np.cumsum(st)])
    else:
        step = 10 ** rng.uniform(-3, 1)
        x = step * rng.uniform(-50, 300) + step * (i + rng.uniform(0.2, 2.0) * i * i / n)
    steps = np.diff(x)
    npk = int(rng.integers(1, 7))
    if n_estimates is not None:
        npk = n_estimates
    npk = max(1, min(npk, n // 25))
    seg = (0.9 * n) / npk
    peaks = []
    for j in range(npk):
        ci = 0.05 * n + seg * (j + rng.uniform(0.3, 0.7))
        ci = min(max(ci, 2), n - 3)
        present = content == 'peaks' or (content == 'some_estimates_without_peak'
                                         and rng.random() < 0.6)
        if present:
            fw_steps = min(10 ** rng.uniform(np.log10(0.5), np.log10(40)), seg / 8)
        else:
            # no peak to keep apart from its neighbours: the nominal width (it only sizes the
            # windows) ranges from below a grid step to half a segment
            fw_steps = 10 ** rng.uniform(np.log10(0.5), np.log10(max(seg / 2, 1.0)))
        fw_steps = max(fw_steps, 0.5)
        local = steps[int(ci)]
        loc = float(np.interp(ci, i, x))
        kind = ['gaussian', 'lorentzian', 'pseudo_voigt'][rng.integers(0, 3)]
        fw = fw_steps * local
        p = {'loc': loc, 'scale': fw / (2 * math.sqrt(2 * math.log(2))) if kind == 'gaussian' else fw / 2}
        if kind == 'pseudo_voigt':
            p['fraction'] = float(rng.uniform(0, 1))
        peaks.append({'kind': kind, 'p': p, 'fwhm': fw, 'fwhm_steps': fw_steps,
                      'present': bool(present)})
    t = (x - 0.5 * (x[0] + x[-1])) / (0.5 * (x[-1] - x[0]))
    b0 = 10 ** rng.uniform(1.3, 3)
    if bgc is None:
        bgc = ['sloped', 'curved'][rng.integers(0, 2)]
    if bgc == 'flat':
        shape = np.ones(n)
    elif bgc == 'sloped':
        shape = 1 + rng.uniform(-0.5, 0.5) * t
    elif bgc == 'curved':
        shape = 1 + rng.uniform(-0.5, 0.5) * t + rng.uniform(-0.3, 0.3) * t * t
    else:
        c = rng.uniform(0.3, 1.5) * (1 if rng.random() < 0.5 else -1)
        shape = 1 + rng.uniform(-0.5, 0.5) * t + c * (t - rng.uniform(-0.6, 0.6)) ** 2
    if shape.min() < 0.2:
        shape = shape + (0.2 - shape.min())
    quad = bgc in ('curved', 'strongly_curved')
    bg = b0 * shape
    y = bg.copy()
    if rng.random() < 0.5:
        sigma = np.full(n, b0 * 10 ** rng.uniform(-3, -1.3))
        nk = 'constant'
    else:
        sigma = np.sqrt(bg) * 10 ** rng.uniform(-1.0, 0.3)
        nk = 'sqrt'
    for pk in peaks:
        if not pk['present']:
            continue
        at = float(np.interp(pk['p']['loc'], x, sigma))
        height = at * 10 ** rng.uniform(np.log10(5), np.log10(500))
        pk['p']['amplitude'] = 1.0
        pk['p']['amplitude'] = height / pm.peak_height(pk['kind'], pk['p'])
        if npk > 1 and rng.random() < 0.12:
            pk['p']['amplitude'] *= -1.0  # a dip: must never be reported as a successful peak
            pk['dip'] = True
        y = y + pm.peak(pk['kind'], x, pk['p']).astype(np.float64)
    y = y + rng.normal(0.0, 1.0, n) * sigma
    return {'x': x, 'y': y, 'var': sigma ** 2, 'peaks': peaks, 'grid': gk, 'noise': nk,
            'quadratic_bg': quad, 'background_class': bgc, 'content': content, 'n': n}


def estimates_variable(est, dim, unit, as_view, tag):
    """The 1d estimates: a variable of its own or (same sizes, same values) a slice of a longer one."""
    if not as_view:
        return sc.array(dims=[dim], values=est, unit=unit)
    tag['estimates_given_as'] = 'slice of a longer variable'
    big = np.concatenate([[np.nan, np.nan], est, [np.nan]])
    return sc.array(dims=[dim], values=big, unit=unit)[dim, 2:2 + len(est)]


def build_case(rng, gi, tier, M, P, sources):
    """One fit_peaks call: (data, kwargs, tag)."""
    wc = WINDOW_CLASSES[gi % len(WINDOW_CLASSES)]
    ec = ESTIMATE_CLASSES[(gi // len(WINDOW_CLASSES)) % len(ESTIMATE_CLASSES)]
    sc_cls = gi % SPEC_CLASSES if (gi // 56) % 2 == 0 else int(rng.integers(0, SPEC_CLASSES))
    content = CONTENT_CLASSES[gi % len(CONTENT_CLASSES)]
    bgc = BACKGROUND_CLASSES[int(rng.integers(0, len(BACKGROUND_CLASSES)))]
    # an attempt that does not converge costs ~10^4 model evaluations, and where there is no peak
    # a third of the attempts do not converge and every pair of a list is tried: the budget
    # (a case count) is kept by drawing fewer points for wide windows and, in the quick tier,
    # by at most 3 model pairs for spectra with estimates that have no peak under them
    n_max = 800 if wc in ('wide', 'full_range') else (2000 if content == 'peaks' else 1000)
    max_pairs = 6 if (tier != 'quick' or content == 'peaks') else 3
    layout, n_forced = None, None
    if wc in ('explicit', 'explicit_unsorted'):
        # every layout of a 2d windows array x 1, 2, 3+ estimates, cycled
        q = gi // len(WINDOW_CLASSES) + (0 if wc == 'explicit' else 5)
        layout, n_forced = EXPLICIT_COMBOS[q % len(EXPLICIT_COMBOS)]
    s = gen_spectrum(rng, tier, content, bgc, n_max,
                     n_estimates=None if n_forced is None else (n_forced if n_forced < 3 else 3 + gi % 3),
                     # every third spectrum on one of the non-uniform grids in turn (the others as drawn)
                     grid=NON_UNIFORM_GRIDS[(gi // 3) % len(NON_UNIFORM_GRIDS)] if gi % 3 == 1 else None)
    x, n = s['x'], s['n']
    xu, yu = UNITS[rng.integers(0, len(UNITS))]
    dim = DIMS[rng.integers(0, len(DIMS))]
    data = sc.DataArray(
        sc.array(dims=[dim], values=s['y'], variances=s['var'], unit=yu or 'one'),
        coords={dim: sc.array(dims=[dim], values=x, unit=xu or 'one')})
    rng_x = x[-1] - x[0]
    med = float(np.median(np.diff(x)))
    est = np.array([pk['p']['loc'] + rng.uniform(-0.3, 0.3) * pk['fwhm'] for pk in s['peaks']])
    fwhms = [pk['fwhm'] for pk in s['peaks']]
    free = [not pk['present'] for pk in s['peaks']]
    out_d = lambda: float(10 ** rng.uniform(np.log10(0.5 * med), np.log10(0.6 * rng_x)))  # noqa: E731
    if ec == 'lower_edge':
        est[0] = x[0]
    elif ec == 'upper_edge':
        est[-1] = x[-1]
    elif ec == 'outside_below':
        est[0] = x[0] - out_d()
    elif ec == 'outside_above':
        est[-1] = x[-1] + out_d()
    elif ec == 'two_outside_above':
        d1 = out_d()
        extra = [x[-1] + d1, x[-1] + d1 + out_d()]
        est = np.concatenate([est[:4], extra])
        fwhms = fwhms[:4] + [fwhms[-1]] * 2
        free = free[:4] + [True] * 2
    elif ec == 'two_outside_below':
        d1 = out_d()
        extra = [x[0] - d1 - out_d(), x[0] - d1]
        est = np.concatenate([extra, est[-4:]])
        fwhms = [fwhms[0]] * 2 + fwhms[-4:]
        free = [True] * 2 + free[-4:]
    elif ec == 'inside_then_far_outside':
        est = np.concatenate([est[:5], [x[-1] + rng.uniform(0.3, 2.0) * rng_x]])
        fwhms = fwhms[:5] + [fwhms[-1]]
        free = free[:5] + [True]
    order = np.argsort(est, kind='stable')
    if n_forced in (1, 2) and len(order) > n_forced:
        # keep the estimate(s) that make the estimate class (the lowest or the highest ones)
        order = order[-n_forced:] if ec in ('upper_edge', 'outside_above', 'two_outside_above',
                                            'inside_then_far_outside') else order[:n_forced]
    est, fwhms, free = est[order], [fwhms[k] for k in order], [free[k] for k in order]
    m = len(est)
    tag = {'window_class': wc, 'estimate_class': ec, 'spec_class': sc_cls, 'grid': s['grid'],
           'content': content, 'background_class': bgc,
           'units': [xu, yu], 'dim': dim, 'dips': sum(bool(pk.get('dip')) for pk in s['peaks'])}
    if wc == 'sub_step':
        windows = sc.scalar(med * rng.uniform(0.2, 0.95), unit=xu or 'one')
    elif wc == 'few_points':
        if s['grid'] == 'uniform' and abs(med - 0.05) < 1e-12 and rng.random() < 0.5:
            windows = sc.scalar(0.12, unit=xu or 'one')
        else:
            windows = sc.scalar(med * rng.uniform(1.0, 9.0), unit=xu or 'one')
    elif wc == 'moderate':
        windows = sc.scalar(float(np.median(fwhms)) * rng.uniform(5, 14) + 8 * med, unit=xu or 'one')
    elif wc == 'wide':
        windows = sc.scalar(rng_x * rng.uniform(0.3, 1.0), unit=xu or 'one')
    elif wc == 'full_range':
        windows = sc.scalar(rng_x * (1.0 if rng.random() < 0.5 else rng.uniform(1.0, 2.5)),
                            unit=xu or 'one')
    else:
        w = np.empty((m, 2))
        for k in range(m):
            half = fwhms[k] * rng.uniform(2.5, 8) + 4 * med
            w[k] = est[k] - half * rng.uniform(0.6, 1.4), est[k] + half * rng.uniform(0.6, 1.4)
        if wc == 'explicit_unsorted':
            perm = rng.permutation(m)
            est, w, free = est[perm], w[perm], [free[k] for k in perm]
            k = int(rng.integers(0, m))
            r = rng.random()
            if r < 0.25:
                w[k] = est[k], est[k]  # empty
            elif r < 0.5:
                w[k] = x[-1] + med, x[-1] + rng_x  # entirely outside
            elif r < 0.75:
                w[k] = x[0] - rng_x, x[0] + med * rng.uniform(0.5, 30)  # sticks out below
        windows = windows_in_layout(layout, w, dim, xu or 'one')
        tag['windows_layout'] = layout
    if windows.ndim == 0 and windows.value >= 4 and rng.random() < 0.25:
        # a width given as an integer number (a Variable of integer dtype)
        windows = sc.scalar(int(windows.value), unit=windows.unit)
        tag['integer_width'] = True
    # estimates (on the edge, outside or inside) under which the spectrum has no peak
    tag['peak_free'] = [bool(f) for f in free]
    peak_spec, bkg_spec, spec_desc = make_specs(sc_cls, gi, rng, M, sources, max_pairs)
    tag.update(spec_desc)
    kw = {'peak_estimates': estimates_variable(est, dim, xu or 'one', gi % 4 == 3, tag),
          'windows': windows, 'background': bkg_spec, 'peak': peak_spec}
    r = rng.random()
    if r < 0.5:
        f = float(rng.uniform(0.05, 0.9))
        # a plain int, a numpy scalar or a float
        f = 0 if r < 0.04 else (np.float64(f) if r < 0.12 else f)
        kw['fit_parameters'] = P.FitParameters(neighbor_separation_factor=f)
        tag['separation_factor'] = kw['fit_parameters'].neighbor_separation_factor
    if rng.random() < 0.5:
        kw['fit_requirements'] = P.FitRequirements(
            min_p_value=[0.01, 1e-4, 0.2, 0][rng.integers(0, 4)],
            max_peak_width_factor=[1.0, 0.5, 0.3, 1][rng.integers(0, 4)],
            min_peak_width_factor=[1.0, 2.0, 0.5, 2][rng.integers(0, 4)])
        tag['requirements'] = repr(kw['fit_requirements'])
    sig = ('fit_peaks', wc, ec, sc_cls, s['grid'], m, content, bgc,
           tag['peak_spec_form'], tag['background_spec_form'])
    return data, kw, tag, sig, s


# ---- resolution cases: the local spacing against every other spacing of the window ----------
# how the spacing changes across one fit window, and where in it the peak sits
RES_BLOCKS = ['geometric_up', 'fine_then_coarse', 'geometric_down', 'coarse_then_fine',
              'fine_coarse_fine', 'coarse_fine_coarse']
PLACEMENTS = ['coarse', 'fine']
WIDTH_FACTORS = [1.0, 2.0, 1.5]


def _block_steps(kind, L, s0, rng):
    """L - 1 spacings of one window region."""
    j = np.arange(L - 1, dtype=np.float64)
    if kind in ('geometric_up', 'geometric_down'):
        st = s0 * rng.uniform(1.03, 1.09) ** j
        return st if kind == 'geometric_up' else st[::-1].copy()
    k = rng.uniform(2.5, 6.0)
    if kind in ('fine_then_coarse', 'coarse_then_fine'):
        cut = int(round((L - 1) * rng.uniform(0.4, 0.6)))
        st = np.where(j < cut, s0, k * s0)
        return st if kind == 'fine_then_coarse' else st[::-1].copy()
    a, b = int(round((L - 1) * 0.36)), int(round((L - 1) * 0.64))
    mid = (j >= a) & (j < b)
    return np.where(mid, k * s0, s0) if kind == 'fine_coarse_fine' else np.where(mid, s0, k * s0)


def build_resolution_case(rng, ri, tier, M, P, sources):
    """One fit_peaks call on a NON-UNIFORM grid with 1..3 UNDER-RESOLVED peaks (FWHM of the order
    of the local spacing), each in an explicit window across which the spacing changes by a
    factor 2.5..20; the peak sits in the coarse or in the fine part of its window, so the spacing
    around the peak centre differs clearly from the mean / smallest / largest / median spacing of
    the window.  The true FWHM is placed on either side of ``min_peak_width_factor x local
    spacing``: close to it, and half-way (geometrically) between it and the threshold any other
    spacing of the window would give."""
    nblocks = 1 + ri % 3
    factor = WIDTH_FACTORS[(ri // 2) % len(WIDTH_FACTORS)]
    s0 = 10 ** rng.uniform(-3, 1)
    steps, blocks = [], []
    for b in range(nblocks):
        kind = RES_BLOCKS[(ri + b) % len(RES_BLOCKS)]
        placement = PLACEMENTS[((ri + b) // len(RES_BLOCKS)) % 2]
        L = int(rng.integers(34, 61))
        st = _block_steps(kind, L, s0 * 10 ** rng.uniform(-0.3, 0.3), rng)
        blocks.append({'kind': kind, 'placement': placement, 'L': L,
                       'start': sum(bl['L'] for bl in blocks)})
        steps.append(st)
        if b + 1 < nblocks:
            steps.append(np.array([st[-1]]))  # the step that leads to the next block
    st_all = np.concatenate(steps)
    x = s0 * rng.uniform(5, 200) + np.concatenate([[0.0], np.cumsum(st_all)])
    n = len(x)
    b0 = 10 ** rng.uniform(1.3, 3)
    t = (x - 0.5 * (x[0] + x[-1])) / (0.5 * (x[-1] - x[0]))
    bg = b0 * (1 + rng.uniform(-0.3, 0.3) * t)
    sigma = np.full(n, b0 * 10 ** rng.uniform(-3, -1.5))
    y = bg.copy()
    w, est, placed = [], [], []
    for b, bl in enumerate(blocks):
        i0, i1 = bl['start'] + 2, bl['start'] + bl['L'] - 3  # first and last point of the window
        nw = i1 - i0 + 1
        # the peak goes into the central half of the window (the package takes its first guess of
        # the background from the outer 15 % of the points on either side), two points or more
        # from a jump of the spacing, where the spacing is largest ('coarse') or smallest ('fine')
        cand = [c for c in range(i0 + int(math.ceil(0.25 * nw)), i0 + int(0.75 * nw) + 1)
                if max(st_all[c - 2:c + 2]) <= 1.35 * min(st_all[c - 2:c + 2])]
        loc_sp = np.array([0.5 * (st_all[c - 1] + st_all[c]) for c in cand])
        best = loc_sp.max() if bl['placement'] == 'coarse' else loc_sp.min()
        ties = [c for c, v in zip(cand, loc_sp, strict=True) if abs(v - best) <= 1e-9 * best]
        c = ties[int(rng.integers(0, len(ties)))]
        local = 0.5 * (st_all[c - 1] + st_all[c])
        others = window_spacings(x[i0:i1 + 1])
        # FWHM / (factor x local spacing): just below and above 1, and between 1 and what every
        # other spacing of this window would put the threshold at
        us = [0.88, 1.12] + [math.sqrt(v / local) for v in others.values()
                             if not 1 / 1.2 < v / local < 1.2]
        us = sorted({round(min(max(u, 0.45), 2.2), 6) for u in us})
        u = us[(ri // 3 + b) % len(us)]
        fw = factor * u * local
        kind = PEAK_KINDS[(ri // 2 + b) % 3]
        pp = {'loc': float(x[c] + rng.uniform(-0.45, 0.45) * min(st_all[c - 1], st_all[c])),
              'scale': fw / (2 * math.sqrt(2 * math.log(2))) if kind == 'gaussian' else fw / 2,
              'amplitude': 1.0}
        if kind == 'pseudo_voigt':
            pp['fraction'] = float(rng.uniform(0, 1))
        pp['amplitude'] = float(sigma[c] * 10 ** rng.uniform(1.5, 2.7) / pm.peak_height(kind, pp))
        y = y + pm.peak(kind, x, pp).astype(np.float64)
        w.append([x[i0] - 0.3 * st_all[i0 - 1], x[i1] + 0.3 * st_all[i1]])
        est.append(pp['loc'] + rng.uniform(-0.3, 0.3) * fw)
        placed.append({'window_grid': bl['kind'], 'placement': bl['placement'], 'peak': kind,
                       'fwhm_over_local_spacing': fw / local, 'fwhm_over_threshold': u,
                       'local_spacing': float(local), 'window_spacings': others})
    y = y + rng.normal(0.0, 1.0, n) * sigma
    xu, yu = UNITS[rng.integers(0, len(UNITS))]
    dim = DIMS[rng.integers(0, len(DIMS))]
    data = sc.DataArray(
        sc.array(dims=[dim], values=y, variances=sigma ** 2, unit=yu or 'one'),
        coords={dim: sc.array(dims=[dim], values=x, unit=xu or 'one')})
    layout = WINDOW_LAYOUTS[(ri // 3) % len(WINDOW_LAYOUTS)]
    kinds = [pl['peak'] for pl in placed]
    # one model where all peaks are of one kind, else the kinds present as a list
    uniq = list(dict.fromkeys(kinds))
    peak_spec = uniq[0] if len(uniq) == 1 else in_form('tuple', uniq, sources)[0]
    tag = {'window_class': 'explicit_non_uniform', 'estimate_class': 'inside', 'spec_class': None,
           'grid': 'blocks:' + '+'.join(bl['kind'] for bl in blocks), 'content': 'peaks',
           'background_class': 'sloped', 'units': [xu, yu], 'dim': dim, 'dips': 0,
           'windows_layout': layout, 'peak_free': [False] * nblocks, 'under_resolved': placed,
           'peak_models': uniq, 'background_degrees': [1], 'peak_spec_form': 'bare' if len(uniq) == 1 else 'tuple',
           'background_spec_form': 'bare', 'min_peak_width_factor': factor}
    kw = {'peak_estimates': estimates_variable(np.array(est), dim, xu or 'one', ri % 4 == 1, tag),
          'windows': windows_in_layout(layout, np.array(w), dim, xu or 'one'),
          'background': 'linear', 'peak': peak_spec,
          'fit_requirements': P.FitRequirements(min_peak_width_factor=factor)}
    tag['requirements'] = repr(kw['fit_requirements'])
    sig = ('fit_peaks', 'under_resolved', tuple((pl['window_grid'], pl['placement']) for pl in placed),
           factor, layout, tuple(kinds))
    return data, kw, tag, sig, {'n': n}


# ---- cheap spectra for the classes below ---------------------------------------------------
def _peak_params(kind, loc, fw, rng):
    pp = {'loc': float(loc), 'scale': fw / (2 * math.sqrt(2 * math.log(2))) if kind == 'gaussian' else fw / 2,
          'amplitude': 1.0}
    if kind == 'pseudo_voigt':
        pp['fraction'] = float(rng.uniform(0, 1))
    return pp


def simple_spectrum(rng, x, peaks, dim, xu, yu, snr=(1.5, 2.5)):
    """Peaks ``[(kind, loc, fwhm)]`` on a sloped background with constant Gaussian noise."""
    n = len(x)
    t = (x - 0.5 * (x[0] + x[-1])) / (0.5 * (x[-1] - x[0]))
    b0 = 10 ** rng.uniform(1.3, 3)
    y = b0 * (1 + rng.uniform(-0.3, 0.3) * t)
    sigma = np.full(n, b0 * 10 ** rng.uniform(-2.5, -1.5))
    for kind, loc, fw in peaks:
        pp = _peak_params(kind, loc, fw, rng)
        pp['amplitude'] = float(sigma[0] * 10 ** rng.uniform(*snr) / pm.peak_height(kind, pp))
        y = y + pm.peak(kind, x, pp).astype(np.float64)
    y = y + rng.normal(0.0, 1.0, n) * sigma
    return sc.DataArray(sc.array(dims=[dim], values=y, variances=sigma ** 2, unit=yu or 'one'),
                        coords={dim: sc.array(dims=[dim], values=x, unit=xu or 'one')})


def _tag(window_class, m, dim, xu, yu, peak_models, degrees, **extra):
    return {'window_class': window_class, 'estimate_class': 'inside', 'spec_class': None,
            'grid': 'uniform', 'content': 'peaks', 'background_class': 'sloped', 'units': [xu, yu],
            'dim': dim, 'dips': 0, 'peak_free': [False] * m, 'peak_models': list(peak_models),
            'background_degrees': list(degrees), 'peak_spec_form': 'bare',
            'background_spec_form': 'bare', **extra}


def _as_number(v, k):
    """A number the way a caller may write it: float, int (where integral), numpy scalar."""
    if float(v) == int(v) if math.isfinite(v) else False:
        return [int(v), float(v), np.int64(int(v)), np.float64(v)][k % 4]
    return [float(v), np.float64(v)][k % 2]


# ---- separation cases: neighbor_separation_factor over [0, 1] x window width against the gaps ----
SEP_FACTORS = ['0', 'small', 'default', 'one_half', 'above_one_half', '1']
SEP_BANDS = {
    # the requested width against, for every pair of neighbours with gap g: 2 (1 - f) g (half the
    # width reaches the limit f g from the neighbour), g (reaches the neighbour's half-way point
    # from either side) and 2 g (reaches the neighbouring estimate)
    'below_every_limit_and_gap': 'no window reaches a separation limit or a gap',
    'reaches_limit_below_smallest_gap': 'reaching a separation limit although narrower than the smallest gap',
    'above_smallest_gap_below_every_limit': 'wider than the smallest gap, reaching no separation limit',
    'smallest_gap_to_twice_largest': 'between the smallest gap and twice the largest',
    'above_twice_largest_gap': 'wider than twice the largest gap',
}
# the bands that exist for a factor class (for 2 estimates there is one gap; 3+ estimates get uneven gaps)
SEP_BANDS_OF = {
    '0': ['below_every_limit_and_gap', 'above_smallest_gap_below_every_limit',
          'smallest_gap_to_twice_largest', 'above_twice_largest_gap'],
    'small': ['below_every_limit_and_gap', 'above_smallest_gap_below_every_limit',
              'smallest_gap_to_twice_largest', 'above_twice_largest_gap'],
    'default': ['below_every_limit_and_gap', 'above_smallest_gap_below_every_limit',
                'smallest_gap_to_twice_largest', 'above_twice_largest_gap'],
    'one_half': ['below_every_limit_and_gap', 'smallest_gap_to_twice_largest', 'above_twice_largest_gap'],
    'above_one_half': ['below_every_limit_and_gap', 'reaches_limit_below_smallest_gap',
                       'smallest_gap_to_twice_largest', 'above_twice_largest_gap'],
    '1': ['reaches_limit_below_smallest_gap', 'smallest_gap_to_twice_largest', 'above_twice_largest_gap'],
}
FORCED_SEPARATION_CLASSES = [f'separation factor {fc}, width {SEP_BANDS[b]}'
                             for fc in SEP_FACTORS for b in SEP_BANDS_OF[fc]]


def _separation_factor(fc, rng, k):
    """(value handed to FitParameters or None = field left at its default, float value)."""
    if fc == '0':
        v = [0, 0.0, np.int64(0), np.float64(0.0)][k % 4]
    elif fc == 'small':
        v = float(10 ** rng.uniform(-3, -1))
    elif fc == 'default':
        v = [None, 1 / 3][k % 2]
    elif fc == 'one_half':
        v = [0.5, np.float64(0.5), np.float32(0.5)][k % 3]
    elif fc == 'above_one_half':
        v = [0.75, float(rng.uniform(0.55, 0.97)), np.float32(0.75), float(rng.uniform(0.9, 0.999))][k % 4]
    else:
        v = [1, 1.0, np.int64(1), np.float64(1.0)][k % 4]
    return v, (1 / 3 if v is None else float(v))


def _width_bands(f, gaps):
    """{band: (lo, hi, thresholds strictly inside)} of the scalar width for these gaps."""
    gmin, gmax = min(gaps), max(gaps)
    reach = sorted(2 * (1 - f) * g for g in gaps)
    thr = sorted({*reach, *gaps, *(2 * g for g in gaps)})
    out = {}

    def put(name, lo, hi):
        if hi > lo * (1 + 1e-3) and hi > 0:
            out[name] = (lo, hi, [t for t in thr if lo * (1 + 1e-9) < t < hi * (1 - 1e-9)])

    lowest = min(reach[0], gmin)
    put('below_every_limit_and_gap', 0.1 * lowest, lowest)
    if reach[0] < gmin:
        put('reaches_limit_below_smallest_gap', max(reach[0], 0.05 * gmin), gmin)
    else:
        put('above_smallest_gap_below_every_limit', gmin, reach[0])
    put('smallest_gap_to_twice_largest', max(gmin, reach[0]) if reach[0] <= 2 * gmax else gmin, 2 * gmax)
    put('above_twice_largest_gap', 2 * gmax, 6 * gmax)
    return out


def build_separation_case(rng, si, tier, M, P, sources):
    """fit_peaks calls with automatic windows on one spectrum with 2..6 estimates at UNEVEN gaps,
    one call per band of the scalar width (relative to the gaps and to where half the width
    reaches the separation limit of a pair), for one separation factor out of the whole
    admissible range 0 <= f <= 1.  Yields (data, kw, tag, sig)."""
    fc = SEP_FACTORS[si % len(SEP_FACTORS)]
    rnd = si // len(SEP_FACTORS)
    m = 2 + rnd % 5
    fval, f = _separation_factor(fc, rng, rnd)
    g0 = 10 ** rng.uniform(-1.5, 1.5)
    # uneven: the largest gap is 1.6..3 x the smallest, the others log-spaced in between, any order
    R = rng.uniform(1.6, 3.0)
    ratios = R ** (np.arange(m - 1) / max(m - 2, 1)) if m > 2 else np.array([1.0])
    gaps = (g0 * rng.permutation(ratios)).tolist()
    gmin, gmax = min(gaps), max(gaps)
    h = gmin / rng.uniform(16, 26)
    start = g0 * rng.uniform(-40, 40)
    centers = start + np.concatenate([[0.0], np.cumsum(gaps)])
    lo = centers[0] - rng.uniform(0.5, 1.3) * gmax
    hi = centers[-1] + rng.uniform(0.5, 1.3) * gmax
    n = int((hi - lo) / h) + 1
    i = np.arange(n, dtype=np.float64)
    grid = ['uniform', 'quadratic', 'uniform'][rnd % 3]
    x = lo + h * i if grid == 'uniform' else lo + h * (i + 0.25 * i * i / n) / 1.25
    kind = ['gaussian', 'lorentzian'][rnd % 2]
    xu, yu = UNITS[rng.integers(0, len(UNITS))]
    dim = DIMS[rng.integers(0, len(DIMS))]
    fws = [rng.uniform(3, 6) * h for _ in centers]
    data = simple_spectrum(rng, x, [(kind, c, fw) for c, fw in zip(centers, fws, strict=True)], dim, xu, yu)
    est = np.array([c + rng.uniform(-0.2, 0.2) * fw for c, fw in zip(centers, fws, strict=True)])
    egaps = np.diff(est).tolist()
    bands = _width_bands(f, egaps)
    for band in SEP_BANDS_OF[fc]:
        if band not in bands:
            continue  # one gap only / gaps too even for this band
        blo, bhi, inner = bands[band]
        pts = [blo, *inner, bhi]
        j = int(rng.integers(0, len(pts) - 1))
        w = pts[j] + (pts[j + 1] - pts[j]) * rng.uniform(0.15, 0.85)
        tag = _tag('auto_separation', m, dim, xu, yu, [kind], [1], grid=grid,
                   separation_class=fc, separation_factor=fval, width_band=band,
                   gaps=egaps, width_over_smallest_gap=w / min(egaps),
                   forced_class=f'separation factor {fc}, width {SEP_BANDS[band]}')
        kw = {'peak_estimates': estimates_variable(est, dim, xu or 'one', rnd % 4 == 2, tag),
              'windows': sc.scalar(w, unit=xu or 'one'), 'background': 'linear', 'peak': kind}
        if fval is not None:
            kw['fit_parameters'] = P.FitParameters(neighbor_separation_factor=fval)
        yield data, kw, tag, ('fit_peaks', 'auto_separation', fc, band, m, type(fval).__name__, grid)


# ---- field cases: every field of FitParameters / FitRequirements over its admissible range ----
# (class, field, position in the range, value); neighbor_separation_factor has its own cases above
FIELD_SETTINGS = [
    ('FitRequirements', 'min_p_value', 'lower end', 0), ('FitRequirements', 'min_p_value', 'small', 1e-6),
    ('FitRequirements', 'min_p_value', 'default', 0.01), ('FitRequirements', 'min_p_value', 'large', 0.5),
    ('FitRequirements', 'min_p_value', 'upper end', 1),
    ('FitRequirements', 'max_peak_width_factor', 'lower end', 0),
    ('FitRequirements', 'max_peak_width_factor', 'small', 1e-3),
    ('FitRequirements', 'max_peak_width_factor', 'below default', 0.3),
    ('FitRequirements', 'max_peak_width_factor', 'default', 1),
    ('FitRequirements', 'max_peak_width_factor', 'large', 10),
    ('FitRequirements', 'max_peak_width_factor', 'upper end', math.inf),
    ('FitRequirements', 'min_peak_width_factor', 'lower end', 0),
    ('FitRequirements', 'min_peak_width_factor', 'small', 0.5),
    ('FitRequirements', 'min_peak_width_factor', 'default', 1),
    ('FitRequirements', 'min_peak_width_factor', 'above default', 3),
    ('FitRequirements', 'min_peak_width_factor', 'large', 1e3),
    ('FitRequirements', 'min_peak_width_factor', 'upper end', math.inf),
    ('FitParameters', 'guess_background_fraction', 'small', 0.1),
    ('FitParameters', 'guess_background_fraction', 'below default', 0.25),
    ('FitParameters', 'guess_background_fraction', 'default', 0.5),
    ('FitParameters', 'guess_background_fraction', 'above default', 0.75),
    ('FitParameters', 'guess_background_fraction', 'large', 0.95),
    # the ends of 'a fraction of the window': no point left for the background / for the peak
    ('FitParameters', 'guess_background_fraction', 'lower end (refusal allowed)', 0),
    ('FitParameters', 'guess_background_fraction', 'upper end (refusal allowed)', 1),
]
FORCED_FIELD_CLASSES = [f'{c}.{fld} at its {pos}' for c, fld, pos, _ in FIELD_SETTINGS]


def build_field_case(rng, fi, tier, M, P, sources):
    """One fit_peaks call with one field of FitRequirements / FitParameters set to a value out of
    its admissible range (both ends included) on a spectrum that makes every requirement bite:
    a well-resolved peak, an under-resolved one (FWHM ~ 0.8 grid steps), a broad one (FWHM above
    the window width), a Lorentzian fitted with the Gaussian model (small p) and an estimate
    without a peak; windows of 40..60 points (narrow windows x fraction: build_narrow_fraction_case)."""
    cls, fld, pos, val = FIELD_SETTINGS[fi % len(FIELD_SETTINGS)]
    rnd = fi // len(FIELD_SETTINGS)
    h = 10 ** rng.uniform(-3, 1)
    n = 420
    x = h * rng.uniform(-50, 300) + h * np.arange(n, dtype=np.float64)
    npts = int(rng.integers(40, 61))
    locs = [x[0] + h * (n * q + rng.uniform(-3, 3)) for q in (0.12, 0.31, 0.5, 0.69, 0.88)]
    shapes = [('gaussian', locs[0], rng.uniform(4, 7) * h), ('gaussian', locs[1], rng.uniform(0.7, 0.95) * h),
              ('gaussian', locs[2], npts * h * rng.uniform(1.1, 1.5)), ('lorentzian', locs[3], rng.uniform(5, 8) * h)]
    xu, yu = UNITS[rng.integers(0, len(UNITS))]
    dim = DIMS[rng.integers(0, len(DIMS))]
    data = simple_spectrum(rng, x, shapes, dim, xu, yu, snr=(2.0, 3.0))
    est = np.array(locs) + rng.uniform(-0.5, 0.5, 5) * h
    v = _as_number(val, rnd + fi)
    tag = _tag('moderate', 5, dim, xu, yu, ['gaussian'], [1], content='some_estimates_without_peak',
               field=f'{cls}.{fld}', field_value=repr(v), field_position=pos,
               forced_class=f'{cls}.{fld} at its {pos}')
    tag['peak_free'] = [False, False, False, False, True]
    kw = {'peak_estimates': estimates_variable(est, dim, xu or 'one', False, tag),
          'windows': sc.scalar((npts - 0.5) * h, unit=xu or 'one'), 'background': 'linear', 'peak': 'gaussian'}
    if cls == 'FitRequirements':
        kw['fit_requirements'] = P.FitRequirements(**{fld: v})
        tag['requirements'] = repr(kw['fit_requirements'])
    else:
        kw['fit_parameters'] = P.FitParameters(**{fld: v})
        if 'refusal allowed' in pos:
            tag['refusal_ok'] = ('ValueError',)
            tag['refusal_class'] = f'{fld} = {val}'
    return data, kw, tag, ('fit_peaks', 'field', cls, fld, pos, type(v).__name__)


# ---- narrow windows x guess_background_fraction ------------------------------------------------
NARROW_FRACTIONS = ['0.1', '0.25', '0.75', '0.95', 'drawn']
# (peak specification, background specification): single pairs and lists
NARROW_SPECS = [('gaussian', 'linear'), ('lorentzian', 'quadratic'), (('gaussian', 'lorentzian'), 'linear'),
                ('pseudo_voigt', 'linear'), ('gaussian', ('linear', 'quadratic'))]
FORCED_NARROW_CLASSES = [f'narrow windows, guess_background_fraction {fc}, {wk} windows'
                         for fc in NARROW_FRACTIONS for wk in ('explicit', 'automatic')]
FORCED_NARROW_REGION_CLASSES = [
    'narrow window with enough points, fewer than 2 / fraction (no point for the tails)',
    'narrow window with enough points, at least 2 / fraction',
    'narrow window with enough points, one or two points between the tails']


def build_narrow_fraction_case(rng, ni, tier, M, P, sources):
    """fit_peaks calls with a NON-DEFAULT ``guess_background_fraction`` f in (0, 1) on windows that hold
    just enough points: every point count from the number of parameters of the smallest model
    pair up to 2 / f + 2 (where ``int(n f / 2)`` goes from 0 to 1; at least 6 counts; at most 10 per
    call, the ends and the counts around 2 / f always among them), one explicit window per count
    in one call, then two calls with automatic windows of such widths.  Every call must return one
    result per estimate (any assessment).  Yields (data, kw, tag, sig)."""
    fc = NARROW_FRACTIONS[ni % len(NARROW_FRACTIONS)]
    rnd = ni // len(NARROW_FRACTIONS)
    frac = float(fc) if fc != 'drawn' else float(10 ** rng.uniform(math.log10(0.04), math.log10(0.98)))
    if fc == 'drawn' and abs(frac - 0.5) < 0.02:
        frac = 0.4
    pk_spec, bg_spec = NARROW_SPECS[(ni + rnd) % len(NARROW_SPECS)]
    # budget of the quick tier: for f > 1/2 the first guess of the peak comes from one or two points,
    # a third of these fits runs into the evaluation limit of the optimiser (1..3 s each): one model
    # pair, three counts, one call with automatic windows, no single-peak re-runs (the thorough
    # tier has everything)
    lean = tier == 'quick' and frac > 0.5
    if lean:
        pk_spec = pk_spec if isinstance(pk_spec, str) else pk_spec[0]
        bg_spec = bg_spec if isinstance(bg_spec, str) else bg_spec[0]
    pks = [pk_spec] if isinstance(pk_spec, str) else list(pk_spec)
    bgs = [bg_spec] if isinstance(bg_spec, str) else list(bg_spec)
    kmin = min(pm.n_params(a, BKG_NAME[b]) for a in pks for b in bgs)
    flip = 2 / frac  # n >= flip  <=>  at least one point in either tail
    hi = max(int(math.ceil(flip)) + 2, kmin + 5)
    counts = list(range(kmin, hi + 1))
    if len(counts) > 10:
        must = {kmin, kmin + 1, hi, *(c for c in (int(math.ceil(flip)) + d for d in (-2, -1, 0, 1)) if kmin <= c <= hi)}
        rest = [c for c in counts if c not in must]
        pick = [rest[(rnd + 3 * q) % len(rest)] for q in range(10 - len(must))] if rest else []
        counts = sorted(must | set(pick))
    if lean:
        counts = sorted({kmin, kmin + 1 + rnd % 3, hi})
    h = 10 ** rng.uniform(-3, 1)
    n = 240
    x = h * rng.uniform(-50, 300) + h * np.arange(n, dtype=np.float64)
    centres = [int(n * q) for q in (0.25, 0.5, 0.75)]
    kinds = [pks[q % len(pks)] for q in range(3)]
    shapes = [(kd, x[c] + rng.uniform(-0.3, 0.3) * h, rng.uniform(1.5, 3.0) * h)
              for kd, c in zip(kinds, centres, strict=True)]
    xu, yu = UNITS[rng.integers(0, len(UNITS))]
    dim = DIMS[rng.integers(0, len(DIMS))]
    data = simple_spectrum(rng, x, shapes, dim, xu, yu)
    fval = [frac, np.float64(frac)][rnd % 2]
    as_spec = lambda sp: sp if isinstance(sp, str) else list(sp)  # noqa: E731

    def tag_for(kind, m, cs):
        t = _tag(kind, m, dim, xu, yu, pks, [BKG_NAME[b] for b in bgs], field='FitParameters.guess_background_fraction',
                 field_value=repr(fval), guess_fraction=frac, point_counts=list(cs), fraction_class=fc,
                 forced_class=f'narrow windows, guess_background_fraction {fc}, '
                              f'{"explicit" if kind == "explicit" else "automatic"} windows')
        if lean:
            t['skip_isolation'] = True
        if not isinstance(pk_spec, str):
            t['peak_spec_form'] = 'list'
        if not isinstance(bg_spec, str):
            t['background_spec_form'] = 'list'
        return t

    # one explicit window per point count, around the three peaks in turn (explicit windows may overlap)
    w, est = [], []
    for q, c in enumerate(counts):
        ctr = centres[q % 3]
        i0 = ctr - c // 2
        w.append([x[i0] - 0.3 * h, x[i0 + c - 1] + 0.3 * h])
        est.append(shapes[q % 3][1])
    order = np.argsort(est, kind='stable')
    w, est, cs = np.array(w)[order], np.array(est)[order], [counts[q] for q in order]
    layout = WINDOW_LAYOUTS[rnd % len(WINDOW_LAYOUTS)]
    tag = tag_for('explicit', len(est), cs)
    tag['windows_layout'] = layout
    kw = {'peak_estimates': estimates_variable(est, dim, xu or 'one', False, tag),
          'windows': windows_in_layout(layout, w, dim, xu or 'one'),
          'background': as_spec(bg_spec), 'peak': as_spec(pk_spec),
          'fit_parameters': P.FitParameters(guess_background_fraction=fval)}
    yield data, kw, tag, ('fit_peaks', 'narrow_fraction', 'explicit', fc, pk_spec, bg_spec, len(cs))
    # automatic windows: the width makes the count (the same for every estimate, +- 1 with the position)
    below = [c for c in counts if c < flip]
    autos = [below[rnd % len(below)] if below else counts[rnd % len(counts)], counts[(rnd + len(counts) // 2) % len(counts)]]
    for c in autos[:1] if lean else autos:
        est2 = np.array([shapes[0][1], shapes[2][1]])
        tag = tag_for('few_points', 2, [c, c])
        kw = {'peak_estimates': estimates_variable(est2, dim, xu or 'one', False, tag),
              'windows': sc.scalar((c - 0.5) * h, unit=xu or 'one'),
              'background': as_spec(bg_spec), 'peak': as_spec(pk_spec),
              'fit_parameters': P.FitParameters(guess_background_fraction=fval)}
        yield data, kw, tag, ('fit_peaks', 'narrow_fraction', 'automatic', fc, pk_spec, bg_spec, c >= flip)


# ---- the same input in every other form the documentation allows (protocol classes) ----------
# dim names an implementation might use internally (the package's literal is 'range', which the
# documented layout of explicit windows reserves), near misses of it, and odd but legal labels
PROTOCOL_DIMS = ['row', 'rotation', 'slit', 'vertex', 'cutout', 'event', 'x', 'range_', 'Range',
                 'dim_0', 'a b', 'λ', 'c5a5b8e2-1f0e-4b7c-9d57-3f2f4b0e8a11']
HEAVY_SIZES = [2 ** 20 + 7, 3 * 400001]


def result_key(res):
    """What a caller can read off a list of results, bit for bit (model identity by kind)."""
    out = []
    for r in res:
        out.append((r.assessment.name, _model_pair(r.peak, r.background),
                    np.asarray(r.window.values, dtype=np.float64).tobytes(), str(r.window.unit),
                    tuple((k, np.float64(v.value).tobytes(), str(v.unit)) for k, v in sorted(r.popt.items())),
                    tuple(np.float64(getattr(r, s).value).tobytes() for s in ('red_chisq', 'p_value', 'aic'))))
    return out


def _protocol_classes():
    """(axis, name) of every protocol variant, in the order they are dealt to the shards."""
    v = [('variances', 'explicit windows carrying variances'),
         ('variances', 'estimates carrying variances, explicit windows'),
         ('variances', 'estimates carrying variances, automatic windows (refusal allowed)'),
         ('variances', 'window width carrying a variance (refusal allowed)'),
         ('variances', 'point coordinate carrying variances (refusal allowed)'),
         ('masks', 'a mask that masks nothing'), ('masks', 'masked points outside every window'),
         ('masks', 'two masks, masked points inside a window'),
         *(('dim names', f'dimension named {d!r}') for d in PROTOCOL_DIMS),
         ('calling convention', 'fit_peaks with every argument by keyword'),
         ('calling convention', 'remove_peaks positional / keyword / mixed'),
         ('calling convention', 'FitResult methods positional / keyword'),
         ('names', 'numpy.str_ names'), ('names', '(str, Enum) member names'), ('names', 'StrEnum member names'),
         ('names', 'str subclass names'), ('names', 'list of numpy.str_ names'),
         ('names', 'tuple of (str, Enum) members'), ('names', 'numpy array of names'),
         ('names', 'polynomial degree given as numpy.int64 / IntEnum member'),
         ('second use', 'the same model / FitParameters / FitRequirements objects in a second call'),
         ('second use', 'call repeated after a refused call (unsorted estimates, automatic windows)'),
         ('second use', 'the same results removed twice and removal of the removal'),
         ('second use', 'windows and fitted centres of the results fed back as explicit input'),
         ('stand-ins', 'subclasses of the model classes'),
         ('stand-ins', 'subclasses of FitParameters / FitRequirements'),
         ('stand-ins', 'attribute-only stand-ins for FitParameters / FitRequirements'),
         ('stand-ins', 'property-based stand-ins for FitParameters / FitRequirements'),
         ('stand-ins', 'subclass of FitResult handed to remove_peaks'),
         ('display and copies', 'repr / str / copy / deepcopy / pickle / == of models and parameter objects between two fits'),
         ('display and copies', 'repr / str / report / == / hash / asdict of results before removal'),
         ('display and copies', 'copy / deepcopy / replace of results handed to remove_peaks')]
    return v


PROTOCOL_CLASSES = _protocol_classes()
FORCED_PROTOCOL_CLASSES = [f'{axis}: {name}' for axis, name in PROTOCOL_CLASSES]


class Protocol:
    """One cheap reference spectrum per shard; each variant hands the SAME input to the package in
    another form the documentation allows and must give the same results bit for bit (the
    monitors judge every call as usual on top)."""

    def __init__(self, ctx, mon, P, M, FP, rng, tier, heavy_n=None):
        self.ctx, self.mon, self.P, self.M, self.FP, self.rng, self.tier = ctx, mon, P, M, FP, rng, tier
        h = 10 ** rng.uniform(-2, 1)
        n = int(rng.integers(150, 260)) if heavy_n is None else heavy_n
        self.h, self.n = h, n
        self.x = h * rng.uniform(-50, 300) + h * np.arange(n, dtype=np.float64)
        self.m = 2 if heavy_n is None else 3
        q = (0.3, 0.68) if heavy_n is None else (0.2, 0.5, 0.8)
        self.locs = [self.x[0] + h * (n * qq + rng.uniform(-3, 3)) for qq in q]
        self.fws = [rng.uniform(4, 7) * h for _ in q]
        self.xu, self.yu = UNITS[1 + rng.integers(0, 3)]
        self.dim = 'tof'
        self.data = simple_spectrum(rng, self.x, [('gaussian', c, fw) for c, fw in
                                                 zip(self.locs, self.fws, strict=True)], self.dim, self.xu, self.yu)
        self.est = np.array([c + rng.uniform(-0.2, 0.2) * fw for c, fw in zip(self.locs, self.fws, strict=True)])
        self.width = float(int(rng.integers(30, 44)) * h)
        self.ref = None

    # -- plumbing ---------------------------------------------------------------------------
    def tag(self, window_class, axis, name, dim=None, **extra):
        return _tag(window_class, self.m, dim or self.dim, self.xu, self.yu, ['gaussian'], [1],
                    protocol_axis=axis, protocol_form=name, **extra)

    def kw(self, dim=None, **over):
        dim = dim or self.dim
        kw = {'peak_estimates': sc.array(dims=[dim], values=self.est, unit=self.xu),
              'windows': sc.scalar(self.width, unit=self.xu), 'background': 'linear', 'peak': 'gaussian'}
        kw.update(over)
        return kw

    def explicit(self, dim=None, variances=False):
        w = np.array([r.window.values for r in self.ref])
        dim = dim or self.dim
        if variances:
            return sc.array(dims=[dim, 'range'], values=w, variances=np.full(w.shape, (0.3 * self.h) ** 2),
                            unit=self.xu)
        return sc.array(dims=[dim, 'range'], values=w, unit=self.xu)

    def fit(self, data, kw, tag, sig, by_keyword=False):
        mon, ctx = self.mon, self.ctx
        mon.tag.clear()
        mon.tag.update(tag)
        if kw['windows'].ndim:
            tag.setdefault('windows_layout', 'dim_range')
            mon.tag['windows_layout'] = 'dim_range'
        _forced(ctx, mon.tag, kw, data, mon.sources)
        res = None
        try:
            if by_keyword:
                res = self.P.fit_peaks(**dict(reversed(list(kw.items()))), data=data)
            else:
                res = self.P.fit_peaks(data, **kw)
        except Exception:  # noqa: BLE001  (judged by the monitor through PY_UNWIND)
            pass
        ctx.case(sig)
        return res

    def plain(self, data=None):
        data = self.data if data is None else data
        return sc.DataArray(sc.values(data.data), coords=dict(data.coords), masks=dict(data.masks))

    def reference(self):
        tag = self.tag('moderate', 'reference', 'reference')
        self.ref = self.fit(self.data, self.kw(), tag, ('fit_peaks', 'protocol', 'reference', self.n > 10 ** 5))
        if self.ref is None or len(self.ref) != self.m:
            self.ref = None
            return False
        self.key = result_key(self.ref)
        self.ctx.count('protocol_reference:' + '+'.join(r.assessment.name for r in self.ref))
        self.mon.tag.clear()
        self.mon.tag.update(tag)
        try:
            self.removed = self.P.remove_peaks(self.plain(), list(self.ref))
        except Exception:  # noqa: BLE001  (judged by the monitor)
            self.removed = None
        return True

    def same(self, axis, name, res, allow_refusal=False):
        """``res`` (None: the call raised; the monitor has judged or counted that) against the reference."""
        ctx = self.ctx
        if res is None:
            if allow_refusal:
                ctx.event('other_form.refused')
            return
        ctx.event('same_result_in_other_form')
        ctx.event('other_form.' + axis)
        if len(res) != len(self.key) or result_key(res) != self.key:
            got = [r.assessment.name for r in res] if all(hasattr(r, 'assessment') for r in res) else repr(res)[:200]
            ctx.violation('result_depends_on_form_of_input',
                          f'{axis}: {name}: results differ from those of the same input in its plain form '
                          f'(assessments {got} vs {[k[0] for k in self.key]})',
                          {'axis': axis, 'form': name, 'n_points': self.n, 'estimates': self.est.tolist(),
                           'width': self.width, 'reference_windows': [r.window.values.tolist() for r in self.ref]},
                          axis=axis)

    def same_removal(self, axis, name, out):
        ctx = self.ctx
        if out is None or self.removed is None:
            return
        ctx.event('same_removal_in_other_form')
        ctx.event('other_form.' + axis)
        if not (out.dims == self.removed.dims and _bits_equal(out.values, self.removed.values)
                and out.unit == self.removed.unit):
            ctx.violation('removal_depends_on_form_of_input',
                          f'{axis}: {name}: remove_peaks gives another result than for the same input in '
                          'its plain form', {'axis': axis, 'form': name, 'n_points': self.n}, axis=axis)

    def remove(self, *args, **kwargs):
        try:
            return self.P.remove_peaks(*args, **kwargs)
        except Exception:  # noqa: BLE001  (judged by the monitor)
            return None

    # -- the variants -----------------------------------------------------------------------
    def run(self, k):
        axis, name = PROTOCOL_CLASSES[k]
        self.ctx.hit(f'{axis}: {name}')
        sig = ('fit_peaks', 'protocol', axis, name)
        getattr(self, '_' + axis.replace(' ', '_').replace('-', '_'))(axis, name, sig)

    def _variances(self, axis, name, sig):
        ev = sc.array(dims=[self.dim], values=self.est, variances=np.full(self.m, (0.1 * self.h) ** 2), unit=self.xu)
        refusal = {'refusal_ok': ('VariancesError',), 'refusal_class': name}
        if name == 'explicit windows carrying variances':
            res = self.fit(self.data, self.kw(windows=self.explicit(variances=True)), self.tag('explicit', axis, name), sig)
            self.same(axis, name, res)
        elif name == 'estimates carrying variances, explicit windows':
            res = self.fit(self.data, self.kw(windows=self.explicit(), peak_estimates=ev),
                           self.tag('explicit', axis, name), sig)
            self.same(axis, name, res)
        elif name.startswith('estimates carrying variances, automatic'):
            res = self.fit(self.data, self.kw(peak_estimates=ev), self.tag('moderate', axis, name, **refusal), sig)
            self.same(axis, name, res, allow_refusal=True)
        elif name.startswith('window width'):
            w = sc.scalar(self.width, variance=(0.01 * self.width) ** 2, unit=self.xu)
            res = self.fit(self.data, self.kw(windows=w), self.tag('moderate', axis, name, **refusal), sig)
            self.same(axis, name, res, allow_refusal=True)
        else:
            d = self.data.copy()
            d.coords[self.dim] = sc.array(dims=[self.dim], values=self.x, variances=np.full(self.n, (0.01 * self.h) ** 2),
                                          unit=self.xu)
            res = self.fit(d, self.kw(), self.tag('moderate', axis, name, **refusal), sig)
            self.same(axis, name, res, allow_refusal=True)

    def _masks(self, axis, name, sig):
        d = self.data.copy()
        covered = np.zeros(self.n, dtype=bool)
        for r in self.ref:
            covered |= pm.in_window(self.x, *r.window.values)
        if name == 'a mask that masks nothing':
            d.masks['nothing'] = sc.zeros(dims=[self.dim], shape=[self.n], dtype=bool)
            self.same(axis, name, self.fit(d, self.kw(), self.tag('moderate', axis, name), sig))
        elif name == 'masked points outside every window':
            mk = ~covered & (self.rng.random(self.n) < 0.5)
            mk[np.flatnonzero(~covered)[:1]] = True
            d.masks['bad'] = sc.array(dims=[self.dim], values=mk)
            self.same(axis, name, self.fit(d, self.kw(), self.tag('moderate', axis, name), sig))
            out = self.remove(self.plain(d), list(self.ref))
            self.same_removal(axis, name, out)
        else:
            # judged by the monitors only: the statistics are those of all points of the window
            idx = np.flatnonzero(covered)
            mk = np.zeros(self.n, dtype=bool)
            mk[self.rng.choice(idx, size=max(2, len(idx) // 12), replace=False)] = True
            d.masks['bad'] = sc.array(dims=[self.dim], values=mk)
            d.masks['nothing'] = sc.zeros(dims=[self.dim], shape=[self.n], dtype=bool)
            res = self.fit(d, self.kw(), self.tag('moderate', axis, name, masked_inside=True), sig)
            if res is not None:
                self.ctx.event('masked_points_inside_window')
                self.remove(self.plain(d), list(res))

    def _dim_names(self, axis, name, sig):
        dim = PROTOCOL_DIMS[[f'dimension named {d!r}' for d in PROTOCOL_DIMS].index(name)]
        d = self.data.rename_dims({self.dim: dim})
        d = sc.DataArray(d.data, coords={dim: d.coords[self.dim]})
        if PROTOCOL_DIMS.index(dim) % 2:
            kw = self.kw(dim=dim, windows=self.explicit(dim=dim))
            res = self.fit(d, kw, self.tag('explicit', axis, name, dim=dim), sig)
        else:
            res = self.fit(d, self.kw(dim=dim), self.tag('moderate', axis, name, dim=dim), sig)
        self.same(axis, name, res)
        if res is not None:
            out = self.remove(self.plain(d), list(res))
            self.same_removal(axis, name, out.rename_dims({dim: self.dim}) if out is not None else None)

    def _calling_convention(self, axis, name, sig):
        if name.startswith('fit_peaks'):
            kw = self.kw(fit_parameters=self.P.FitParameters(), fit_requirements=self.P.FitRequirements())
            self.same(axis, name, self.fit(self.data, kw, self.tag('moderate', axis, name), sig, by_keyword=True))
        elif name.startswith('remove_peaks'):
            self.mon.tag.clear()
            self.mon.tag.update(self.tag('moderate', axis, name))
            pl, fits = self.plain(), list(self.ref)
            for out in (self.remove(pl, fits), self.remove(data=pl, fit_results=fits),
                        self.remove(pl, fit_results=tuple(fits)), self.remove(fit_results=fits, data=pl)):
                self.same_removal(axis, name, out)
                self.ctx.case(('remove_peaks', 'protocol', axis))
        else:
            xs = self.data.coords[self.dim]
            for r, o in zip(self.ref, self.ref[1:] + self.ref[:1], strict=True):
                if not math.isfinite(float(r.aic.value)) or any(math.isnan(float(v.value)) for v in r.popt.values()):
                    continue
                self.ctx.event('other_form.' + axis)
                a, b = r.eval_peak(xs), r.eval_peak(x=xs)
                c, d = r.eval_model(xs), r.eval_model(x=xs)
                if not (_bits_equal(a.values, b.values) and _bits_equal(c.values, d.values)
                        and r.better_than(o) == r.better_than(other=o)):
                    self.ctx.violation('result_depends_on_form_of_input', f'{axis}: {name}: FitResult.eval_peak / '
                                       'eval_model / better_than differ between positional and keyword call',
                                       {'axis': axis, 'form': name}, axis=axis)
                # and the peak the result evaluates is the documented formula of its parameters
                _, pk = _split_popt(_popt_values(r.popt))
                kind = _kind_of_peak_spec(r.peak)
                exp = pm.peak(kind, xs.values, pk)
                err = float(np.max(np.abs(a.values.astype(pm.LD) - exp)))
                self.ctx.dev('eval_peak.error_over_height', err / max(pm.peak_height(kind, pk), 1e-300))
                if err > 1e-12 * pm.peak_height(kind, pk) and pk['scale'] > 1e-15:
                    self.ctx.violation('eval_peak', f'eval_peak differs from the documented {kind} formula of the '
                                       f'reported parameters by {err!r}', {'axis': axis, 'popt_peak': pk})

    def _names(self, axis, name, sig):
        import enum

        class PeakName(str, enum.Enum):
            gaussian = 'gaussian'
            lorentzian = 'lorentzian'

        class BkgName(str, enum.Enum):
            quadratic = 'quadratic'
            linear = 'linear'

        class AnyName(enum.StrEnum):
            linear = 'linear'
            gaussian = 'gaussian'

        class Label(str):
            __slots__ = ()

        if name.startswith('polynomial degree'):
            class Degree(enum.IntEnum):
                linear = 1

            for dg in (np.int64(1), Degree.linear):
                kw = self.kw(background=self.M.PolynomialModel(degree=dg, prefix='bkg_'))
                self.same(axis, name, self.fit(self.data, kw, self.tag('moderate', axis, name), sig))
            return
        pk, bg = {
            'numpy.str_ names': (np.str_('gaussian'), np.str_('linear')),
            '(str, Enum) member names': (PeakName.gaussian, BkgName.linear),
            'StrEnum member names': (AnyName.gaussian, AnyName.linear),
            'str subclass names': (Label('gaussian'), Label('linear')),
            'list of numpy.str_ names': ([np.str_('gaussian')], [np.str_('linear')]),
            'tuple of (str, Enum) members': ((PeakName.gaussian,), (BkgName.linear,)),
            'numpy array of names': (np.array(['gaussian']), np.array(['linear'])),
        }[name]
        tag = self.tag('moderate', axis, name)
        if not isinstance(pk, str):
            tag['peak_spec_form'] = tag['background_spec_form'] = type(pk).__name__
        self.same(axis, name, self.fit(self.data, self.kw(peak=pk, background=bg), tag, sig))

    def _second_use(self, axis, name, sig):
        P, M = self.P, self.M
        if name.startswith('the same model'):
            g, b = M.GaussianModel(prefix='peak_'), M.PolynomialModel(degree=1, prefix='bkg_')
            par, req = P.FitParameters(), P.FitRequirements()
            for _ in range(2):
                kw = self.kw(peak=g, background=b, fit_parameters=par, fit_requirements=req)
                self.same(axis, name, self.fit(self.data, kw, self.tag('moderate', axis, name), sig))
        elif name.startswith('call repeated'):
            # sorted estimates are the documented precondition of automatic windows
            bad = self.kw(peak_estimates=sc.array(dims=[self.dim], values=self.est[::-1].copy(), unit=self.xu))
            self.fit(self.data, bad, self.tag('moderate', axis, name, estimate_class='unsorted',
                                              refusal_ok=('ValueError',), refusal_class='unsorted estimates, automatic windows'),
                     (*sig, 'refused'))
            self.same(axis, name, self.fit(self.data, self.kw(), self.tag('moderate', axis, name), sig))
        elif name.startswith('the same results'):
            self.mon.tag.clear()
            self.mon.tag.update(self.tag('moderate', axis, name))
            pl, fits = self.plain(), list(self.ref)
            one = self.remove(pl, fits)
            two = self.remove(pl, fits)
            self.same_removal(axis, name, one)
            self.same_removal(axis, name, two)
            if one is not None:
                self.remove(one, fits)  # the monitor judges: the fitted peaks are subtracted once more
                self.ctx.case(('remove_peaks', 'protocol', axis))
        else:
            ok = [r for r in self.ref if not math.isnan(float(r.popt['peak_loc'].value))]
            if len(ok) == self.m:
                est = sc.array(dims=[self.dim], values=[float(r.popt['peak_loc'].value) for r in ok], unit=self.xu)
                kw = self.kw(peak_estimates=est, windows=self.explicit())
                self.same(axis, name, self.fit(self.data, kw, self.tag('explicit', axis, name), sig))
            else:
                self.ctx.count('protocol_not_applicable:no fitted centre to feed back')

    def _stand_ins(self, axis, name, sig):
        import types

        P, M, FP = self.P, self.M, self.FP
        if name == 'subclasses of the model classes':
            class Bell(M.GaussianModel):
                pass

            class Baseline(M.PolynomialModel):
                pass

            kw = self.kw(peak=Bell(prefix='peak_'), background=Baseline(degree=1, prefix='bkg_'))
            res = self.fit(self.data, kw, self.tag('moderate', axis, name), sig)
            self.same(axis, name, res)
            if res is not None:
                self.same_removal(axis, name, self.remove(self.plain(), list(res)))
        elif name.startswith('subclasses of FitParameters'):
            class Par(P.FitParameters):
                pass

            class Req(P.FitRequirements):
                pass

            kw = self.kw(fit_parameters=Par(), fit_requirements=Req())
            self.same(axis, name, self.fit(self.data, kw, self.tag('moderate', axis, name), sig))
        elif name.startswith('attribute-only'):
            kw = self.kw(fit_parameters=types.SimpleNamespace(guess_background_fraction=0.5,
                                                              neighbor_separation_factor=1 / 3),
                         fit_requirements=types.SimpleNamespace(min_p_value=0.01, max_peak_width_factor=1.0,
                                                                min_peak_width_factor=1.0))
            self.same(axis, name, self.fit(self.data, kw, self.tag('moderate', axis, name), sig))
        elif name.startswith('property-based'):
            class Par:
                guess_background_fraction = property(lambda self: 0.5)
                neighbor_separation_factor = property(lambda self: 1 / 3)

            class Req:
                min_p_value = property(lambda self: 0.01)
                max_peak_width_factor = property(lambda self: 1.0)
                min_peak_width_factor = property(lambda self: 1.0)

            kw = self.kw(fit_parameters=Par(), fit_requirements=Req())
            self.same(axis, name, self.fit(self.data, kw, self.tag('moderate', axis, name), sig))
        else:
            class Outcome(FP.FitResult):
                __slots__ = ()

            self.mon.tag.clear()
            self.mon.tag.update(self.tag('moderate', axis, name))
            fits = [Outcome(**{f.name: getattr(r, f.name) for f in dataclasses.fields(r)}) for r in self.ref]
            self.same_removal(axis, name, self.remove(self.plain(), fits))
            self.ctx.case(('remove_peaks', 'protocol', axis))

    def _display_and_copies(self, axis, name, sig):
        import copy
        import pickle

        P, M = self.P, self.M
        if name.startswith('repr / str / copy'):
            g, b = M.GaussianModel(prefix='peak_'), M.PolynomialModel(degree=1, prefix='bkg_')
            par, req = P.FitParameters(), P.FitRequirements()
            kw = self.kw(peak=g, background=b, fit_parameters=par, fit_requirements=req)
            self.same(axis, name, self.fit(self.data, kw, self.tag('moderate', axis, name), sig))
            for o in (g, b, par, req):
                for op in (repr, str, copy.copy, copy.deepcopy, lambda v: pickle.loads(pickle.dumps(v)),
                           lambda v: v == copy.copy(v), lambda v: v != v):
                    try:
                        op(o)
                    except Exception:  # noqa: BLE001  (not part of C17; only the next fit is judged)
                        self.ctx.count('display_operation_raised:' + type(o).__name__)
            self.same(axis, name, self.fit(self.data, kw, self.tag('moderate', axis, name), sig))
            kw2 = self.kw(peak=pickle.loads(pickle.dumps(g)), background=copy.deepcopy(b),
                          fit_parameters=copy.copy(par), fit_requirements=dataclasses.replace(req))
            self.same(axis, name, self.fit(self.data, kw2, self.tag('moderate', axis, name), (*sig, 'copies')))
        elif name.startswith('repr / str / report'):
            self.mon.tag.clear()
            self.mon.tag.update(self.tag('moderate', axis, name))
            fits = list(self.ref)
            for r in fits:
                for op in (repr, str, lambda v: v.report(), lambda v: v == v, hash, dataclasses.asdict,
                           lambda v: v.success, lambda v: v.eval_model(self.data.coords[self.dim])):
                    try:
                        op(r)
                    except Exception:  # noqa: BLE001
                        self.ctx.count('display_operation_raised:FitResult')
            self.same_removal(axis, name, self.remove(self.plain(), fits))
            self.ctx.case(('remove_peaks', 'protocol', axis))
            if result_key(fits) != self.key:
                self.ctx.violation('result_depends_on_form_of_input', f'{axis}: {name}: looking at the results '
                                   'changed them', {'axis': axis, 'form': name}, axis=axis)
        else:
            self.mon.tag.clear()
            self.mon.tag.update(self.tag('moderate', axis, name))
            for how, f in (('copy', copy.copy), ('deepcopy', copy.deepcopy), ('replace', dataclasses.replace)):
                try:
                    fits = [f(r) for r in self.ref]
                except Exception:  # noqa: BLE001
                    self.ctx.count('display_operation_raised:FitResult.' + how)
                    continue
                self.same_removal(axis, name, self.remove(self.plain(), fits))
                self.ctx.case(('remove_peaks', 'protocol', axis, how))


def plan(tier, seed):
    if tier == 'quick':
        # 14 planned shards + the 2 environment-variant shards of the runner = one wave on 16 cores
        # the shard that carries the heavy spectrum gets a smaller share of the ordinary cases
        return [{'spectra': 2 if i == 13 else 5, 'resolution': 1 if i == 13 else 2, 'separation': 2, 'fields': 2,
                 'narrow': 0 if i == 13 else 1,
                 'protocol_rounds': 1, 'of': 14, 'heavy': i == 13} for i in range(14)]
    return [{'spectra': 313, 'resolution': 48, 'separation': 36, 'fields': 24, 'narrow': 20, 'protocol_rounds': 4,
             'of': 16, 'heavy': i == 15} for i in range(16)]


def requirements(tier):
    k = 1 if tier == 'quick' else 20
    k2 = 1 if tier == 'quick' else 4  # field / protocol classes: a fixed list per round
    return {
        'events': {'fit_peaks': 100 * k, 'result_in_order': 150 * k, 'statistics.result': 100 * k,
                   'statistics.perform_fit': 200 * k, 'success_requirements': 40 * k,
                   'model_order': 150 * k, 'isolation': 150 * k, 'auto_window': 150 * k,
                   'auto_window_separation': 60 * k, 'too_narrow_rule': 10 * k,
                   'remove_peaks': 100 * k, 'remove.inside': 1000 * k, 'remove.outside': 1000 * k,
                   '_assess_fit': 150 * k,
                   # decided cases of 'successful => not worse than the background alone' (AIC
                   # of the same background model, refitted independently), for the first and
                   # for later pairs of a model list, and results for estimates without a peak
                   'success_vs_background_aic': 40 * k,
                   'success_vs_background_aic.first_pair': 20 * k,
                   'success_vs_background_aic.later_pair': 5 * k,
                   'peak_free_window': 40 * k,
                   # removal with the results given in every iterable form
                   'remove_peaks.sequence': 10 * k, 'remove_peaks.re_iterable': 20 * k,
                   'remove_peaks.one_shot_iterator': 40 * k,
                   'remove.inside.one_shot_iterator': 500 * k,
                   # single-window re-runs with the window in every layout of a 2d variable
                   **{'isolation.windows_' + lay: 20 * k for lay in ISOLATION_LAYOUTS},
                   # 'FWHM >= factor x spacing around the peak centre' decided, both ways, and
                   # decided on windows where any other spacing of the window (mean, smallest,
                   # largest, median, first, last) gives the opposite verdict
                   'min_width_rule': 60 * k, 'min_width_rule.success': 30 * k,
                   'min_width_rule.peak_too_narrow': 10 * k,
                   'min_width.verdict_depends_on_local_spacing': 20 * k,
                   'min_width.verdict_depends_on_local_spacing.success': 8 * k,
                   'min_width.verdict_depends_on_local_spacing.peak_too_narrow': 8 * k,
                   'failure_reason': 30 * k,
                   # automatic windows judged on the windows the results carry, too
                   'auto_window.results': 150 * k, 'auto_window_separation.results': 60 * k,
                   # separation cases: every factor class decided, and decided where the requested
                   # width reaches the limit (the window had to be adjusted to keep the distance)
                   'separation_case': 60 * k,
                   'auto_window_separation.width_reaches_limit': 100 * k,
                   **{f'auto_window_separation.factor_{fc}': 8 * k for fc in SEP_FACTORS},
                   **{f'auto_window_separation.factor_{fc}.results': 8 * k for fc in SEP_FACTORS},
                   'field_case': 24 * k2, 'narrow_fraction_case': 30 * k2, 'narrow_window_with_fraction': 50 * k2,
                   # the same input in another form gave a result that was compared
                   'same_result_in_other_form': 30 * k2, 'same_removal_in_other_form': 15 * k2,
                   **{'other_form.' + ax: 1 for ax in sorted({a for a, _ in PROTOCOL_CLASSES})},
                   'masked_points_inside_window': 1},
        'forced': ['window with fewer points than parameters', 'estimate outside the data',
                   'estimate on the lower edge', 'estimate on the upper edge',
                   'window below the grid spacing', 'window spanning the full range',
                   'explicit windows', 'explicit windows, unsorted estimates',
                   'model list', 'instance with foreign prefix',
                   'overlapping successful windows', 'spectrum with a dip (negative peak)',
                   'estimate without a peak',
                   *('spectrum without any peak, ' + b + ' background' for b in BACKGROUND_CLASSES),
                   'several background models of the same class',
                   'model given bare', 'model name', 'model instance',
                   'model specification given as sequence',
                   'model specification given as re_iterable',
                   'model specification given as one_shot_iterator',
                   'fit results given as sequence', 'fit results given as re_iterable',
                   'fit results given as one_shot_iterator',
                   'one-shot iterator of fit results with a successful fit',
                   *FORCED_LAYOUT_CLASSES,
                   *("explicit windows with 'range' as the outer dimension, " + c
                     for c in ('1 estimate', '2 estimates', '3+ estimates')),
                   'estimates given as a slice of a longer variable',
                   *(f'under-resolved peak in the {pl} part of a {b} window'
                     for b in RES_BLOCKS for pl in PLACEMENTS),
                   *('spectrum on a ' + g + ' grid' for g in NON_UNIFORM_GRIDS),
                   *FORCED_SEPARATION_CLASSES,
                   *(f'separation case with {m} estimates' for m in range(2, 7)),
                   *FORCED_FIELD_CLASSES, *FORCED_NARROW_CLASSES, *FORCED_NARROW_REGION_CLASSES,
                   *FORCED_PROTOCOL_CLASSES,
                   'spectrum of more than 2**20 points'],
        'counters': {'success_after_failed_attempts': 1, 'all_pairs_failed': 1,
                     'assessment:success': 30 * k,
                     'peak_free_window:background_is_better': 5 * k,
                     'min_width.opposite_verdict_with_mean_spacing_of_window': 10 * k,
                     'min_width.opposite_verdict_with_min_spacing_of_window': 3 * k,
                     'min_width.opposite_verdict_with_max_spacing_of_window': 3 * k,
                     **{f'success_vs_background_aic:{kd}+degree{d}': 1
                        for kd in PEAK_KINDS for d in (1, 2)}},
    }


def run(shard, ctx):
    import warnings

    from scippneutron import peaks as P
    from scippneutron.peaks import _fit_peaks as FP
    from scippneutron.peaks import _remove_peaks as RP
    from scippneutron.peaks import model as M

    warnings.simplefilter('ignore')
    mon = Monitors(ctx, FP)
    tr = Tracer()
    tr.watch(FP.fit_peaks, 'fit_peaks', on_start=mon.safe(mon.fit_peaks_start, 'fit_peaks start'),
             on_return=mon.safe(mon.fit_peaks_return, 'fit_peaks return'))
    tr.watch(FP._fit_peak, '_fit_peak', on_start=mon.safe(mon.fit_peak_start, '_fit_peak start'),
             on_return=mon.safe(mon.fit_peak_return, '_fit_peak return'))
    tr.watch(FP._fit_peak_single_model, '_fit_peak_single_model',
             on_start=mon.safe(mon.single_start, 'single start'),
             on_return=mon.safe(mon.single_return, 'single return'))
    tr.watch(FP._fit_windows, '_fit_windows',
             on_return=mon.safe(mon.fit_windows_return, '_fit_windows return'))
    tr.watch(FP._perform_fit, '_perform_fit',
             on_return=mon.safe(mon.perform_return, '_perform_fit return'))
    tr.watch(FP._assess_fit, '_assess_fit',
             on_return=mon.safe(mon.assess_return, '_assess_fit return'))
    rs, rr = make_remove_monitor(ctx, mon.tag, mon.sources)
    safe_rs = mon.safe(rs, 'remove start')
    tr.watch(RP.remove_peaks, 'remove_peaks', on_start=safe_rs,
             on_return=mon.safe(rr, 'remove return'))

    per = shard['spectra']
    nres = shard.get('resolution', 0)
    with tr:
        for j in range(per + nres):
            gi = shard['index'] * per + j
            rng = np.random.Generator(np.random.PCG64([shard['seed'], shard['index'], j]))
            mon.sources.clear()
            if j < per:
                data, kw, tag, sig, s = build_case(rng, gi, shard['tier'], M, P, mon.sources)
            else:
                ri = shard['index'] * nres + (j - per)
                data, kw, tag, sig, s = build_resolution_case(rng, ri, shard['tier'], M, P,
                                                              mon.sources)
            mon.tag.clear()
            mon.tag.update(tag)
            _forced(ctx, tag, kw, data, mon.sources)
            before = ctx.n_violations
            res = None
            try:
                res = P.fit_peaks(data, **kw)
            except Exception:  # noqa: BLE001  (judged by the monitor through PY_UNWIND)
                pass
            ctx.case(sig)
            if j < 1 or ctx.n_violations > before:
                ctx.sample({'signature': sig, **tag, 'n_points': s['n'],
                            'estimates': kw['peak_estimates'].values.tolist(),
                            'windows': describe(kw['windows']),
                            'assessments': [r.assessment.name for r in res] if res else None})
            if res is None:
                continue
            plain = sc.DataArray(sc.values(data.data), coords=dict(data.coords))
            if rng.random() < 0.3:
                # documented: '1d data with a dimension-coordinate'; more coordinates and masks
                # are carried along
                plain.coords['aux'] = sc.arange(data.dim, float(len(data)), unit='s')
                plain.masks['m'] = plain.coords[data.dim] < plain.coords[data.dim][len(data) // 3]
            for vi, variant in enumerate(('as_fitted', 'overlapping')):
                if j >= per and vi:
                    break
                fits = list(res)
                if variant == 'overlapping':
                    ok = [r for r in res if r.assessment.name == 'success']
                    if not ok:
                        break
                    # widen every successful window so that neighbours overlap; add a copy of one
                    fits = []
                    for r in res:
                        if r.assessment.name == 'success':
                            w = r.window.values
                            ext = (w[1] - w[0]) * rng.uniform(0.2, 1.5)
                            r = dataclasses.replace(r, window=sc.array(
                                dims=['range'], values=[w[0] - ext, w[1] + ext], unit=r.window.unit))
                        fits.append(r)
                    fits.append(dataclasses.replace(ok[0]))
                    rng.shuffle(fits)
                # fit_results is an Iterable: every form, one-shot iterators included
                arg, form = in_form(FORMS[(2 * gi + vi) % len(FORMS)], fits, mon.sources)
                n_ok = sum(r.assessment.name == 'success' for r in fits)
                ctx.hit('fit results given as ' + _iterable_class(arg))
                if n_ok and _iterable_class(arg) == 'one_shot_iterator':
                    ctx.hit('one-shot iterator of fit results with a successful fit')
                try:
                    P.remove_peaks(plain, arg)
                except Exception:  # noqa: BLE001  (judged by the monitor)
                    pass
                ctx.case(('remove_peaks', variant, tag['window_class'], len(fits), n_ok, form))
            if j == 0:
                try:
                    # data with variances: documented refusal
                    P.remove_peaks(data, in_form('iter', res, mon.sources)[0])
                except Exception:  # noqa: BLE001
                    pass

        seed, index, tier = shard['seed'], shard['index'], shard['tier']

        def drive(data, kw, tag, sig, remove=False, sample=False):
            """One fit_peaks call of the classes below (and, on request, the removal of its results)."""
            mon.tag.clear()
            mon.tag.update(tag)
            _forced(ctx, tag, kw, data, mon.sources)
            if tag.get('forced_class'):
                ctx.hit(tag['forced_class'])
            before = ctx.n_violations
            res = None
            try:
                res = P.fit_peaks(data, **kw)
            except Exception:  # noqa: BLE001  (judged by the monitor through PY_UNWIND)
                pass
            ctx.case(sig)
            if sample or ctx.n_violations > before:
                ctx.sample({'signature': sig, **tag, 'n_points': len(data),
                            'estimates': kw['peak_estimates'].values.tolist(),
                            'windows': describe(kw['windows']),
                            'assessments': [r.assessment.name for r in res] if res else None})
            if res is not None and remove:
                plain = sc.DataArray(sc.values(data.data), coords=dict(data.coords))
                try:
                    P.remove_peaks(plain, tuple(res))
                except Exception:  # noqa: BLE001  (judged by the monitor)
                    pass
                ctx.case(('remove_peaks', 'as_fitted', tag['window_class'], len(res)))
            return res

        # neighbor_separation_factor over [0, 1] x width bands against uneven gaps x 2..6 estimates
        nsep = shard.get('separation', 0)
        for j in range(nsep):
            si = index * nsep + j
            rng = np.random.Generator(np.random.PCG64([seed, index, 100000 + j]))
            mon.sources.clear()
            for bi, (data, kw, tag, sig) in enumerate(build_separation_case(rng, si, tier, M, P, mon.sources)):
                drive(data, kw, tag, sig, remove=bi == 1, sample=(j == 0 and bi == 0))
                ctx.event('separation_case')
                ctx.hit(f'separation case with {len(kw["peak_estimates"])} estimates')
        # every other field of FitRequirements / FitParameters over its range
        nfld = shard.get('fields', 0)
        for j in range(nfld):
            fi = index * nfld + j
            rng = np.random.Generator(np.random.PCG64([seed, index, 200000 + j]))
            mon.sources.clear()
            data, kw, tag, sig = build_field_case(rng, fi, tier, M, P, mon.sources)
            drive(data, kw, tag, sig, remove=True, sample=j == 0)
            ctx.event('field_case')
        # narrow windows x non-default guess_background_fraction
        nnar = shard.get('narrow', 0)
        for j in range(nnar):
            ni = index * nnar + j
            rng = np.random.Generator(np.random.PCG64([seed, index, 250000 + j]))
            mon.sources.clear()
            for bi, (data, kw, tag, sig) in enumerate(build_narrow_fraction_case(rng, ni, tier, M, P, mon.sources)):
                drive(data, kw, tag, sig, remove=bi == 0, sample=(j == 0 and bi == 0))
                ctx.event('narrow_fraction_case')
        # the same input in every other documented form
        nsh = max(int(shard.get('of', 1)), 1)
        for rnd in range(shard.get('protocol_rounds', 0)):
            rng = np.random.Generator(np.random.PCG64([seed, index, 300000 + rnd]))
            mon.sources.clear()
            pr = Protocol(ctx, mon, P, M, FP, rng, tier)
            if not pr.reference():
                continue
            for k in range(len(PROTOCOL_CLASSES)):
                if (k + rnd) % nsh == index % nsh:
                    pr.run(k)
        # sizes: one spectrum beyond 2**20 points (fits on window slices, removal on the whole)
        if shard.get('heavy'):
            n_heavy = HEAVY_SIZES[seed % len(HEAVY_SIZES)]
            rng = np.random.Generator(np.random.PCG64([seed, index, 400000]))
            mon.sources.clear()
            pr = Protocol(ctx, mon, P, M, FP, rng, tier, heavy_n=n_heavy)
            if pr.reference():
                ctx.hit('spectrum of more than 2**20 points')
                ctx.count(f'heavy_spectrum:{n_heavy}_points')
                for name in ('masked points outside every window',):
                    pr._masks('masks', name, ('fit_peaks', 'protocol', 'heavy', name))
                pr._second_use('second use', 'the same results removed twice and removal of the removal',
                               ('remove_peaks', 'protocol', 'heavy'))


def _forced(ctx, tag, kw, data, sources):
    x = data.coords[data.dim].values
    est = kw['peak_estimates'].values
    w = kw['windows']
    if np.any((est < x[0]) | (est > x[-1])):
        ctx.hit('estimate outside the data')
    if np.any(est == x[0]):
        ctx.hit('estimate on the lower edge')
    if np.any(est == x[-1]):
        ctx.hit('estimate on the upper edge')
    if w.ndim == 0:
        if w.value < np.min(np.diff(x)):
            ctx.hit('window below the grid spacing')
        if w.value >= x[-1] - x[0]:
            ctx.hit('window spanning the full range')
    else:
        ctx.hit('explicit windows')
        if np.any(np.diff(est) < 0):
            ctx.hit('explicit windows, unsorted estimates')
        ctx.hit(f'explicit windows laid out {tag["windows_layout"]}, {_count_class(len(est))}')
        if w.dims[0] == 'range':
            ctx.hit("explicit windows with 'range' as the outer dimension, " + _count_class(len(est)))
    if tag.get('estimates_given_as'):
        ctx.hit('estimates given as a slice of a longer variable')
    for pl in tag.get('under_resolved', ()):
        ctx.hit(f'under-resolved peak in the {pl["placement"]} part of a {pl["window_grid"]} window')
    if tag['grid'] in NON_UNIFORM_GRIDS:
        ctx.hit('spectrum on a ' + tag['grid'] + ' grid')
    if tag.get('dips'):
        ctx.hit('spectrum with a dip (negative peak)')
    if any(tag['peak_free']):
        ctx.hit('estimate without a peak')
    if tag['content'] == 'no_peak_at_all':
        ctx.hit('spectrum without any peak, ' + tag['background_class'] + ' background')
    if len(tag['peak_models']) > 1 or len(tag['background_degrees']) > 1:
        ctx.hit('model list')
    if len(tag['background_degrees']) > 1:
        ctx.hit('several background models of the same class')
    for which, s in (('peak', kw['peak']), ('background', kw['background'])):
        if _is_single_model(s):
            ctx.hit('model given bare')
            els = [s]
        else:
            ctx.hit('model specification given as ' + _iterable_class(s))
            els = sources.elements(s)
        for e in els:
            if isinstance(e, str):
                ctx.hit('model name')
            else:
                ctx.hit('model instance')
                if e.prefix not in ('peak_', 'bkg_'):
                    ctx.hit('instance with foreign prefix')


# ------------------------------------------------------- known findings ---
def _keys(v):
    return v.get('keys') or {}


FINDING_PREDICATES = {
    # parameter guesses are computed before the point-count guard: a window with at most three
    # (or no) points makes the guess code raise ValueError instead of 'window too narrow'
    'fit_peaks.guess_before_point_count_guard': lambda v: (
        v['kind'] == 'fit_peaks_raised' and _keys(v).get('exc') == 'ValueError'
        and _keys(v).get('raised_in') in ('_guess_from_peak', '_guess')
        and _keys(v).get('points_lt_params') is True),
    # neighbour separation is applied after clipping to the data range: with an estimate
    # outside the data an edge is pushed out of the range again; above the range the window
    # becomes inverted and slicing raises IndexError
    'fit_peaks.auto_window_pushed_out_of_range_by_separation': lambda v: (
        (v['kind'] == 'auto_window_outside_range' and _keys(v).get('pushed_by_separation') is True
         and (_keys(v).get('estimate_outside') is True or _keys(v).get('neighbour_outside') is True))
        or (v['kind'] == 'fit_peaks_raised' and _keys(v).get('exc') == 'IndexError'
            and _keys(v).get('raised_in') == 'fit_peaks' and _keys(v).get('windows') == 'auto'
            and _keys(v).get('inverted_window') is True)),
    # a window with exactly as many points as parameters has no degree of freedom: the p-value
    # is NaN, `NaN < min_p_value` is false and the fit can be marked successful
    'fit_peaks.nan_p_value_passes_min_p': lambda v: (
        v['kind'] == 'success_violates_requirement' and _keys(v).get('requirement') == 'min_p_value'
        and _keys(v).get('p_is_nan') is True and _keys(v).get('zero_dof') is True),
}

# strict-caller variant shard of the runner: not run for this property.  scipy's optimiser legitimately emits
# OptimizeWarning ("Covariance of the parameters could not be estimated") and floating-point events for hopeless
# windows and the package lets them through; with warnings turned into errors fit_peaks then raises on the unchanged
# tree.  The property does not quantify over the caller's warning filters; recorded as an observation in DESIGN.md.
STRICT_CALLER = False
