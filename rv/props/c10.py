"""C10 Disk-chopper open/close times are exactly the openings of the rotating disk.

Monitors sit on ``DiskChopper.__post_init__`` and ``DiskChopper.from_nexus`` (acceptance /
rejection of slit sets: begin < end for every slit, no overlap on the disk, a slit wider than a
turn overlaps itself), ``time_offset_open``, ``time_offset_close``, ``open_duration`` and
``Chopper.from_disk_chopper`` (observed through their code objects, so the nested calls
made by ``open_duration`` and by the cascade are seen as well).  Every reported
(open, close) pair is put on an independent rotating disk (``rv.oracle.disk``): the
predicate "is a slit over the beam at time offset dt", evaluated in long double, is
asked inside, just outside and all along the covered time span.  No expected opening time
is ever computed from the package's formulas.
"""

from __future__ import annotations

import numpy as np
import scipp as sc

from rv.oracle import si
from rv.oracle.disk import LD, PI, TWO_PI, Disk, ratio_distance, slit_set_geometry
from rv.snap import fp as _fingerprint
from rv.trace import Tracer

ID = 'C10'
LEVEL = 'exploration'
RULE = (
    'case = one chopper (frequency ratio 1/4..8 of either sign, exact / perturbed inside 1e-10 / '
    'between / beyond 1e-7 relative / clearly non-integer; 1..6 slits from a random partition of '
    'the circle, optionally spanning TDC written as end>360 or as negative begin, shuffled; beam '
    'position and phase in [-4pi,4pi]; deg/rad; Hz/kHz/1/min for chopper and source independently; '
    'constructed directly, through dataclasses.replace or through from_nexus (slit_edges or '
    'slit_begin/slit_end)) or one slit set the documentation forbids.  Forbidden sets are a '
    'deterministic grid in every shard: class (slit across TDC written begin>end, one slit '
    'reversed, begin/end arrays exchanged, a slit wider than one turn with end>360 / negative '
    'begin / more than two turns, two slits overlapping on the line / through 360 deg / through 0 '
    'from either side, nested, identical, identical after a whole turn) x number of slits 1..6 '
    '(pairs 2..6) x deg/rad x construction path (constructor, replace, from_nexus both layouts, '
    '0-d edges), a quarter of them forbidden by 1e-5..1e-3 deg only; next to them valid edge sets '
    '(single slit 200..359 deg in all three notations, single slit just short of a full turn, gaps of '
    '1e-5..1e-3 deg on the line and through TDC).  Every public call on an accepted chopper -- also a '
    'wrongly accepted one -- (constructor, time_offset_open/close, open_duration, '
    'Chopper.from_disk_chopper with 1..4 pulses) is one evaluation; distinct = distinct (call, ratio, '
    'sense, band, slit count, TDC representation, units, construction route, forbidden class) '
    'signatures; no case is trivial.  The way the caller writes a chopper down is part of the case: '
    'the NAME of the slit dimension (deterministic grid: 20 names -- the literal dimension names of the '
    'chopper / cascade sources, names an implementation may use for auxiliary dimensions, scipp defaults, '
    'uuid-shaped, non-ASCII, empty -- x 1..6 slits x both senses x ratio below / equal / above 1, spread '
    'over the shards; also for the angles of time_offset_angle_at_beam, 1-d and 2-d), the calling '
    'convention (constructor keyword / positional / mixed; from_disk_chopper positional / keyword / mixed, '
    'npulses and n_repetitions as numpy integers; from_nexus positional / keyword with a dict, a '
    'DataGroup, a MappingProxyType or a plain Mapping, NXdisk_chopper.type absent / enum / str / np.str_), '
    'subclasses of DiskChopper (overriding time_offset_angle_at_beam; one more dataclass field).  CALL '
    'SEQUENCES on one object (deterministic grid: where the begin angles lie -- below 0 / beyond one turn '
    '/ end beyond one turn / within one turn / both sides -- x float64 / int64 / float32 edges x deg / rad): '
    'computation, then each of 21 operations a user or a notebook performs between computations '
    '(make_svg in every calling convention, _repr_svg_, _repr_html_, repr, str, copy, deepcopy, '
    'dataclasses.replace, ==, pickle, asdict, astuple, property reads, the bound methods as nodes of a '
    'transform_coords graph, a refused call that was caught, the same calls again), after each one the '
    'chopper is compared with what it was constructed with and the computation is repeated.  Operands '
    'with variances (one carrier at a time) and one call with 2**20 + 7 and one with 3 x 400001 angles per run.  '
    'STRUCTURED SLIT SETS (deterministic grid: rotational symmetry of order 2..6, a motif repeated 2 or 3 times, '
    'slits as wide as the gaps, equal widths only, equal spacing only, single slit x listed ascending / descending / '
    'rotated / shuffled x deg / rad x within one turn / end > 360 / negative begin / a slit written on another turn, '
    'exactly structured or off by 1e-12 / 1e-9 / 1e-6) x EVERY RATIO p/q with q = 2..6, p = 2..12 in lowest terms '
    '(29 ratios) x both senses x every entry point (from_disk_chopper with q and other numbers of pulses), the ratio '
    'carried by the pulse frequency handed to one chopper object, by dataclasses.replace(frequency=) or by a fresh '
    'construction, in float64 or as whole-number frequencies: refused by the ratio alone; each set also once in '
    'phase.  IN-PLACE MODIFICATION of an operand between two calls with the very same objects (15 kinds: pulse '
    'frequency / chopper frequency value, sign, unit; phase; beam position; one slit edge, a slice, all edges to the '
    'other angle unit; out of phase and back): judged against the new contents and compared bit for bit with a chopper '
    'freshly constructed from copies; results obtained earlier keep their bits; writing into results changes neither '
    'chopper nor arguments nor a repetition.  Numbers of slits / angles equal to the number of rotations used inside, '
    'one below, one above, and 2 / 3; slit dimension names that are not in NFC / NFKC form (results along the very '
    'same name); the first call in a fresh interpreter that imported only the module of the entry point (same bits).  '
    'FREQUENCIES INSIDE THE ACCEPTANCE BAND (deterministic grid: ratios 1..8 and 1/2, 1/3, 1/4 x both senses x below / '
    'above x offsets 1e-12 .. 1e-8 relative and 3e-9 .. 1e-8 absolute on the ratio resp. its reciprocal): whether they '
    'are accepted is not decided between 1e-10 and 1e-7, but what an accepted one reports is judged on the disk turning '
    'at that very frequency, and every slit must appear exactly once per rotation of the documented span (the rotation '
    'finishing when the pulse begins + the rotations of one pulse period: nearest integer ratio, at least one).  EVERY '
    'LAYOUT DiskChopper accepts for the slit fields (0-d scalars, length 1, length n) x construction route (constructor, '
    'replace, from_nexus, subclass) x both senses x ratio below / equal / above 1, through every entry point incl. '
    'from_disk_chopper with 1..4 pulses'
)
ASSUMPTIONS = [
    'numpy long double (x87 80 bit) evaluates the disk angle alpha(dt) = beam_position + phase - '
    'omega dt with error << the 64-eps float64 bound used for the reported times',
    'the documented sign conventions (angles anticlockwise from TDC, positive frequency = '
    'anticlockwise, phase = omega (t0 + delay - T0)) define the physical disk',
    'slit sets are given the way the documentation describes: angles from TDC within one turn, a '
    'slit spanning TDC written with end > 360 deg or with a negative begin',
    'what the documentation forbids: "For a given slit, we require begin < end" (so a slit across '
    'TDC written 350 -> 10 deg is refused), and slits that overlap on the disk, including through '
    'TDC, which includes a slit wider than one turn overlapping itself; refusal is ValueError on '
    'every construction path; sets exactly on a threshold (zero width, exactly one turn, touching '
    'slits; |margin| <= 1e-9 rad) are not judged, their outcome is tallied in the counters',
    'the disk the property speaks about is the one the chopper was constructed as: the monitors judge every '
    'result against deep copies of the fields taken when the construction returned, so a call that rewrites '
    'the caller\'s object cannot move the oracle along with it; "the same chopper gives the same openings" '
    'is judged bit for bit (same object, same arguments, no state in between)',
    'a slit written whole turns away from the others (begin > 360 deg next to slits within the first turn) '
    'is outside the documented notation: each reported opening is judged, completeness over the covered '
    'span is not (counter completeness_not_judged)',
    'display, text and serialisation of a chopper may be refused (integer edges cannot be drawn, scipp '
    'variables cannot be pickled) and scipp may refuse operands with variances (VariancesError): tallied; '
    'the value returned by ==, repr, make_svg is not part of this property',
]
TECHNIQUE = ('runtime monitors (sys.monitoring) on DiskChopper.__post_init__, from_nexus, time_offset_open/close, '
             'open_duration and Chopper.from_disk_chopper; independent rotating-disk simulator '
             '(is-a-slit-over-the-beam predicate in long double), rising-edge scan for completeness')
LEVEL_TEXT = ('exploration: every open/close pair observed in hostile generated workloads is checked '
              'against the state of an independently simulated disk (open inside, closed just outside to '
              'within the float64 rounding bound of the times, duration, one opening per slit and '
              'rotation, no opening of the covered span missing, no two reported openings overlapping '
              'in time, none longer than a rotation); acceptance of frequency ratios and slit sets '
              '(begin < end, no overlap on the circle incl. self-overlap) is compared with the circle '
              'geometry on every construction path, and what a wrongly accepted chopper reports is '
              'judged again (open < close, duration, overlap in time).  Between two computations the '
              'chopper object is displayed, copied, compared, used in a coordinate graph: its fields stay '
              'bit-identical to what it was constructed with, copies carry the same fields, every '
              'repetition returns the same bits and is judged against the disk as constructed.  '
              'Sampling, not a proof.')
LEVEL_NOTE = ('trusted: numpy long double, the independent SI table (cross-checked against sc.to_unit at '
              'start-up), scipp containers, the disk model derived from the module documentation')
DESIGN_REF = 'DESIGN.md section 4, C10'
TIMEOUT_S = {'quick': 900, 'thorough': 4 * 3600}

EPS = si.EPS64
K_TOL = 64            # forward error bound factor (DEVGUIDE: condition x 64 eps)
ACCEPT_REL = 1e-10    # ratio this close to n or 1/n must be accepted
REJECT_REL = 1e-7     # ratio farther than this must be rejected
GAP_BAND = 1e-9       # rad: |gap| below this is neither clearly disjoint nor clearly overlapping
RATIOS = [('1/4', 0.25), ('1/3', 1 / 3), ('1/2', 0.5), ('1', 1.0), ('2', 2.0), ('3', 3.0),
          ('4', 4.0), ('5', 5.0), ('8', 8.0)]
FAR_RATIOS = [1.5, 2.5, 3.5, 2 / 3, 0.4, 0.75, 1.25, 0.3, 7.3, 4.5]
F_UNITS = ['Hz', 'kHz', '1/min']
F_UNIT_HZ = {'Hz': 1.0, 'kHz': 1000.0, '1/min': 1 / 60}
OPENING_CHECKS = ('open_not_before_close', 'closed_inside_interval', 'open_outside_interval',
                  'duration', 'slit_multiplicity', 'duplicate_opening', 'missing_opening',
                  'non_finite', 'shape', 'span_shorter_than_requested', 'overlapping_openings',
                  'longer_than_rotation', 'rotation_count')

NEXUS_TYPE_SINGLE = 'Chopper type single'   # NXdisk_chopper.type of a single disk (NeXus base class)
LARGE_ANGLES = 2 ** 20
# Names for the dimension of the slit arrays (the property holds for every name scipp allows): the
# literal dimension names in the chopper / cascade sources ('slit', 'edge', 'bound', 'subframe',
# 'vertex', 'time'), names an implementation may pick for its auxiliary dimensions, scipp's default
# names, a uuid-shaped name, a name with a non-ASCII letter and blanks, the empty name.
DIM_NAMES = ('slit', 'edge', 'rotation', 'repetition', 'turn', 'bound', 'subframe', 'vertex', 'cutout',
             'pulse', 'time', 'angle', 'x', 'dim_0', 'event', 'row', 'range',
             '0b3c5a52-8f43-4c0e-9a4e-6d1f0c2b7e11', 'Spalt öffnung', '')
RATIO_CLASSES = {'sub': [('1/4', 0.25), ('1/3', 1 / 3), ('1/2', 0.5)], 'one': [('1', 1.0)],
                 'ge': [('2', 2.0), ('3', 3.0), ('4', 4.0), ('5', 5.0), ('8', 8.0)]}
CTOR_FORMS = ('keyword', 'positional', 'mixed')
CASCADE_FORMS = ('positional', 'keyword', 'mixed', 'np.int64', 'np.int32')
NEXUS_MAPPINGS = ('dict', 'DataGroup', 'MappingProxyType', 'custom Mapping')
NEXUS_TYPES = ('absent', 'DiskChopperType.single', 'str', 'np.str_')
SUBCLASS_ROUTES = ('subclass_override', 'subclass_field')
# slit sets for the call-sequence class: where the begin angles lie relative to [0, one turn)
SEQ_REPS = ('negative_begin', 'begin_gt_turn', 'end_gt_turn', 'within_turn', 'both_sides')
SEQ_DTYPES = ('float64', 'int64', 'float32')
VARIANCE_CARRIERS = ('phase', 'beam_position', 'frequency', 'slit_edges', 'pulse_frequency', 'angle')


# ------------------------------------------------------------ observation ---
def _rad(v):
    return si.si(v)  # long double rad (table: deg = pi/180)


def _bits(v):
    """Bit pattern of an observed float64 variable (long double bytes carry padding)."""
    return (str(v.unit), np.ascontiguousarray(v.values).tobytes())


def _scalar(v):
    """0-d scipp variable -> long double in SI."""
    return LD(si.si(v)[()])


def _describe_var(v):
    try:
        return {'dims': list(v.dims), 'shape': list(v.shape), 'unit': str(v.unit), 'values': np.asarray(v.values).ravel()[:8].tolist()}
    except Exception:  # noqa: BLE001
        return repr(v)


def _is_time(unit):
    try:
        sc.scalar(1.0, unit=unit).to(unit='s')
        return True
    except Exception:  # noqa: BLE001
        return False


FIELD_NAMES = ('axle_position', 'frequency', 'beam_position', 'phase', 'slit_begin', 'slit_end',
               'slit_height', 'radius')


class Frozen:
    """The fields of a DiskChopper as they were when its construction returned: deep copies for the
    oracle (the disk the chopper was built from) and bit-exact fingerprints (dims, shape, unit,
    dtype, raw bytes) to tell whether a later call rewrote the caller's object."""

    def __init__(self, ch):
        self.ref = ch
        self.bits = {}
        for n in FIELD_NAMES:
            v = getattr(ch, n, None)
            self.bits[n] = _fingerprint(v)
            setattr(self, n, v.copy() if isinstance(v, sc.Variable) else v)

    def adopted_by(self, other):
        new = object.__new__(Frozen)
        new.__dict__.update(self.__dict__)
        new.bits = dict(self.bits)
        new.ref = other
        return new


def _has_variances(*operands):
    for v in operands:
        if isinstance(v, sc.Variable):
            if v.variances is not None:
                return True
        elif v is not None and not isinstance(v, (int, float, str)):
            for n in FIELD_NAMES:
                f = getattr(v, n, None)
                if isinstance(f, sc.Variable) and f.variances is not None:
                    return True
    return False


def slit_layout(ch):
    """How the slit fields of the observed chopper are laid out (every layout DiskChopper accepts)."""
    try:
        b = ch.slit_begin
        return '0-d' if b.ndim == 0 else ('length-1' if b.shape[-1] == 1 else 'length-n')
    except Exception:  # noqa: BLE001
        return 'other'


def band_class(ri):
    """Where an accepted frequency lies inside the tolerance band: multiple / divisor, below / above the
    integer, and the distance of the ratio (of its reciprocal for a divisor) from that integer."""
    r = LD(ri['ratio'])
    x = r if ri['kind'] == 'multiple' else 1 / r
    d = float(x - ri['n'])
    a = abs(d)
    dec = ('< 1e-10' if a < 1e-10 else '1e-10 .. 1e-9' if a < 1e-9 else '1e-9 .. 5e-9' if a < 5e-9 else
           '5e-9 .. 1e-8' if a < 1e-8 else '>= 1e-8')
    return f'{ri["kind"]}, ' + ('below' if d < 0 else 'above') + f' the integer by {dec}'


def disk_of(ch):
    """Rotating disk from the fields of the observed DiskChopper (inputs only)."""
    f_hz = _scalar(ch.frequency)
    theta0 = _scalar(ch.beam_position) + _scalar(ch.phase)
    return Disk(TWO_PI * f_hz, theta0, _rad(ch.slit_begin), _rad(ch.slit_end)), f_hz


def angle_magnitude(ch, disk, rotations):
    """Sum of the magnitudes that enter one reported time, in rad (for the rounding bound)."""
    m = abs(_scalar(ch.beam_position)) + abs(_scalar(ch.phase))
    m += max(LD(np.max(np.abs(disk.begin))), LD(np.max(np.abs(disk.end))))
    return m + TWO_PI * (rotations + 2)


def within_one_turn(disk):
    """The slit angles are given within one turn of each other (the documented way of writing a slit
    set: angles from TDC, a slit across TDC with end > 360 deg or a negative begin).  For a slit written
    whole turns away from the others the reported rotations -1 .. n-1 of that slit are other rotations
    of the disk than those of the other slits: every reported opening is still judged, but 'the covered
    span' is then not one contiguous run of rotations and completeness over it is not judged."""
    return bool(np.max(disk.begin) - np.min(disk.begin) < TWO_PI)


def check_openings(disk, to, tc, tol_t, min_span=None, geometry_valid=True, per_slit=None):
    """Put reported intervals on the disk.  Returns (problems: dict check -> info, stats).

    The first checks hold for the openings of *any* uniformly rotating disk and need no valid
    slit set: open < close, no opening longer than one rotation, no two reported openings
    overlapping in time.  With ``geometry_valid=False`` (the observed chopper carries a slit set
    the documentation forbids, i.e. it should never have been constructed) only those and
    "duration = some slit's width / |omega|" are judged: the is-open predicate, the feature-sized
    probes and the rising-edge scan are not defined for such a disk.
    """
    prob = {}
    stats = {}
    n = to.size
    if n == 0 or to.shape != tc.shape or to.ndim != 1:
        prob['shape'] = {'open': list(to.shape), 'close': list(tc.shape)}
        return prob, stats
    fin = np.isfinite(to.astype(np.float64)) & np.isfinite(tc.astype(np.float64))
    if not np.all(fin):
        prob['non_finite'] = {'n': int(np.count_nonzero(~fin))}
        return prob, stats
    absw = abs(disk.omega)
    period = TWO_PI / absw
    ordered = to < tc
    if not np.all(ordered):
        i = int(np.argmin(ordered))
        prob['open_not_before_close'] = {'n': int(np.count_nonzero(~ordered)), 'index': i,
                                         'open': float(to[i]), 'close': float(tc[i])}
    # no two reported openings overlap in time (distinct openings of a disk are separated by a
    # closed gap; tol_t bounds the rounding of each reported time)
    lo, hi = np.minimum(to, tc), np.maximum(to, tc)
    by_lo = np.argsort(lo, kind='stable')
    if n > 1:
        run_hi = np.maximum.accumulate(hi[by_lo])[:-1]
        amount = run_hi - lo[by_lo][1:]
        over = amount > 2 * tol_t
        if np.any(over):
            j = int(np.argmax(amount))
            first = int(by_lo[int(np.argmax(hi[by_lo][:j + 1]))])
            second = int(by_lo[j + 1])
            prob['overlapping_openings'] = {
                'n': int(np.count_nonzero(over)), 'indices': [first, second],
                'intervals': [[float(to[first]), float(tc[first])],
                              [float(to[second]), float(tc[second])]],
                'overlap_s': float(amount[j]), 'rotation_period_s': float(period)}
    # an opening of a disk whose slits do not overlap (themselves) is shorter than one rotation
    long = (hi - lo) > period + 2 * tol_t
    if np.any(long):
        i = int(np.argmax(hi - lo))
        prob['longer_than_rotation'] = {'n': int(np.count_nonzero(long)), 'index': i,
                                        'open': float(to[i]), 'close': float(tc[i]),
                                        'rotation_period_s': float(period)}
    if not geometry_valid:
        # duration = width / |omega| for some slit of this disk (signed: a slit given with
        # begin > end has no positive duration to report)
        want = disk.width / absw
        d = np.abs((tc - to)[:, None] - want[None, :])
        k = np.argmin(d, axis=1)
        err = d[np.arange(n), k]
        stats['duration_err/tol'] = float(np.max(err) / tol_t)
        if np.any(err > 2 * tol_t):
            i = int(np.argmax(err))
            prob['duration'] = {'index': i, 'got': float(tc[i] - to[i]),
                                'expected': float(want[k[i]]),
                                'n': int(np.count_nonzero(err > 2 * tol_t))}
        stats['grid_points'] = 0
        return prob, stats
    feat = disk.min_feature()
    d_c = feat / 1000 / absw
    d_t = tol_t
    fr = (np.arange(1, 10).astype(LD) / 10)[None, :]
    pts = to[:, None] + (tc - to)[:, None] * fr
    mid = to + (tc - to) / 2
    k_mid = disk.slit_at(mid)
    s_pts = disk.slit_at(pts)
    inside_ok = np.all(s_pts == k_mid[:, None], axis=1) & (k_mid >= 0)
    tight_in = (disk.slit_at(to + d_t) == k_mid) & (disk.slit_at(tc - d_t) == k_mid)
    coarse_out = ~disk.is_open(to - d_c) & ~disk.is_open(tc + d_c)
    tight_out = ~disk.is_open(to - d_t) & ~disk.is_open(tc + d_t)
    bad_in = ordered & ~(inside_ok & tight_in)
    bad_out = ordered & ~(coarse_out & tight_out)
    if np.any(bad_in):
        i = int(np.argmax(bad_in))
        prob['closed_inside_interval'] = {
            'n': int(np.count_nonzero(bad_in)), 'index': i, 'open': float(to[i]),
            'close': float(tc[i]), 'rounding_level_only': bool(np.all(inside_ok[bad_in]))}
    if np.any(bad_out):
        i = int(np.argmax(bad_out))
        prob['open_outside_interval'] = {
            'n': int(np.count_nonzero(bad_out)), 'index': i, 'open': float(to[i]),
            'close': float(tc[i]), 'rounding_level_only': bool(np.all(coarse_out[bad_out]))}
    valid = ordered & ~bad_in & ~bad_out
    # duration = slit width / |omega| for the slit found under the beam at the midpoint
    jud = ordered & (k_mid >= 0)
    if np.any(jud):
        want = disk.width[k_mid[jud]] / absw
        err = np.abs((tc - to)[jud] - want)
        stats['duration_err/tol'] = float(np.max(err) / tol_t)
        if np.any(err > 2 * tol_t):  # two reported times, each within tol_t
            i = int(np.flatnonzero(jud)[int(np.argmax(err))])
            prob['duration'] = {'index': i, 'got': float(tc[i] - to[i]),
                                'expected': float(disk.width[k_mid[i]] / absw),
                                'n': int(np.count_nonzero(err > 2 * tol_t))}
    if np.any(valid):
        ed = disk.edge_distance(np.concatenate([to[valid], tc[valid]]),
                                np.concatenate([k_mid[valid], k_mid[valid]])) / absw
        stats['edge_err/tol'] = float(np.max(ed) / tol_t)
    # every slit equally often
    counts = np.bincount(k_mid[k_mid >= 0], minlength=disk.n)
    if counts.size and (np.any(counts != counts[0]) or np.any(k_mid < 0)):
        prob['slit_multiplicity'] = {'per_slit': counts.tolist(),
                                     'closed_at_midpoint': int(np.count_nonzero(k_mid < 0))}
    # the documented span of time_offset_open / time_offset_close: the rotation that is finishing when
    # the pulse begins plus the whole rotations of one pulse period ("rotations -1 .. n-1") -- every
    # slit once per rotation of that span, no rotation more, none less
    if per_slit is not None and counts.size and 'slit_multiplicity' not in prob:
        stats['rotations_judged'] = True
        if int(counts[0]) != int(per_slit):
            prob['rotation_count'] = {'per_slit': counts.tolist(), 'expected_per_slit': int(per_slit),
                                      'reported': int(n)}
    # no opening reported twice: the same slit can only reappear one rotation later
    dup = 0
    distinct_valid = 0
    for k in range(disk.n):
        sel = np.flatnonzero(k_mid == k)
        if sel.size == 0:
            continue
        order = sel[np.argsort(mid[sel], kind='stable')]
        m = mid[order]
        same = np.concatenate([[False], np.diff(m) < period / 2])
        dup += int(np.count_nonzero(same))
        distinct_valid += int(np.count_nonzero(valid[order] & ~same))
        if np.any(same) and 'duplicate_opening' not in prob:
            j = int(np.flatnonzero(same)[0])
            prob['duplicate_opening'] = {'slit': k, 'indices': [int(order[j - 1]), int(order[j])],
                                         'open': [float(to[order[j - 1]]), float(to[order[j]])]}
    if dup:
        prob['duplicate_opening']['n'] = dup
    # completeness over the covered span: rising edges of is_open
    t_lo, t_hi = np.min(to) - d_c, np.max(tc) + d_c
    n_true, n_grid = disk.count_rising_edges(t_lo, t_hi)
    stats['grid_points'] = n_grid
    stats['openings_in_span'] = n_true
    stats['complete_domain'] = within_one_turn(disk)
    if n_true > distinct_valid and stats['complete_domain']:
        prob['missing_opening'] = {'openings_in_span': n_true, 'reported': int(n),
                                   'reported_valid_distinct': distinct_valid,
                                   'span': [float(t_lo), float(t_hi)]}
    stats['oracle_inconsistent'] = bool(n_true < distinct_valid)
    # documented contract of time_offset_open/close ("the array covers an entire pulse length" /
    # "covers more than one pulse in time"): the covered span is at least the requested pulses
    if min_span is not None:
        span = np.max(tc) - np.min(to)
        stats['span/requested'] = float(span / min_span)
        if span < min_span - 2 * tol_t:
            prob['span_shorter_than_requested'] = {'span': float(span), 'requested': float(min_span)}
    return prob, stats


class Monitors:
    """State shared by the call-boundary handlers of one worker."""

    def __init__(self, ctx):
        self.ctx = ctx
        self.pairs = {}      # id(chopper) -> {'fp', 'open', 'close'}
        self.cache = {}      # bytes key -> (ok, k_mid)
        self.cascade_stack = []
        self.case = {}       # description of the generated case currently driven
        self.frozen = {}     # id(chopper) -> Frozen (holds the chopper: its id stays unique)

    def new_case(self, case):
        self.pairs.clear()
        self.cache.clear()
        self.cascade_stack.clear()
        self.frozen.clear()
        self.case = case

    # -- the chopper as it was constructed ---------------------------------------
    def freeze(self, ch):
        self.frozen[id(ch)] = Frozen(ch)

    def view(self, ch):
        """The fields the chopper was constructed with (the disk the property speaks about); the
        object itself when its construction was not observed."""
        fz = self.frozen.get(id(ch))
        return fz if fz is not None and fz.ref is ch else ch

    def rebase(self, ch):
        """The HARNESS rewrote fields of this chopper in place (round 7, class 'in-place modification between
        two calls'): from now on the disk the property speaks about is the one with the new contents, and nothing
        that was observed before says anything about it."""
        self.freeze(ch)
        self.pairs.clear()
        self.cache.clear()

    def adopt(self, copy_, original):
        """A copy of a chopper stands for the same disk as the original."""
        fz = self.frozen.get(id(original))
        if fz is not None and fz.ref is original:
            self.frozen[id(copy_)] = fz.adopted_by(copy_)

    def changed_fields(self, ch, reference=None, ignore=()):
        """Names of the fields of ``ch`` that are no longer bit-identical to the fields ``reference``
        (default: ``ch`` itself) was constructed with; None if the construction was not observed."""
        ref = ch if reference is None else reference
        fz = self.frozen.get(id(ref))
        if fz is None or fz.ref is not ref:
            return None
        return [n for n in FIELD_NAMES
                if n not in ignore and _fingerprint(getattr(ch, n, None)) != fz.bits[n]]

    def refused_for_variances(self, where, exc, *operands):
        """scipp refuses operations that would need correlated variances (VariancesError): such a
        refusal of an operand that carries variances is tallied, not judged."""
        if exc is not None and isinstance(exc, sc.VariancesError) and _has_variances(*operands):
            self.ctx.count(f'refusal:variances:{where}')
            return True
        return False

    # -- acceptance of the frequency ratio --------------------------------
    def ratio_info(self, ch, fp):
        f_hz = _scalar(self.view(ch).frequency)
        fp_hz = _scalar(fp)
        kind, n, rel, r = ratio_distance(f_hz, fp_hz)
        return {'kind': kind, 'n': n, 'rel': rel, 'ratio': r, 'f_hz': f_hz, 'fp_hz': fp_hz}

    def judge_acceptance(self, where, ch, fp, exc):
        """True if the call was decided 'must be accepted' and was accepted."""
        ctx = self.ctx
        try:
            ri = self.ratio_info(ch, fp)
        except Exception:  # noqa: BLE001
            ctx.oracle_error('C10 ratio')
            return None
        if not (0.2 <= ri['ratio'] <= 10):
            ctx.count('out_of_domain:ratio')
            return None
        keys = {'where': where, 'ratio_kind': ri['kind'], 'n': ri['n']}
        case = dict(self.case, where=where, ratio=ri['ratio'], rel_distance=ri['rel'],
                    exception=None if exc is None else f'{type(exc).__name__}: {exc}'[:300])
        if ri['rel'] <= ACCEPT_REL:
            ctx.event('freq.must_accept')
            if self.case.get('class'):
                ctx.event(f'freq.must_accept.{self.case["class"]}')
            if ri['rel'] > 0:
                ctx.hit('in-phase ratio perturbed below 1e-10')
            if isinstance(exc, ValueError) and 'out of phase' in str(exc):
                ctx.violation('freq.rejected_in_phase',
                              f'{where}: ratio {ri["ratio"]!r} (relative distance {ri["rel"]:.2g} from '
                              f'{ri["kind"]} {ri["n"]}) rejected', case, **keys)
                return False
            return True
        if ri['rel'] > REJECT_REL:
            ctx.event('freq.must_reject')
            ctx.hit('out-of-phase ratio')
            if self.case.get('class'):
                ctx.event(f'freq.must_reject.{self.case["class"]}')
                ctx.event(f'freq.must_reject.{self.case["class"]}.{where}')
            if ri['rel'] < 1e-2:
                ctx.hit('ratio perturbed by 1e-7..1e-2')
            if exc is None:
                ctx.violation('freq.accepted_out_of_phase',
                              f'{where}: ratio {ri["ratio"]!r} (relative distance {ri["rel"]:.2g} from '
                              f'{ri["kind"]} {ri["n"]}) accepted', case,
                              decade=int(np.floor(np.log10(ri['rel']))), **keys)
            elif not isinstance(exc, ValueError):
                ctx.violation('freq.wrong_exception',
                              f'{where}: {type(exc).__name__} instead of ValueError', case,
                              exc=type(exc).__name__, **keys)
            return False
        ctx.count('undecided:ratio between 1e-10 and 1e-7')
        ctx.hit('ratio in the undecided band')
        return None

    # -- DiskChopper.__post_init__ / DiskChopper.from_nexus --------------------
    def judge_slit_set(self, where, begin, end, exc, route=None):
        """Acceptance of a slit set, judged from the documentation: begin < end for every slit
        and no overlap on the disk (also through TDC, also of a slit with itself because it is
        wider than a full turn) -- anything else must be refused with ValueError."""
        ctx = self.ctx
        try:
            if begin.unit != end.unit:
                ctx.count('out_of_domain:slit edges')
                return
            b, e = _rad(begin), _rad(end)
            geo = slit_set_geometry(b, e, GAP_BAND)
            if geo['verdict'] == 'out_of_domain':
                ctx.count('out_of_domain:slit edges')
                return
            b, e = b.ravel(), e.ravel()
            facts = {'end_gt_360': bool(np.any(e > TWO_PI)),
                     'negative_begin': bool(np.any(b < 0)),
                     'single_slit': bool(b.size == 1)}
            if geo['reason'] == 'overlap':
                lg = Disk(1, 0, b, e).line_gaps()
                facts['wrap_only'] = bool(lg.size == 0 or np.min(lg) > GAP_BAND)
        except Exception:  # noqa: BLE001
            ctx.oracle_error(f'C10 {where}')
            return
        pre = 'ctor' if where == '__post_init__' else 'from_nexus'
        if route is not None:
            facts['route'] = route
        mg = geo['margin']
        case = dict(self.case, where=where, slit_begin=_values(begin), slit_end=_values(end),
                    unit=str(begin.unit), geometry=geo,
                    exception=None if exc is None else f'{type(exc).__name__}: {exc}'[:200])
        if geo['verdict'] == 'valid':
            ctx.event(f'{pre}.must_accept')
            if facts['single_slit']:
                ctx.hit(f'{pre}: valid single slit')
            if exc is not None:
                kind = f'{pre}.rejected_disjoint' if isinstance(exc, ValueError) else f'{pre}.raised'
                ctx.violation(kind, f'{where}: valid slit set (begin < end, min gap/width {mg:.3g} rad) '
                              f'rejected with {type(exc).__name__}', case, exc=type(exc).__name__,
                              end_gt_360=facts['end_gt_360'], negative_begin=facts['negative_begin'])
        elif geo['verdict'] == 'invalid':
            reason = geo['reason']
            ctx.event(f'{pre}.must_reject')
            ctx.event(f'{pre}.must_reject.{reason}')
            if reason == 'overlap':
                cls = (('overlap only through TDC, end>360' if facts['end_gt_360'] else
                        'overlap only through TDC, negative begin') if facts['wrap_only']
                       else 'overlap on the line')
                text = f'slits overlapping by {mg:.3g} rad on the disk'
            elif reason == 'self_overlap':
                cls = ('single slit wider than a full turn' if facts['single_slit'] else
                       'slit wider than a full turn among several')
                text = f'a slit {mg:.3g} rad wider than a full turn (overlaps itself through TDC)'
            else:
                cls = 'reversed single slit' if facts['single_slit'] else 'reversed slit among several'
                text = f'a slit with begin > end (by {mg:.3g} rad)'
            if pre == 'ctor':
                ctx.hit(cls)
            else:
                ctx.hit(f'from_nexus: {reason}')
            if exc is None:
                ctx.violation(f'{pre}.{reason}_accepted', f'{where}: {text} accepted ({cls})',
                              case, **facts)
            elif not isinstance(exc, ValueError):
                ctx.violation(f'{pre}.wrong_exception',
                              f'{where}: {type(exc).__name__} instead of ValueError for {text}',
                              case, exc=type(exc).__name__, reason=reason, **facts)
        else:
            ctx.count(f'undecided:slits {geo["reason"]}')
            ctx.count(f'undecided:slits {geo["reason"]}:' + ('accepted' if exc is None else
                                                             f'rejected with {type(exc).__name__}'))

    def on_post_init(self, ev):
        ch = ev.args.get('self')
        try:
            begin, end = ch.slit_begin, ch.slit_end
            if not (isinstance(begin, sc.Variable) and isinstance(end, sc.Variable)):
                self.ctx.count('out_of_domain:slit edges')
                return
            if ev.exc is None:
                self.freeze(ch)
            if self.refused_for_variances('constructor', ev.exc, ch):
                return
        except Exception:  # noqa: BLE001
            self.ctx.oracle_error('C10 post_init')
            return
        self.judge_slit_set('__post_init__', begin, end, ev.exc)

    def on_from_nexus(self, ev):
        """from_nexus is documented to take [begin_0, end_0, begin_1, end_1, ...] as slit_edges or
        separate slit_begin / slit_end; the same slit sets must be refused on this path."""
        ctx = self.ctx
        try:
            m = ev.args.get('chopper')
            need = ('position', 'rotation_speed', 'beam_position', 'phase')
            if not hasattr(m, 'get') or any(m.get(k) is None for k in need):
                ctx.count('out_of_domain:from_nexus mapping')
                return
            typ = m.get('type')
            if typ is not None and not (isinstance(typ, str) and typ == NEXUS_TYPE_SINGLE):
                # NXdisk_chopper.type other than a single disk: not a chopper of this property
                ctx.count('out_of_domain:from_nexus mapping')
                return
            if self.refused_for_variances('from_nexus', ev.exc, *[m.get(k) for k in (
                    'slit_edges', 'slit_begin', 'slit_end', 'rotation_speed', 'beam_position', 'phase')]):
                return
            edges = m.get('slit_edges')
            if edges is not None:
                if ('slit_begin' in m or 'slit_end' in m or not isinstance(edges, sc.Variable)
                        or edges.ndim != 1 or len(edges) % 2 or len(edges) == 0):
                    ctx.count('out_of_domain:from_nexus mapping')
                    return
                begin, end, route = edges[::2], edges[1::2], 'slit_edges'
            else:
                begin, end, route = m.get('slit_begin'), m.get('slit_end'), 'slit_begin/slit_end'
                if not (isinstance(begin, sc.Variable) and isinstance(end, sc.Variable)):
                    ctx.count('out_of_domain:from_nexus mapping')
                    return
        except Exception:  # noqa: BLE001
            ctx.oracle_error('C10 from_nexus')
            return
        self.judge_slit_set('from_nexus', begin, end, ev.exc, route=route)

    # -- time_offset_open / time_offset_close ----------------------------------
    def on_edge_time(self, which, ev):
        ctx = self.ctx
        ch, fp = ev.args.get('self'), ev.args.get('pulse_frequency')
        if self.cascade_stack:
            self.cascade_stack[-1][which] = (ev.result, ev.exc)
        if self.refused_for_variances(f'time_offset_{which}', ev.exc, ch, fp):
            self.pairs.pop(id(ch), None)
            return
        if ev.depth == 0:
            ok = self.judge_acceptance(f'time_offset_{which}', ch, fp, ev.exc)
        else:
            ok = None
        if ev.exc is not None:
            if ev.depth == 0 and ok is True:
                # decided "must be accepted", no out-of-phase ValueError, yet it raised
                ctx.violation('direct.raised', f'time_offset_{which} raised {type(ev.exc).__name__}: '
                              f'{ev.exc}'[:300], dict(self.case), exc=type(ev.exc).__name__)
            self.pairs.pop(id(ch), None)
            return
        slot = self.pairs.setdefault(id(ch), {})
        fpk = (fp.value, str(fp.unit))
        if slot.get('fp') != fpk:
            slot.clear()
            slot['fp'] = fpk
        slot[which] = ev.result
        if 'open' in slot and 'close' in slot:
            self.judge_direct_pair(ch, fp, slot)

    def on_angle_at_beam(self, ev):
        """Direct calls of time_offset_angle_at_beam (depth 0): at each returned time offset the requested disk
        angle is under the beam, every angle is reported once per requested rotation (-1 .. n-1), in the documented
        layout (rotation-major along the last dimension; a scalar angle gives one entry per rotation)."""
        ctx = self.ctx
        if ev.depth != 0:
            return
        ch, angle, nrep = ev.args.get('self'), ev.args.get('angle'), ev.args.get('n_repetitions')
        case = dict(self.case, angle=_describe_var(angle), n_repetitions=nrep)
        if self.refused_for_variances('time_offset_angle_at_beam', ev.exc, ch, angle):
            return
        if ev.exc is not None:
            ctx.violation('angle_at_beam.raised', f'time_offset_angle_at_beam raised {type(ev.exc).__name__}: '
                          f'{ev.exc}'[:300], case, exc=type(ev.exc).__name__)
            return
        try:
            fz = self.view(ch)
            disk, _ = disk_of(fz)
            a = np.atleast_1d(_rad(angle))
            res = ev.result
            dt = np.asarray(si.si(res), dtype=LD)
            n_last = a.shape[-1]
            want_last = n_last * (int(nrep) + 1)
            if dt.shape[:-1] != a.shape[:-1] or dt.shape[-1] != want_last:
                ctx.violation('angle_at_beam.shape', f'result shape {dt.shape} for angles of shape {a.shape} and '
                              f'{nrep} repetitions (expected last size {want_last})', case)
                return
            if res.unit.to_dict() != sc.Unit('s').to_dict() and not _is_time(res.unit):
                ctx.violation('angle_at_beam.unit', f'result unit {res.unit} is not a time', case)
                return
            # element [.., r * n_last + j] belongs to angle [.., j]
            want = np.concatenate([a] * (int(nrep) + 1), axis=-1)
            off = np.mod(disk.alpha(dt) - want + PI, TWO_PI) - PI
            mag = (abs(_scalar(fz.beam_position)) + abs(_scalar(fz.phase)) + LD(np.max(np.abs(a)))
                   + TWO_PI * (int(nrep) + 2))
            tol = K_TOL * EPS * mag
            worst = float(np.max(np.abs(off)))
            ctx.dev('angle_at_beam: |disk angle under the beam - requested angle| / bound', worst / float(tol))
            ctx.event('angle_at_beam')
            if angle.ndim == 0:
                ctx.event('angle_at_beam.scalar_angle')
            if a.size >= LARGE_ANGLES:
                ctx.event('angle_at_beam.large_array')
            if worst > tol:
                ctx.violation('angle_at_beam.value', f'at the returned time offset the disk angle under the beam '
                              f'differs from the requested angle by {worst:.3g} rad (bound {float(tol):.3g})', case)
                return
            # the repetitions are distinct rotations: consecutive copies of one angle are one period apart
            if int(nrep) >= 1:
                per = TWO_PI / abs(disk.omega)
                d = np.abs(np.diff(dt.reshape(*dt.shape[:-1], int(nrep) + 1, n_last), axis=-2)) - per
                if float(np.max(np.abs(d))) > float(2 * tol / abs(disk.omega)):
                    ctx.violation('angle_at_beam.repetitions', 'repetitions of one angle are not one rotation '
                                  f'period apart (worst {float(np.max(np.abs(d))):.3g} s)', case)
        except Exception:  # noqa: BLE001
            ctx.oracle_error('C10 angle_at_beam')

    def judge_direct_pair(self, ch, fp, slot):
        """The (open, close) arrays last observed for this chopper, on the disk."""
        ctx = self.ctx
        try:
            ri = self.ratio_info(ch, fp)
            if ri['rel'] > REJECT_REL or not (0.2 <= ri['ratio'] <= 10):
                ctx.count('pair_not_judged:ratio not in phase')
                return None
            # Whether a ratio between 1e-10 and 1e-7 (relative) from n or 1/n is accepted is not decided
            # by the property; but WHEN such a frequency is accepted, what is reported are the openings
            # of the disk turning at that very frequency, for the rotations of the documented span
            in_band = ri['rel'] > ACCEPT_REL
            to, tc = si.si(slot['open']), si.si(slot['close'])
            key = (id(ch), slot['fp'], _bits(slot['open']), _bits(slot['close']))
            if key in self.cache:
                ctx.count('pair.direct.repeat_of_judged_pair')
                return self.cache[key]
            disk, _ = disk_of(self.view(ch))
            geo = slit_set_geometry(disk.begin, disk.end, GAP_BAND)
            if geo['verdict'] not in ('valid', 'invalid'):
                ctx.count(f'pair_not_judged:slit set {geo["verdict"]} ({geo["reason"]})')
                return None
            valid = geo['verdict'] == 'valid'
            rot = int(np.ceil(max(ri['ratio'], 1.0))) + 1
            tol_t = K_TOL * EPS * angle_magnitude(self.view(ch), disk, rot) / abs(disk.omega)
            # rotations of the documented span: the one finishing when the pulse begins + those of one
            # pulse period (the nearest integer to the ratio -- unambiguous within 1e-7 -- at least one)
            per_slit = max(int(ri['n']) if ri['kind'] == 'multiple' else 1, 1) + 1
            prob, stats = check_openings(disk, to, tc, tol_t,
                                         min_span=(1 - 4 * LD(ri['rel'])) / ri['fp_hz'],
                                         geometry_valid=valid, per_slit=per_slit)
        except Exception:  # noqa: BLE001
            ctx.oracle_error('C10 direct pair')
            return None
        ok = self._report('direct', prob, stats, ch, ri, to, tc, npulses=1,
                          extra_keys={'slit_set': 'valid' if valid else geo['reason']})
        self.cache[key] = ok
        if valid:
            ctx.event('pair.direct')
            ctx.event('intervals.direct', int(to.size))
            ctx.event(f'pair.direct.slits {slit_layout(self.view(ch))}')
            if stats.get('rotations_judged'):
                ctx.event('pair.direct.rotation_count')
            if in_band:
                ctx.event('pair.direct.in_tolerance_band')
            if ri['rel'] > 0 and self.case.get('class') == 'band':
                ctx.hit('tolerance band, accepted and judged: ' + band_class(ri))
        else:
            ctx.event('pair.direct.forbidden_slit_set')
        return ok

    def _report(self, origin, prob, stats, ch, ri, to, tc, npulses, extra_keys=None):
        ctx = self.ctx
        for k in ('duration_err/tol', 'edge_err/tol'):
            if k in stats and not prob:
                ctx.dev(f'{origin.split("_")[0]}.{k}', stats[k])
        ctx.count('scan_grid_points', int(stats.get('grid_points', 0)))
        if stats.get('complete_domain') is False:
            ctx.count('completeness_not_judged:slits written more than one turn apart')
        if stats.get('oracle_inconsistent'):
            ctx.inconclusive_because('C10 oracle inconsistency: more valid distinct reported intervals '
                                     'than rising edges found by the scan')
        keys = {'origin': origin.split('_')[0],
                'sense': 'clockwise' if ri['f_hz'] < 0 else 'anticlockwise',
                'ratio_class': 'ge1' if ri['kind'] == 'multiple' else 'sub',
                'npulses_gt1': bool(npulses > 1)}
        keys.update(extra_keys or {})
        if origin == 'cascade_pulsecopy_sub' and prob:
            # one witness per call: the single mechanism (copies shifted by a pulse period that is
            # not a whole turn) shows up in several checks at once
            checks = sorted(prob)
            case = dict(self.case, origin=origin, npulses=npulses, ratio=ri['ratio'], checks=prob,
                        chopper=_describe(self.view(ch)), pulse_frequency_hz=float(ri['fp_hz']),
                        time_open_s=[float(x) for x in np.atleast_1d(to).ravel()[:64]],
                        time_close_s=[float(x) for x in np.atleast_1d(tc).ravel()[:64]])
            ctx.violation(f'{origin}.misplaced_openings',
                          f'{origin} (ratio {ri["ratio"]:.6g}, npulses {npulses}): {checks}; first: '
                          f'{prob[checks[0]]}'[:400], case, checks=checks, **keys)
            return False
        for check, info in prob.items():
            case = dict(self.case, origin=origin, npulses=npulses, ratio=ri['ratio'], check=check,
                        info=info, chopper=_describe(self.view(ch)), pulse_frequency_hz=float(ri['fp_hz']),
                        time_open_s=[float(x) for x in np.atleast_1d(to).ravel()[:64]],
                        time_close_s=[float(x) for x in np.atleast_1d(tc).ravel()[:64]])
            ctx.violation(f'{origin}.{check}',
                          f'{origin} (ratio {ri["ratio"]:.6g}, npulses {npulses}): {check} {info}'[:400],
                          case, check=check, **keys)
        return not prob

    # -- open_duration -----------------------------------------------------------
    def on_open_duration(self, ev):
        ctx = self.ctx
        ch, fp = ev.args.get('self'), ev.args.get('pulse_frequency')
        if self.refused_for_variances('open_duration', ev.exc, ch, fp):
            return
        ok = self.judge_acceptance('open_duration', ch, fp, ev.exc) if ev.depth == 0 else None
        if ev.exc is not None:
            if ok is True:
                ctx.violation('open_duration.raised', f'open_duration raised {type(ev.exc).__name__}: '
                              f'{ev.exc}'[:300], dict(self.case), exc=type(ev.exc).__name__)
            return
        if ok is not True and ev.depth == 0:
            # accepted inside the tolerance band (acceptance itself undecided): the durations are judged
            try:
                ri0 = self.ratio_info(ch, fp)
                if not (ok is None and ri0['rel'] <= REJECT_REL and 0.2 <= ri0['ratio'] <= 10):
                    return
            except Exception:  # noqa: BLE001
                ctx.oracle_error('C10 open_duration')
                return
            ctx.event('open_duration.in_tolerance_band')
        try:
            slot = self.pairs.get(id(ch), {})
            if 'open' not in slot or 'close' not in slot:
                ctx.count('open_duration.no_observed_pair')
                return
            ri = self.ratio_info(ch, fp)
            disk, _ = disk_of(self.view(ch))
            to, tc = si.si(slot['open']), si.si(slot['close'])
            dur = si.si(ev.result)
            rot = int(np.ceil(max(ri['ratio'], 1.0))) + 1
            tol_t = K_TOL * EPS * angle_magnitude(self.view(ch), disk, rot) / abs(disk.omega)
            if dur.shape != to.shape:
                ctx.violation('open_duration.shape', f'{dur.shape} durations for {to.shape} openings',
                              dict(self.case))
                return
            # slit under the beam in the middle of each observed interval (also when the
            # interval itself is wrong the duration must be that of a slit of this disk)
            geo = slit_set_geometry(disk.begin, disk.end, GAP_BAND)
            if geo['verdict'] not in ('valid', 'invalid'):
                ctx.count(f'open_duration.not_judged:slit set {geo["verdict"]}')
                return
            k = disk.slit_at(to + (tc - to) / 2)
            if geo['verdict'] == 'valid':
                if np.any(k < 0):
                    ctx.count('open_duration.not_judged:interval midpoint closed')
                    return
                want = disk.width[k] / abs(disk.omega)
            else:
                # forbidden slit set in use: the duration is that of some slit of this disk
                # (signed width: a slit with begin > end has no positive duration)
                allw = disk.width / abs(disk.omega)
                want = allw[np.argmin(np.abs(dur[:, None] - allw[None, :]), axis=1)]
            err = np.abs(dur - want)
            not_pos = dur <= 0
        except Exception:  # noqa: BLE001
            ctx.oracle_error('C10 open_duration')
            return
        ctx.event('open_duration' if geo['verdict'] == 'valid' else 'open_duration.forbidden_slit_set')
        if geo['verdict'] == 'valid':
            ctx.event(f'open_duration.slits {slit_layout(self.view(ch))}')
        if np.any(not_pos):
            i = int(np.argmin(dur))
            ctx.violation('open_duration.not_positive',
                          f'open_duration {float(dur[i])!r} s is not a positive duration',
                          dict(self.case, chopper=_describe(self.view(ch)), got=float(dur[i]), index=i,
                               n=int(np.count_nonzero(not_pos))),
                          sense='clockwise' if ri['f_hz'] < 0 else 'anticlockwise',
                          slit_set='valid' if geo['verdict'] == 'valid' else geo['reason'])
            return
        ctx.dev('open_duration.err/tol', float(np.max(err) / tol_t))
        if np.any(err > 2 * tol_t):
            i = int(np.argmax(err))
            ctx.violation('open_duration.value',
                          f'open_duration {float(dur[i])!r} s, slit width/|omega| = {float(want[i])!r} s',
                          dict(self.case, chopper=_describe(self.view(ch)), got=float(dur[i]),
                               expected=float(want[i]), index=i),
                          sense='clockwise' if ri['f_hz'] < 0 else 'anticlockwise',
                          negative=bool(np.any(dur < 0)))

    # -- Chopper.from_disk_chopper ------------------------------------------------
    def on_cascade_start(self, ev):
        self.cascade_stack.append({})

    def on_cascade(self, ev):
        ctx = self.ctx
        nested = self.cascade_stack.pop() if self.cascade_stack else {}
        ch, fp, npulses = (ev.args.get('disk_chopper'), ev.args.get('pulse_frequency'),
                           ev.args.get('npulses'))
        if self.refused_for_variances('from_disk_chopper', ev.exc, ch, fp):
            return
        ok = self.judge_acceptance('from_disk_chopper', ch, fp, ev.exc)
        if ok is not True:
            return
        try:
            ri = self.ratio_info(ch, fp)
            mixed = ch.frequency.unit != fp.unit
            npulses = int(npulses)     # numpy integers are integers
        except Exception:  # noqa: BLE001
            ctx.oracle_error('C10 cascade')
            return
        if ev.exc is not None:
            ctx.event('cascade.raised')
            ctx.violation('cascade.raised',
                          f'from_disk_chopper(npulses={npulses}) raised {type(ev.exc).__name__}: '
                          f'{ev.exc}'[:300],
                          dict(self.case, chopper=_describe(self.view(ch)), npulses=npulses,
                               pulse_frequency=[fp.value, str(fp.unit)]),
                          exc=type(ev.exc).__name__, mixed_frequency_units=bool(mixed))
            return
        try:
            res = ev.result
            to, tc = si.si(res.time_open), si.si(res.time_close)
            disk, _ = disk_of(self.view(ch))
            rot = int(np.ceil(npulses * max(ri['ratio'], 1.0))) + 1
            t_pulse = 1 / ri['fp_hz']
            tol_t = (K_TOL * EPS * angle_magnitude(self.view(ch), disk, rot) / abs(disk.omega)
                     + K_TOL * EPS * npulses * t_pulse
                     # the property lets a ratio within ~1e-8 of n or 1/n count as in phase; a
                     # result built on that idealisation is off by (relative distance) x time
                     + 2 * LD(ri['rel']) * npulses * t_pulse)
            # mechanism fact: is the result the nested single-pulse result copied per pulse?
            copy = False
            direct_ok = None
            n_open, n_close = nested.get('open'), nested.get('close')
            if n_open and n_close and n_open[1] is None and n_close[1] is None:
                o1, c1 = si.si(n_open[0]), si.si(n_close[0])
                if o1.size * npulses == to.size and c1.size * npulses == tc.size and to.ndim == 1:
                    shift = (np.arange(npulses).astype(LD) * t_pulse)[:, None]
                    lim = 16 * EPS * (np.max(np.abs(o1)) + np.max(np.abs(c1)) + npulses * t_pulse)
                    copy = bool(np.all(np.abs((o1[None, :] + shift).ravel() - to) <= lim)
                                and np.all(np.abs((c1[None, :] + shift).ravel() - tc) <= lim))
                slot = self.pairs.get(id(ch), {})
                if 'open' in slot and 'close' in slot:
                    direct_ok = self.cache.get((id(ch), slot.get('fp'), _bits(slot['open']),
                                                _bits(slot['close'])))
            geo = slit_set_geometry(disk.begin, disk.end, GAP_BAND)
            if geo['verdict'] not in ('valid', 'invalid'):
                ctx.count(f'cascade_not_judged:slit set {geo["verdict"]} ({geo["reason"]})')
                return
            valid = geo['verdict'] == 'valid'
            prob, stats = check_openings(disk, to, tc, tol_t, min_span=npulses * t_pulse,
                                         geometry_valid=valid)
        except Exception:  # noqa: BLE001
            ctx.oracle_error('C10 cascade')
            return
        pulsecopy = bool(copy and direct_ok and npulses > 1)
        origin = 'cascade'
        if pulsecopy:
            origin = 'cascade_pulsecopy_' + ('ge1' if ri['kind'] == 'multiple' else 'sub')
        if valid:
            ctx.event(f'cascade.npulses={npulses}')
            ctx.event('intervals.cascade', int(to.size))
            ctx.event(f'cascade.slits {slit_layout(self.view(ch))}')
        else:
            ctx.event('cascade.forbidden_slit_set')
        self._report(origin, prob, stats, ch, ri, to, tc, npulses,
                     extra_keys={'per_pulse_copy_of_valid_single_pulse_openings': pulsecopy,
                                 'slit_set': 'valid' if valid else geo['reason']})


def _values(v):
    return [float(x) for x in np.atleast_1d(v.values)]


def _describe(ch):
    return {
        'frequency': [float(ch.frequency.value), str(ch.frequency.unit)],
        'beam_position': [float(ch.beam_position.value), str(ch.beam_position.unit)],
        'phase': [float(ch.phase.value), str(ch.phase.unit)],
        'slit_begin': _values(ch.slit_begin), 'slit_end': _values(ch.slit_end),
        'slit_unit': str(ch.slit_begin.unit),
    }


# ------------------------------------------------------------- generators ---
def gen_slits_deg(rng, n, span_tdc):
    """Random partition of the circle into n slits and n gaps (each >= 0.5 deg, slits <= 200).

    Returns begin, end (deg, circular order), gaps after each slit, index of the slit that
    spans TDC (or None).  A spanning slit comes out with end > 360.
    """
    lo = 0.5
    while True:
        alpha = [0.3, 1.0, 3.0][rng.integers(0, 3)]
        x = rng.dirichlet(np.full(2 * n, alpha)) * (360.0 - 2 * n * lo) + lo
        w, g = x[0::2], x[1::2]
        if w.max() <= 200.0:
            break
    b = np.concatenate([[0.0], np.cumsum(w + g)[:-1]])
    j = int(rng.integers(0, n))
    u = rng.uniform(0.05, 0.95)
    if span_tdc:
        off = 360.0 - b[j] - u * w[j]
    else:
        off = 360.0 - (b[j] + w[j] + u * g[j])
    b = np.mod(b + off, 360.0)
    e = b + w
    spanning = [k for k in range(n) if e[k] > 360.0]
    return b, e, w, g, (spanning[0] if spanning else None)


PAIR_OVERLAPS = ('linear', 'wrap_end_gt_360', 'wrap_negative_begin', 'wrap_end_gt_360_before',
                 'wrap_negative_begin_after')
# slit sets the documentation forbids; the first group exists for every number of slits >= 1
INVALID_ANY_N = ('reversed_tdc', 'reversed_plain', 'reversed_all', 'self_overlap_end_gt_360',
                 'self_overlap_negative_begin', 'self_overlap_two_turns')
INVALID_PAIR = tuple('overlap_' + o for o in PAIR_OVERLAPS) + ('nested', 'duplicate', 'shifted_turn')
INVALID_PATHS = ('ctor', 'replace', 'nexus_edges', 'nexus_begin_end')
# valid sets at the edge of what is allowed (deterministic part of every shard)
VALID_DRIVEN = ('wide_single', 'wide_single_end_gt_360', 'wide_single_negative_begin',
                'narrow_single')
VALID_CTOR_ONLY = ('single_nearly_full_turn', 'nearly_touching_line', 'nearly_touching_wrap')
# exactly on a threshold (zero width, exactly one turn, touching): not judged, the outcome is
# tallied under 'undecided:slits <threshold>:accepted / rejected with ...'
THRESHOLD_SETS = ('zero_width', 'zero_width_among', 'full_turn', 'touching_line', 'touching_wrap')
TINY_DEG = (-5.0, -3.0)   # log10 of a "just invalid / just valid" amount in deg (>= 1.7e-7 rad)


def apply_pair_overlap(overlap, b, e, w, g, js, n, frac, rng):
    """Make two slits of a valid partition overlap (in place).  The spanning slit js is written
    with end > 360 or with a negative begin and overlaps its neighbour after top-dead-centre (its
    end reaches into the next slit) or before it (its begin reaches back)."""
    if overlap in ('wrap_end_gt_360', 'wrap_negative_begin_after'):
        nb = (js + 1) % n
        e[js] += g[js] + frac * w[nb]
    elif overlap in ('wrap_negative_begin', 'wrap_end_gt_360_before'):
        pv = (js - 1) % n
        b[js] -= g[pv] + frac * w[pv]
    elif overlap == 'linear':
        order = np.argsort(b)
        i = int(rng.integers(0, n - 1))
        k, k2 = order[i], order[i + 1]
        e[k] += (b[k2] - e[k]) + frac * w[k2]


def gen_frame(rng, c):
    """Beam position and phase over several turns."""
    for name in ('beam_position', 'phase'):
        u = ['deg', 'rad'][rng.integers(0, 2)]
        v = rng.uniform(-4 * np.pi, 4 * np.pi)
        if rng.random() < 0.1:
            v = 0.0
        c[name] = (float(np.degrees(v)) if u == 'deg' else float(v), u)


def gen_case(rng, ctx):
    c = {}
    n = int(rng.integers(1, 7))
    r = rng.random()
    overlap = None
    if r < 0.25 and n >= 2:
        overlap = PAIR_OVERLAPS[rng.integers(0, 5)]
    span = (overlap or '').startswith('wrap_') or (overlap is None and rng.random() < 0.6)
    b, e, w, g, js = gen_slits_deg(rng, n, span)
    rep = 'none'
    if js is not None:
        rep = 'end>360'
        neg = (overlap or '').startswith('wrap_negative_begin') or (overlap is None and rng.random() < 0.5)
        if neg:
            b[js] -= 360.0
            e[js] -= 360.0
            rep = 'negative_begin'
    frac = rng.uniform(0.05, 0.95)
    if overlap is not None:
        apply_pair_overlap(overlap, b, e, w, g, js, n, frac, rng)
    perm = rng.permutation(n)
    b, e = b[perm], e[perm]
    a_unit = ['deg', 'rad'][rng.integers(0, 2)]
    if a_unit == 'rad':
        b, e = np.radians(b), np.radians(e)
    c.update(n_slits=n, overlap=overlap, tdc=rep, a_unit=a_unit, begin=b, end=e)
    gen_frame(rng, c)
    # frequencies
    fp_choices = [14.0, 10.0, 25.0, 50.0, 60.0, 100 / 6, float(rng.uniform(1, 100))]
    fp_hz = fp_choices[rng.integers(0, len(fp_choices))]
    fp_unit = F_UNITS[rng.integers(0, 3)]
    f_unit = F_UNITS[rng.integers(0, 3)]
    if rng.random() < 0.4:
        f_unit = fp_unit
    label, ratio = RATIOS[rng.integers(0, len(RATIOS))]
    sign = [-1.0, 1.0][rng.integers(0, 2)]
    q = rng.random()
    delta = 0.0
    if overlap is not None or q < 0.45:
        band = 'exact'
    elif q < 0.62:
        band, delta = 'accept', 10.0 ** rng.uniform(-14, -10.3)
    elif q < 0.70:
        band, delta = 'undecided', 10.0 ** rng.uniform(-9.9, -7.1)
    elif q < 0.86:
        band, delta = 'reject_near', 10.0 ** rng.uniform(-6.8, -2)
    else:
        band = 'reject_far'
        ratio = FAR_RATIOS[rng.integers(0, len(FAR_RATIOS))]
        label = f'{ratio:.4g}'
    if rng.random() < 0.5:
        delta = -delta
    fp_val = fp_hz / F_UNIT_HZ[fp_unit]
    f_val = sign * ratio * (1.0 + delta) * fp_hz / F_UNIT_HZ[f_unit]
    via = ['ctor', 'ctor', 'nexus_edges', 'nexus_begin_end', 'replace'][rng.integers(0, 5)]
    c.update(fp=(float(fp_val), fp_unit), f=(float(f_val), f_unit), ratio=label, sign=int(sign),
             band=band, via=via)
    return c


def gen_call_forms(rng, c):
    """How the case is written down by the caller (drawn from a stream of its own): the name of
    the slit dimension, the calling convention of the constructor / from_nexus / from_disk_chopper,
    the Mapping type and the spelling of NXdisk_chopper.type handed to from_nexus, subclasses."""
    c['dim'] = 'slit' if rng.random() < 0.4 else DIM_NAMES[rng.integers(0, len(DIM_NAMES))]
    if rng.random() < 0.1:
        c['dim'] = ''.join('abcdefghijklmnopqrstuvwxyz_'[i] for i in rng.integers(0, 27, size=int(rng.integers(1, 12))))
    c['form'] = CTOR_FORMS[rng.integers(0, 3)]
    c['cascade_form'] = CASCADE_FORMS[rng.integers(0, len(CASCADE_FORMS))]
    c['mapping'] = NEXUS_MAPPINGS[rng.integers(0, 4)]
    c['nexus_type'] = NEXUS_TYPES[rng.integers(0, 4)]
    if c.get('via') == 'ctor' and rng.random() < 0.3:
        c['via'] = SUBCLASS_ROUTES[rng.integers(0, 2)]
    return c


def gen_dim_case(rng, dim, n, sign, ratio_class, k):
    """A valid chopper whose slit arrays use the dimension name ``dim``: n slits from a random
    partition of the circle, the given sense of rotation and class of frequency ratio."""
    tdc = ('none', 'end>360', 'negative_begin')[k % 3]
    b, e, w, g, js = gen_slits_deg(rng, n, tdc != 'none')
    rep = 'none'
    if js is not None:
        rep = 'end>360'
        if tdc == 'negative_begin':
            b[js] -= 360.0
            e[js] -= 360.0
            rep = 'negative_begin'
    perm = rng.permutation(n)
    b, e = b[perm], e[perm]
    a_unit = ('deg', 'rad')[(k // 3) % 2]
    if a_unit == 'rad':
        b, e = np.radians(b), np.radians(e)
    c = dict(dim_class=dim, n_slits=n, overlap=None, tdc=rep, a_unit=a_unit, begin=b, end=e, dim=dim)
    gen_frame(rng, c)
    fp_hz = [14.0, 10.0, 50.0, 100 / 6][rng.integers(0, 4)]
    fp_unit = F_UNITS[rng.integers(0, 3)]
    f_unit = fp_unit if rng.random() < 0.5 else F_UNITS[rng.integers(0, 3)]
    rc = RATIO_CLASSES[ratio_class]
    label, ratio = rc[rng.integers(0, len(rc))]
    c.update(fp=(float(fp_hz / F_UNIT_HZ[fp_unit]), fp_unit),
             f=(float(sign * ratio * fp_hz / F_UNIT_HZ[f_unit]), f_unit), ratio=label, sign=int(sign),
             band='exact', ratio_class=ratio_class,
             via=('ctor', 'nexus_edges', 'replace', 'nexus_begin_end', 'subclass_override', 'ctor',
                  'subclass_field')[k % 7],
             form=CTOR_FORMS[k % 3], cascade_form=CASCADE_FORMS[k % len(CASCADE_FORMS)],
             mapping=NEXUS_MAPPINGS[(k // 2) % 4], nexus_type=NEXUS_TYPES[(k // 7) % 4])
    return c


def dim_grid():
    """(dimension name, number of slits, sense, class of frequency ratio): all of them."""
    return [(dim, n, sign, rc) for dim in DIM_NAMES for n in range(1, 7) for sign in (-1, 1)
            for rc in RATIO_CLASSES]


def _turn(a_unit):
    return 360.0 if a_unit == 'deg' else 2 * np.pi


def seq_rep_holds(rep, b, e, turn):
    """Does the slit set lie relative to [0, one turn) the way the class says?"""
    if rep == 'negative_begin':
        return bool(np.any(b < 0) and not np.any(b >= turn))
    if rep == 'begin_gt_turn':
        return bool(np.any(b > turn) and not np.any(b < 0))
    if rep == 'end_gt_turn':
        return bool(np.any(e > turn) and np.all(b >= 0) and np.all(b < turn))
    if rep == 'within_turn':
        return bool(np.all(b >= 0) and np.all(e <= turn))
    return bool(np.any(b < 0) and np.any(b > turn))


def _gen_seq_floats(rng, rep, dtype, a_unit, n_min):
    n = int(rng.integers(n_min, 7))
    b, e, w, g, js = gen_slits_deg(rng, n, rep in ('negative_begin', 'end_gt_turn', 'both_sides'))
    others = [j for j in range(n) if j != js]
    if rep in ('negative_begin', 'both_sides'):
        b[js] -= 360.0
        e[js] -= 360.0
    if rep in ('begin_gt_turn', 'both_sides'):
        j = int(others[rng.integers(0, len(others))])
        shift = 360.0 * int(rng.integers(1, 3))
        b[j] += shift
        e[j] += shift
    if rep == 'negative_begin' and rng.random() < 0.5 and others:
        j = int(others[rng.integers(0, len(others))])   # one more slit, a whole turn back
        b[j] -= 360.0
        e[j] -= 360.0
    perm = rng.permutation(n)
    b, e = b[perm], e[perm]
    if a_unit == 'rad':
        b, e = np.radians(b), np.radians(e)
    if dtype == 'float32':
        b, e = b.astype(np.float32).astype(float), e.astype(np.float32).astype(float)
    return b, e


def gen_seq_case(rng, rep, dtype, a_unit, k):
    """A valid chopper for the call-sequence class: slit edges in ``dtype`` (integer edges are whole
    numbers of deg or rad) whose begin angles lie below 0 / beyond one turn / within one turn."""
    turn = _turn(a_unit)
    n_min = 2 if rep == 'both_sides' else 1
    b = e = None
    if dtype.startswith('int'):
        # whole numbers: drawn directly, kept when the circle geometry (independent oracle) calls
        # the set valid and the class predicate holds
        lo, hi, wmax, nmax = (-360, 720, 150, 4) if a_unit == 'deg' else (-6, 12, 3, 2)
        for _ in range(20000):
            n = int(rng.integers(n_min, nmax + 1))
            bb = rng.integers(lo, hi, size=n).astype(float)
            ee = bb + rng.integers(1, wmax + 1, size=n)
            if not seq_rep_holds(rep, bb, ee, turn):
                continue
            geo = slit_set_geometry(bb * (2 * np.pi / turn), ee * (2 * np.pi / turn), GAP_BAND)
            if geo['verdict'] == 'valid' and geo['margin'] > 1e-3:
                b, e = bb, ee
                break
        if b is None:
            raise AssertionError(f'no integer slit set for {rep} {a_unit}')
    else:
        for _ in range(200):
            b, e = _gen_seq_floats(rng, rep, dtype, a_unit, n_min)
            if seq_rep_holds(rep, b, e, turn):
                break
        else:
            raise AssertionError(f'no slit set of class {rep}')
    c = dict(sequence=rep, dtype=dtype, n_slits=int(len(b)), overlap=None, tdc=rep, a_unit=a_unit,
             begin=b, end=e, dim=('slit', 'edge', 'rotation', 'x')[k % 4], via='ctor',
             form=CTOR_FORMS[k % 3], drawn=(None, 'scalar height', 'height per slit')[(k // 2) % 3])
    gen_frame(rng, c)
    gen_exact_frequencies(rng, c)
    return c


def seq_grid():
    return [(rep, dtype, a_unit) for rep in SEQ_REPS for dtype in SEQ_DTYPES for a_unit in ('deg', 'rad')]


def gen_exact_frequencies(rng, c):
    """In-phase chopper (exact ratio 1/2, 1, 2, 3 of either sign), same or different units."""
    fp_hz = [14.0, 10.0, 50.0][rng.integers(0, 3)]
    fp_unit = F_UNITS[rng.integers(0, 3)]
    f_unit = fp_unit if rng.random() < 0.5 else F_UNITS[rng.integers(0, 3)]
    label, ratio = [('1/2', 0.5), ('1', 1.0), ('2', 2.0), ('3', 3.0)][rng.integers(0, 4)]
    sign = [-1.0, 1.0][rng.integers(0, 2)]
    c.update(fp=(float(fp_hz / F_UNIT_HZ[fp_unit]), fp_unit),
             f=(float(sign * ratio * fp_hz / F_UNIT_HZ[f_unit]), f_unit), ratio=label,
             sign=int(sign), band='exact')


def _tiny(rng):
    return 10.0 ** rng.uniform(*TINY_DEG)


def gen_invalid(rng, cls, n, a_unit, via):
    """One slit set of class ``cls`` that the documentation forbids, derived from a valid random
    partition (kept as ``base_*``: what dataclasses.replace starts from).  A quarter of the sets
    are invalid by a tiny amount only (1e-5..1e-3 deg)."""
    ov = cls[len('overlap_'):] if cls.startswith('overlap_') else None
    if cls == 'reversed_tdc' or (ov or '').startswith('wrap_'):
        span = True
    elif cls == 'reversed_plain' and n == 1:
        span = False
    else:
        span = bool(rng.random() < 0.5)
    b, e, w, g, js = gen_slits_deg(rng, n, span)
    rep = 'none'
    if js is not None:
        rep = 'end>360'
        neg = (ov or '').startswith('wrap_negative_begin') or (
            not (ov or '').startswith('wrap_end') and rng.random() < 0.5)
        if neg:
            b[js] -= 360.0
            e[js] -= 360.0
            rep = 'negative_begin'
    base_b, base_e = b.copy(), e.copy()
    tiny = bool(rng.random() < 0.25) and cls in ('reversed_plain', 'self_overlap_end_gt_360',
                                                  'self_overlap_negative_begin',
                                                  'self_overlap_two_turns', 'overlap_linear')
    frac = rng.uniform(0.05, 0.95)
    others = [k for k in range(n) if k != js]
    j = int(rng.integers(0, n))
    k = int((j + 1 + rng.integers(0, max(n - 1, 1))) % n)   # another slit (n >= 2)
    if cls == 'reversed_tdc':
        # the slit across top-dead-centre written the "natural" way: begin=350 deg, end=10 deg
        if rep == 'negative_begin':
            b[js] += 360.0
        else:
            e[js] -= 360.0
    elif cls == 'reversed_plain':
        j = int(others[rng.integers(0, len(others))])
        if tiny:
            e[j] = b[j] - _tiny(rng)
        else:
            b[j], e[j] = e[j], b[j]
    elif cls == 'reversed_all':
        b, e = e.copy(), b.copy()        # the two arrays passed in the wrong order
    elif cls == 'self_overlap_end_gt_360':
        if b[j] < 0:
            b[j] += 360.0
        e[j] = b[j] + 360.0 + (_tiny(rng) if tiny else rng.uniform(1.0, 120.0))
    elif cls == 'self_overlap_negative_begin':
        if e[j] > 360.0:
            e[j] -= 360.0
        b[j] = e[j] - 360.0 - (_tiny(rng) if tiny else rng.uniform(1.0, 120.0))
    elif cls == 'self_overlap_two_turns':
        e[j] = b[j] + 720.0 + (_tiny(rng) if tiny else rng.uniform(1.0, 400.0))
    elif ov is not None:
        if tiny and ov == 'linear':
            order = np.argsort(b)
            i = int(rng.integers(0, n - 1))
            e[order[i]] = b[order[i + 1]] + _tiny(rng)
        else:
            apply_pair_overlap(ov, b, e, w, g, js, n, frac, rng)
    elif cls == 'nested':
        b[k] = b[j] + rng.uniform(0.2, 0.4) * w[j]
        e[k] = b[j] + rng.uniform(0.6, 0.8) * w[j]
    elif cls == 'duplicate':
        b[k], e[k] = b[j], e[j]
    elif cls == 'shifted_turn':
        s = [-360.0, 360.0][rng.integers(0, 2)]
        b[k], e[k] = b[j] + s, e[j] + s
    else:
        raise AssertionError(cls)
    perm = rng.permutation(n)
    b, e, base_b, base_e = b[perm], e[perm], base_b[perm], base_e[perm]
    if a_unit == 'rad':
        b, e, base_b, base_e = (np.radians(x) for x in (b, e, base_b, base_e))
    c = dict(invalid=cls, n_slits=n, tdc=rep, a_unit=a_unit, begin=b, end=e, base_begin=base_b,
             base_end=base_e, via=via, tiny=tiny, overlap=cls)
    gen_frame(rng, c)
    gen_exact_frequencies(rng, c)
    return c


def gen_valid_edge(rng, cls, a_unit, via):
    """Valid slit sets next to the forbidden ones."""
    n = 1
    if cls.startswith('wide_single') or cls == 'narrow_single':
        w = rng.uniform(200.0, 359.0) if cls.startswith('wide') else rng.uniform(0.5, 20.0)
        if cls == 'wide_single_end_gt_360':
            b0 = rng.uniform(360.0 - w + 0.5, 359.5)
            rep = 'end>360'
        elif cls == 'wide_single_negative_begin':
            b0 = -rng.uniform(0.5, w - 0.5)
            rep = 'negative_begin'
        else:
            b0 = rng.uniform(0.0, 360.0 - w)
            rep = 'none'
        b, e = np.array([b0]), np.array([b0 + w])
    elif cls == 'single_nearly_full_turn':
        b0 = rng.uniform(-180.0, 359.0)
        b, e = np.array([b0]), np.array([b0 + 360.0 - _tiny(rng)])
        rep = 'negative_begin' if b0 < 0 else 'end>360'
    else:
        n = int(rng.integers(2, 7))
        b, e, w, g, js = gen_slits_deg(rng, n, cls == 'nearly_touching_wrap')
        rep = 'none' if js is None else 'end>360'
        if cls == 'nearly_touching_wrap':
            if rng.random() < 0.5:
                b[js] -= 360.0
                e[js] -= 360.0
                rep = 'negative_begin'
            if rng.random() < 0.5:
                e[js] += g[js] - _tiny(rng)            # ends just before the next slit begins
            else:
                b[js] -= g[(js - 1) % n] - _tiny(rng)  # begins just after the previous one ends
        else:
            order = np.argsort(b)
            i = int(rng.integers(0, n - 1))
            e[order[i]] = b[order[i + 1]] - _tiny(rng)
        perm = rng.permutation(n)
        b, e = b[perm], e[perm]
    if a_unit == 'rad':
        b, e = np.radians(b), np.radians(e)
    c = dict(valid_edge=cls, n_slits=n, tdc=rep, a_unit=a_unit, begin=b, end=e, via=via,
             overlap=None)
    gen_frame(rng, c)
    gen_exact_frequencies(rng, c)
    return c


def gen_threshold(rng, cls):
    """Slit sets exactly on a threshold of the documented rules, in whole degrees (exact)."""
    n = 1 if cls in ('zero_width', 'full_turn') else int(rng.integers(2, 5))
    step = 360 // n
    b = np.array([float(k * step + int(rng.integers(0, 10))) for k in range(n)])
    e = b + float(int(rng.integers(5, 20)))
    if cls in ('zero_width', 'zero_width_among'):
        e[0] = b[0]
    elif cls == 'full_turn':
        e[0] = b[0] + 360.0
    elif cls == 'touching_line':
        e[0] = b[1]
    elif cls == 'touching_wrap':
        e[n - 1] = b[0] + 360.0
    c = dict(threshold=cls, n_slits=n, tdc='none', a_unit='deg', begin=b, end=e, via='ctor',
             overlap=None)
    gen_frame(rng, c)
    gen_exact_frequencies(rng, c)
    return c


def _edges(values, unit, scalar=False, dim='slit', dtype='float64', variances=None):
    if scalar:
        return sc.scalar(float(values[0]), unit=unit)
    kw = {} if variances is None else {'variances': np.asarray(variances, dtype=dtype)}
    return sc.array(dims=[dim], values=np.asarray(values, dtype=dtype), unit=unit, dtype=dtype, **kw)


_SUBCLASSES = {}


def subclass_of(DiskChopper, route):
    """Stand-ins a user may write: a subclass that overrides the documented building block
    (passing through to the base class) and a dataclass subclass with one more field."""
    import dataclasses

    key = (DiskChopper, route)
    if key not in _SUBCLASSES:
        if route == 'subclass_override':
            class OverridingChopper(DiskChopper):
                calls = 0

                def time_offset_angle_at_beam(self, *, angle, n_repetitions=1):
                    type(self).calls += 1
                    return super().time_offset_angle_at_beam(angle=angle, n_repetitions=n_repetitions)

            _SUBCLASSES[key] = OverridingChopper
        else:
            @dataclasses.dataclass(frozen=True, eq=False)
            class NamedChopper(DiskChopper):
                name: str = 'chopper'

            _SUBCLASSES[key] = NamedChopper
    return _SUBCLASSES[key]


class _PlainMapping:
    """A Mapping that is not a dict (registered below): __getitem__, __iter__, __len__ only, the rest
    comes from collections.abc.Mapping."""

    def __init__(self, d):
        self._d = dict(d)

    def __getitem__(self, k):
        return self._d[k]

    def __iter__(self):
        return iter(self._d)

    def __len__(self):
        return len(self._d)


def _plain_mapping(d):
    from collections.abc import Mapping

    cls = _SUBCLASSES.get('mapping')
    if cls is None:
        cls = _SUBCLASSES['mapping'] = type('PlainMapping', (_PlainMapping, Mapping), {})
    return cls(d)


def build(case, DiskChopper):
    import dataclasses
    import types

    scalar = case['via'] == 'ctor_scalar' or case.get('layout') == '0-d'
    dim, dtype = case.get('dim', 'slit'), case.get('dtype', 'float64')
    var = case.get('variances')
    ev = {}
    if var == 'slit_edges':
        ev = {'variances': np.full(len(case['begin']), 1e-6)}
    b = _edges(case['begin'], case['a_unit'], scalar, dim, dtype, **ev)
    e = _edges(case['end'], case['a_unit'], scalar, dim, dtype, **ev)
    f = sc.scalar(case['f'][0], unit=case['f'][1], **({'variance': 1e-12} if var == 'frequency' else {}))
    bp = sc.scalar(case['beam_position'][0], unit=case['beam_position'][1],
                   **({'variance': 1e-6} if var == 'beam_position' else {}))
    ph = sc.scalar(case['phase'][0], unit=case['phase'][1], **({'variance': 1e-6} if var == 'phase' else {}))
    pos = sc.vector([0.0, 0.0, 7.5], unit='m')
    extra = {}
    if case.get('drawn'):
        # the optional fields that only matter for drawing the chopper
        extra = {'slit_height': sc.scalar(0.1, unit='m') if case['drawn'] == 'scalar height' else
                 sc.array(dims=[dim], values=np.linspace(0.05, 0.1, len(case['begin'])), unit='m'),
                 'radius': sc.scalar(0.35, unit='m')}
    if case['via'] in ('ctor', 'ctor_scalar', *SUBCLASS_ROUTES):
        cls = subclass_of(DiskChopper, case['via']) if case['via'] in SUBCLASS_ROUTES else DiskChopper
        form = case.get('form', 'keyword')
        if form == 'positional':
            return cls(pos, f, bp, ph, b, e, *extra.values())
        if form == 'mixed':
            return cls(pos, f, bp, slit_end=e, slit_begin=b, phase=ph, **extra)
        return cls(axle_position=pos, frequency=f, beam_position=bp, phase=ph,
                   slit_begin=b, slit_end=e, **extra)
    if case['via'] == 'replace':
        # dataclasses.replace on an existing (valid) chopper: the same validation must run
        if 'base_begin' in case:
            bb, be = case['base_begin'], case['base_end']
        else:
            bb, be = np.array([10.0]), np.array([20.0])
            if case['a_unit'] == 'rad':
                bb, be = np.radians(bb), np.radians(be)
        base = DiskChopper(axle_position=pos, frequency=f, beam_position=bp, phase=ph,
                           slit_begin=_edges(bb, case['a_unit'], False, dim, dtype),
                           slit_end=_edges(be, case['a_unit'], False, dim, dtype), **extra)
        if np.array_equal(bb, case['begin']) and not np.array_equal(be, case['end']):
            return dataclasses.replace(base, slit_end=e)
        if np.array_equal(be, case['end']) and not np.array_equal(bb, case['begin']):
            return dataclasses.replace(base, slit_begin=b)
        return dataclasses.replace(base, slit_begin=b, slit_end=e)
    d = {'position': pos, 'rotation_speed': f, 'beam_position': bp, 'phase': ph, **extra}
    if case['via'] == 'nexus_edges':
        edges = np.stack([case['begin'], case['end']], axis=1).ravel()
        d['slit_edges'] = _edges(edges, case['a_unit'], False, dim, dtype,
                                 **({'variances': np.full(edges.size, 1e-6)} if ev else {}))
    else:
        d['slit_begin'], d['slit_end'] = b, e
    typ = case.get('nexus_type', 'absent')
    if typ != 'absent':
        from scippneutron.chopper.disk_chopper import DiskChopperType

        # the documented value of NXdisk_chopper.type for a single disk, in the types a file reader hands over
        d['type'] = {'DiskChopperType.single': DiskChopperType.single, 'str': NEXUS_TYPE_SINGLE,
                     'np.str_': np.str_(NEXUS_TYPE_SINGLE)}[typ]
    mapping = case.get('mapping', 'dict')
    if mapping == 'DataGroup':
        d = sc.DataGroup(d)
    elif mapping == 'MappingProxyType':
        d = types.MappingProxyType(d)
    elif mapping == 'custom Mapping':
        d = _plain_mapping(d)
    if case.get('form') == 'keyword':
        return DiskChopper.from_nexus(chopper=d)
    return DiskChopper.from_nexus(d)


def case_descr(case):
    arrays = ('begin', 'end', 'base_begin', 'base_end')
    d = {k: v for k, v in case.items() if k not in arrays}
    for k in arrays:
        if k in case:
            d[k] = [float(x) for x in case[k]]
    return d


def invalid_grid():
    """(class, number of slits, angle unit, construction path): every class for every number of
    slits it exists for (1..6, pairs need >= 2), deg and rad, every path; 0-d edges for one slit."""
    grid = []
    for cls in INVALID_ANY_N + INVALID_PAIR:
        for n in range(1 if cls in INVALID_ANY_N else 2, 7):
            for a_unit in ('deg', 'rad'):
                for via in INVALID_PATHS:
                    grid.append((cls, n, a_unit, via))
    for cls in INVALID_ANY_N:
        for a_unit in ('deg', 'rad'):
            grid.append((cls, 1, a_unit, 'ctor_scalar'))
    return grid


def valid_edge_grid(rep):
    grid = []
    paths = ('ctor', 'replace', 'nexus_edges', 'nexus_begin_end')
    for i, cls in enumerate(VALID_DRIVEN):
        for j, a_unit in enumerate(('deg', 'rad')):
            grid.append((cls, a_unit, paths[(i + 2 * j + rep) % 4]))
    for cls in VALID_CTOR_ONLY:
        for a_unit in ('deg', 'rad'):
            for via in paths:
                grid.append((cls, a_unit, via))
    return grid


# ------------------------------------------------------------------ driver ---
N_SHARDS = 14      # one wave on 16 cores together with the two environment-variant shards


def plan(tier, seed):
    n = 37 if tier == 'quick' else 1430
    reps = 1 if tier == 'quick' else 12
    return [{'choppers': n, 'grid_reps': reps, 'n_shards': N_SHARDS} for _ in range(N_SHARDS)]


def requirements(tier):
    big = tier != 'quick'
    ev = {
        'ctor.must_accept': 200, 'ctor.must_reject': 40,
        'freq.must_accept': 300, 'freq.must_reject': 100,
        'pair.direct': 100, 'intervals.direct': 1000, 'open_duration': 100,
        'cascade.npulses=1': 40, 'cascade.npulses=2': 40, 'cascade.npulses=3': 40,
        'cascade.npulses=4': 40, 'intervals.cascade': 2000,
        'angle_at_beam': 300, 'angle_at_beam.scalar_angle': 100,
    }
    if big:
        ev = {k: v * 20 for k, v in ev.items()}
    # the deterministic grid of forbidden slit sets: shards x reps x (classes x n x unit x path)
    g = N_SHARDS * (12 if big else 1)
    ev.update({
        'ctor.must_reject.reversed': 100 * g, 'ctor.must_reject.self_overlap': 100 * g,
        'ctor.must_reject.overlap': 150 * g,
        'from_nexus.must_reject.reversed': 50 * g, 'from_nexus.must_reject.self_overlap': 50 * g,
        'from_nexus.must_reject.overlap': 80 * g, 'from_nexus.must_accept': 10 * g,
    })
    ev['ctor.must_reject'] = max(ev['ctor.must_reject'], 400 * g)
    forced = ['overlap on the line', 'overlap only through TDC, end>360',
              'overlap only through TDC, negative begin', 'out-of-phase ratio',
              'ratio perturbed by 1e-7..1e-2', 'in-phase ratio perturbed below 1e-10',
              'ratio in the undecided band', 'clockwise', 'anticlockwise',
              'slit spans TDC: end>360', 'slit spans TDC: negative begin',
              'sub-harmonic chopper', 'chopper faster than source',
              'cascade npulses 1', 'cascade npulses 2', 'cascade npulses 3',
              'cascade npulses 4', 'chopper and source frequency in different units',
              # judged by the constructor monitor
              'single slit wider than a full turn', 'slit wider than a full turn among several',
              'reversed single slit', 'reversed slit among several', 'ctor: valid single slit',
              'from_nexus: reversed', 'from_nexus: self_overlap', 'from_nexus: overlap']
    forced += [f'forbidden set: {c}' for c in INVALID_ANY_N + INVALID_PAIR]
    forced += [f'forbidden set via {p}' for p in (*INVALID_PATHS, 'ctor_scalar')]
    forced += [f'forbidden set with {n} slit(s)' for n in range(1, 7)]
    forced += ['forbidden set in deg', 'forbidden set in rad', 'forbidden by a tiny amount']
    forced += [f'valid edge set: {c}' for c in VALID_DRIVEN + VALID_CTOR_ONLY]
    forced += ['valid set via replace']
    # round 6: the way the caller writes the chopper down and what happens between two computations
    reps = 12 if big else 1
    forced += [f'slit dimension named {d!r}' for d in DIM_NAMES]
    forced += [f'named slit dimension: {n} slit(s)' for n in range(1, 7)]
    forced += [f'named slit dimension: {x}' for x in ('clockwise', 'anticlockwise', 'ratio sub', 'ratio one',
                                                      'ratio ge')]
    forced += [f'constructor called {f}' for f in CTOR_FORMS]
    forced += [f'from_disk_chopper called {f}' for f in CASCADE_FORMS]
    forced += [f'from_nexus given a {m}' for m in NEXUS_MAPPINGS]
    forced += [f'from_nexus type: {t}' for t in NEXUS_TYPES]
    forced += [f'chopper is a {r}' for r in SUBCLASS_ROUTES]
    forced += [f'between computations: {n}' for n in PROTOCOL_OP_NAMES]
    forced += [f'sequence on slits: {r}' for r in SEQ_REPS]
    forced += [f'sequence on {d} edges in {u}' for d in SEQ_DTYPES for u in ('deg', 'rad')]
    forced += [f'variances on {w}' for w in VARIANCE_CARRIERS]
    forced += ['angle array of 2**20 + 7 elements', 'angle array of 3 x 400001 elements']
    ev.update({
        'state.fields_compared': 600 * reps, 'state.results_compared': 500 * reps,
        'graph.node_result_compared': 60 * reps, 'angle_at_beam.large_array': 2,
    })
    # round 7: structured slit sets x rational ratios, in-place modification, aliasing, sizes, non-NFC names,
    # first call in a fresh interpreter
    sg = struct_grid()
    forced += [f'structured slits: {struct_label(*k)}' for k in STRUCT_KINDS + STRUCT_CONTROLS]
    forced += [f'structured slits listed {x}' for x in STRUCT_LISTINGS]
    forced += [f'structured slits: {x}' for x in STRUCT_TDC + STRUCT_EXACT]
    forced += ['structured slits in deg', 'structured slits in rad']
    forced += [f'ratio {p}/{q} on structured slits' for p, q in PQ_RATIOS]
    forced += [f'rational ratio carried by: {m}' for m in STRUCT_MODES]
    forced += ['rational ratio, clockwise', 'rational ratio, anticlockwise',
               'rational ratio of whole-number frequencies']
    forced += [f'modified in place: {m}' for m in INPLACE_MODS] + ['results written in place']
    forced += [f'number of slits vs rotations: {n} slit(s) at ratio {label}' for label, _, n in size_grid()]
    forced += [f'slit dimension not in NFC/NFKC form: {d!a}' for d in NON_NFC_DIMS]
    forced += [f'first call in a fresh interpreter: {e}' for e in FRESH_ENTRIES]
    n_pq = len(sg) * len(PQ_RATIOS) * reps
    ev.update({
        'freq.must_reject.structured': 4 * n_pq, 'freq.must_accept.structured': 4 * len(sg) * reps,
        'freq.must_reject.inplace': 6 * reps,
        'inplace.second_call_compared': (len(INPLACE_MODS) + 1) * reps, 'alias.earlier_result_compared': len(INPLACE_MODS) * reps,
        'alias.result_written': 20 * reps, 'alias.repetition_compared': reps,
        'result.dim_name_compared': len(NON_NFC_DIMS) * reps, 'fresh.first_call_compared': len(FRESH_ENTRIES),
    })
    ev.update({f'freq.must_reject.structured.{e}': n_pq for e in STRUCT_ENTRIES})
    # round 8: frequencies inside the acceptance band (rotations of the documented span counted), slit layouts
    forced += [f'tolerance band: ratio {label}' for label, _, _ in BAND_RATIOS]
    forced += [f'tolerance band: {s} by {how} {x:g}' for s in ('below', 'above') for how, x in BAND_OFFSETS]
    forced += ['tolerance band: clockwise', 'tolerance band: anticlockwise']
    forced += [f'tolerance band, accepted and judged: {c}' for c in BAND_JUDGED]
    forced += [f'slit fields {lay}' for lay in SLIT_LAYOUTS]
    forced += [f'slit fields {lay} via {via}' for lay in SLIT_LAYOUTS for via in LAYOUT_VIAS]
    ev.update({'pair.direct.rotation_count': 100 * (20 if big else 1),
               'pair.direct.in_tolerance_band': 150 * reps, 'open_duration.in_tolerance_band': 150 * reps})
    for lay in SLIT_LAYOUTS:
        ev.update({f'pair.direct.slits {lay}': 12 * reps, f'open_duration.slits {lay}': 12 * reps,
                   f'cascade.slits {lay}': 30 * reps})
    return {
        'events': ev,
        'forced': forced,
        'counters': {'cascade_calls_in_phase': 150 * (20 if big else 1),
                     'named_dimension_choppers': len(dim_grid()) * reps,
                     'call_sequences': len(seq_grid()) * reps,
                     'structured_slit_sets': len(sg) * reps, 'structured_out_of_phase_calls': 4 * n_pq,
                     'inplace_sequences': len(INPLACE_MODS) * reps, 'size_cases': len(size_grid()) * reps,
                     'tolerance_band_choppers': len(band_grid()) * reps,
                     'slit_layout_choppers': len(layout_grid()) * reps},
    }


def call_cascade(Chopper, ch, fp, npulses, form='positional'):
    """Every calling convention the signature of from_disk_chopper allows; numpy integers for npulses."""
    if form == 'keyword':
        return Chopper.from_disk_chopper(disk_chopper=ch, pulse_frequency=fp, npulses=npulses)
    if form == 'mixed':
        return Chopper.from_disk_chopper(ch, fp, npulses=npulses)
    if form == 'np.int64':
        return Chopper.from_disk_chopper(ch, fp, np.int64(npulses))
    if form == 'np.int32':
        return Chopper.from_disk_chopper(ch, pulse_frequency=fp, npulses=np.int32(npulses))
    return Chopper.from_disk_chopper(ch, fp, npulses)


def check_state(mon, ctx, ch, op, reference=None, ignore=()):
    """The fields of the caller's chopper are bit-identical to what it was constructed with."""
    try:
        changed = mon.changed_fields(ch, reference, ignore)
    except Exception:  # noqa: BLE001
        ctx.oracle_error('C10 state')
        return True
    if changed is None:
        ctx.count('state.not_judged:construction not observed')
        return True
    ctx.event('state.fields_compared')
    if changed:
        fz = mon.view(ch if reference is None else reference)
        kind = 'state.fields_changed' if reference is None else 'state.copy_differs'
        now = {n: _describe_var(getattr(ch, n)) for n in changed if isinstance(getattr(ch, n, None), sc.Variable)}
        was = {n: _describe_var(getattr(fz, n)) for n in changed if isinstance(getattr(fz, n, None), sc.Variable)}
        ctx.violation(kind, (f'after {op}: field(s) {changed} of the chopper differ from the values it was '
                             f'constructed with' if reference is None else
                             f'{op}: field(s) {changed} of the copy differ from the original'),
                      dict(mon.case, op=op, fields=changed, now=now, constructed_with=was), op=op)
        return False
    return True


def drive(case, ch, ctx, Chopper, sig, pulses, forbidden=False, mon=None):
    """Every public call on an accepted chopper (judged by the monitors)."""
    fp = sc.scalar(case['fp'][0], unit=case['fp'][1])
    decided = case['band'] != 'undecided'
    in_phase = case['band'] in ('exact', 'accept')
    for name in ('time_offset_open', 'time_offset_close', 'open_duration'):
        try:
            getattr(ch, name)(pulse_frequency=fp)
        except Exception:  # noqa: BLE001  (judged by the monitor)
            pass
        if decided:
            ctx.case((name, *sig))
    # the documented building block, called the way a user would: any disk angle (scalar or array, deg or rad,
    # several turns), default and explicit numbers of rotations
    k = int(case.get('index', 0)) if isinstance(case.get('index', 0), int) else 0
    import zlib
    rng_a = np.random.Generator(np.random.PCG64([zlib.crc32(repr(sig).encode()), 10, 77]))
    dim = case.get('dim', 'slit')
    dim2 = DIM_NAMES[(DIM_NAMES.index(dim) + 1) % len(DIM_NAMES)] if dim in DIM_NAMES else 'slit'
    dims2 = ['a', 'b'] if dim == 'slit' else ([dim2, dim] if rng_a.random() < 0.5 else [dim, dim2])
    for form in range(3):
        unit = 'deg' if (form + k) % 2 == 0 else 'rad'
        scale = 360.0 if unit == 'deg' else 2 * np.pi
        if form == 0:
            ang = sc.scalar(float(rng_a.uniform(-2, 2)) * scale, unit=unit)
        elif form == 1:
            ang = sc.array(dims=[dim], values=rng_a.uniform(-1, 2, size=int(rng_a.integers(1, 6))) * scale, unit=unit)
        else:
            ang = sc.array(dims=dims2, values=rng_a.uniform(0, 1, size=(2, 3)) * scale, unit=unit)
        nrep = int(rng_a.integers(1, 4))
        kw = {} if form == 1 and k % 2 else {'n_repetitions': np.int64(nrep) if form == 2 else nrep}
        before = _fingerprint(ang)
        try:
            ch.time_offset_angle_at_beam(angle=ang, **kw)
        except Exception:  # noqa: BLE001  (judged by the monitor)
            pass
        if _fingerprint(ang) != before:
            ctx.violation('state.argument_changed', 'time_offset_angle_at_beam rewrote the angles it was given',
                          dict(case_descr(case), angle=_describe_var(ang)), op='time_offset_angle_at_beam')
        ctx.case(('time_offset_angle_at_beam', form, unit, *sig))
    for npulses in pulses:
        try:
            call_cascade(Chopper, ch, fp, npulses, case.get('cascade_form', 'positional'))
        except Exception:  # noqa: BLE001  (judged by the monitor)
            pass
        if decided:
            ctx.case(('from_disk_chopper', npulses, *sig))
        if in_phase and not forbidden:
            ctx.count('cascade_calls_in_phase')
            ctx.hit(f'cascade npulses {npulses}')
            ctx.hit(f'from_disk_chopper called {case.get("cascade_form", "positional")}')
    if mon is not None:
        # no public call rewrites the chopper it is called on
        check_state(mon, ctx, ch, 'the computational calls')


# ----------------------------------------------- call sequences on one object ---
class _Raised(str):
    pass


def _results(ch, fp, Chopper, ctx, full):
    """Fingerprints (dims, unit, dtype, raw bytes) of what the computational calls return now.  The calls
    are observed: every result is put on the disk the chopper was constructed as by the monitors."""
    out = {}
    calls = [('time_offset_open', lambda: ch.time_offset_open(pulse_frequency=fp)),
             ('time_offset_close', lambda: ch.time_offset_close(pulse_frequency=fp))]
    if full:
        calls += [('open_duration', lambda: ch.open_duration(pulse_frequency=fp)),
                  ('from_disk_chopper(1)', lambda: call_cascade(Chopper, ch, fp, 1)),
                  ('from_disk_chopper(3)', lambda: call_cascade(Chopper, ch, fp, 3, 'keyword'))]
    for name, f in calls:
        try:
            r = f()
            if isinstance(r, sc.Variable):
                out[name] = _fingerprint(r)
            else:
                out[name] = (_fingerprint(r.time_open), _fingerprint(r.time_close), _fingerprint(r.distance))
        except Exception as e:  # noqa: BLE001  (judged by the monitor)
            out[name] = _Raised(f'raised {type(e).__name__}')
    return out


def _compare_results(ctx, mon, base, now, op, kind='state.result_changed'):
    ctx.event('state.results_compared')
    diff = sorted(n for n in now if now[n] != base.get(n))
    if diff:
        ctx.violation(kind, f'after {op}: {diff} no longer return(s) what the same call on the same chopper '
                      'returned before' if kind == 'state.result_changed' else
                      f'{op}: {diff} of the copy differ(s) from the result of the same call on the original',
                      dict(mon.case, op=op, calls=diff), op=op)
    return not diff


def protocol_ops(ch, fp, Chopper, first_open):
    """(name, callable) for everything a user or a notebook does with a chopper object between two
    computations: display, text, copies, comparison, serialisation, property reads, use of the bound
    methods as nodes of a coordinate-transformation graph, a refused call that was caught."""
    import copy
    import dataclasses
    import pickle

    def graph(name):
        def run():
            da = sc.DataArray(sc.zeros(dims=first_open.dims, shape=first_open.shape),
                              coords={'pulse_frequency': fp})
            try:
                got = da.transform_coords(['t'], graph={'t': getattr(ch, name)}).coords['t']
            except Exception as e:  # noqa: BLE001
                return ('graph', name, e)
            return ('graph', name, got)
        return run

    def refused():
        bad = fp * 1.37     # no ratio n or 1/n of the quantifier stays one after division by 1.37
        for f in (lambda: ch.time_offset_open(pulse_frequency=bad), lambda: ch.open_duration(pulse_frequency=bad),
                  lambda: call_cascade(Chopper, ch, bad, 2)):
            try:
                f()
            except ValueError:
                pass

    return [
        ('make_svg()', lambda: ch.make_svg()),
        ('make_svg(np.int64)', lambda: ch.make_svg(np.int64(300))),
        ('make_svg(image_size=)', lambda: ch.make_svg(image_size=120)),
        ('_repr_svg_()', lambda: ch._repr_svg_()),
        ('_repr_html_()', lambda: ch._repr_html_()),
        ('repr', lambda: repr(ch)),
        ('str', lambda: str(ch)),
        ('copy.copy', lambda: copy.copy(ch)),
        ('copy.deepcopy', lambda: copy.deepcopy(ch)),
        ('dataclasses.replace()', lambda: dataclasses.replace(ch)),
        ('dataclasses.replace(radius=)', lambda: dataclasses.replace(ch, radius=sc.scalar(0.5, unit='m'))),
        ('==', lambda: (ch == copy.deepcopy(ch), ch == ch, ch != ch, ch == 5, ch == 'chopper') and None),
        ('pickle', lambda: pickle.loads(pickle.dumps(ch))),
        ('dataclasses.asdict', lambda: dataclasses.asdict(ch) and None),
        ('dataclasses.astuple', lambda: dataclasses.astuple(ch) and None),
        ('properties', lambda: (ch.n_slits, ch.angular_frequency, ch.is_clockwise) and None),
        ('transform_coords(time_offset_open)', graph('time_offset_open')),
        ('transform_coords(time_offset_close)', graph('time_offset_close')),
        ('transform_coords(open_duration)', graph('open_duration')),
        ('a refused call, caught', refused),
        ('the same calls again', lambda: None),
    ]


PROTOCOL_OP_NAMES = (
    'make_svg()', 'make_svg(np.int64)', 'make_svg(image_size=)', '_repr_svg_()', '_repr_html_()', 'repr', 'str',
    'copy.copy', 'copy.deepcopy', 'dataclasses.replace()', 'dataclasses.replace(radius=)', '==', 'pickle',
    'dataclasses.asdict', 'dataclasses.astuple', 'properties', 'transform_coords(time_offset_open)',
    'transform_coords(time_offset_close)', 'transform_coords(open_duration)', 'a refused call, caught',
    'the same calls again')


def drive_sequence(case, ch, ctx, mon, Chopper, DiskChopper, sig, k):
    """Computation, then each protocol operation, after each one: the chopper's fields are bit-identical
    to what it was constructed with and the same computation returns the same bits; a copy has the
    fields of the original and returns what the original returns (all results are judged against the
    disk as constructed by the monitors while they are computed)."""
    fp = sc.scalar(case['fp'][0], unit=case['fp'][1])
    base = _results(ch, fp, Chopper, ctx, full=True)
    if any(isinstance(v, _Raised) for v in base.values()):
        ctx.count('sequence.not_started:first computation raised')   # judged by the monitors
        return
    first_open = ch.time_offset_open(pulse_frequency=fp)
    check_state(mon, ctx, ch, 'the computational calls')
    ops = protocol_ops(ch, fp, Chopper, first_open)
    assert tuple(n for n, _ in ops) == PROTOCOL_OP_NAMES
    ops = ops[k % len(ops):] + ops[:k % len(ops)]          # every order of neighbours over the shards
    for name, op in ops:
        try:
            r = op()
        except Exception as e:  # noqa: BLE001
            # display / serialisation may be refused (integer edges cannot be drawn, scipp variables
            # cannot be pickled): tallied; what must hold is that the chopper is untouched
            r = None
            ctx.count(f'sequence.op_refused:{name}:{type(e).__name__}')
        ctx.hit(f'between computations: {name}')
        ctx.case(('sequence', name, *sig))
        ok = check_state(mon, ctx, ch, name)
        if isinstance(r, tuple) and r and r[0] == 'graph':
            ctx.event('graph.node_result_compared')
            want = getattr(ch, r[1])(pulse_frequency=fp)
            if isinstance(r[2], Exception):
                # an in-phase chopper with a valid slit set and the pulse frequency as the only coordinate the
                # documented signature asks for: a refusal is a refusal of a valid chopper
                ctx.violation('graph.raised', f'{r[1]} as node of a transform_coords graph raised '
                              f'{type(r[2]).__name__}: {r[2]}'[:300], dict(mon.case, op=name), op=r[1],
                              exc=type(r[2]).__name__)
            elif not sc.identical(r[2], want):
                ctx.violation('graph.result_differs', f'{r[1]} as node of a transform_coords graph gives a different '
                              'result than the direct call', dict(mon.case, op=name), op=r[1])
        if isinstance(r, DiskChopper):
            ignore = ('radius',) if 'radius' in name else ()
            same = check_state(mon, ctx, r, name, reference=ch, ignore=ignore)
            if same:
                mon.adopt(r, ch)
                _compare_results(ctx, mon, base, _results(r, fp, Chopper, ctx, full=True), name,
                                 kind='state.copy_result_differs')
                check_state(mon, ctx, ch, name + ', then computing with the copy')
        now = _results(ch, fp, Chopper, ctx, full=not ok or name.startswith(('make_svg()', '_repr', 'a refused')))
        same = _compare_results(ctx, mon, base, now, name)
        if not (ok and same):
            # the object is no longer the chopper that was constructed: what later operations do to it
            # says nothing about them
            ctx.count('sequence.stopped_after_state_change')
            return
    _compare_results(ctx, mon, base, _results(ch, fp, Chopper, ctx, full=True), 'the whole sequence')
    check_state(mon, ctx, ch, 'the whole sequence')


def hit_call_forms(ctx, case):
    via = case['via']
    if via in ('ctor', *SUBCLASS_ROUTES):
        ctx.hit(f'constructor called {case.get("form", "keyword")}')
    if via in SUBCLASS_ROUTES:
        ctx.hit(f'chopper is a {via}')
    if via.startswith('nexus'):
        ctx.hit(f'from_nexus given a {case.get("mapping", "dict")}')
        ctx.hit(f'from_nexus type: {case.get("nexus_type", "absent")}')


def deterministic_round6(shard, rep, ctx, mon, DiskChopper, Chopper):
    """Deterministic classes of every run, spread over the shards: item j of a grid is driven by shard
    j mod n_shards (only the numbers are drawn from the shard's generator)."""
    n_sh, me = int(shard.get('n_shards', N_SHARDS)), int(shard['index'])
    rng_d = np.random.Generator(np.random.PCG64([shard['seed'], shard['index'], 10, 3, rep]))

    def built(case):
        try:
            return build(case, DiskChopper)
        except Exception:  # noqa: BLE001  (judged by the monitors through PY_UNWIND)
            return None

    # -- valid choppers whose slit arrays carry any dimension name: openings as for any other name
    for j, (dim, n, sign, rc) in enumerate(dim_grid()):
        if (j + rep) % n_sh != me:
            continue
        case = gen_dim_case(rng_d, dim, n, sign, rc, j + rep)
        descr = case_descr(case)
        mon.new_case({'generated': descr})
        before = ctx.n_violations
        ch = built(case)
        name = dim if len(dim) < 20 else 'uuid-shaped'
        sig = ('named dimension', name, n, sign, rc, case['via'])
        ctx.case(('build', *sig))
        ctx.count('named_dimension_choppers')
        ctx.hit(f'slit dimension named {dim!r}')
        ctx.hit(f'named slit dimension: {n} slit(s)')
        ctx.hit('named slit dimension: ' + ('clockwise' if sign < 0 else 'anticlockwise'))
        ctx.hit(f'named slit dimension: ratio {rc}')
        hit_call_forms(ctx, case)
        if ch is not None:
            drive(case, ch, ctx, Chopper, sig, (1, 2, 3), mon=mon)
        if ctx.n_violations > before:
            ctx.sample(descr)
    # -- call sequences on one object: display / copies / comparison / graph use between computations
    for j, (srep, dtype, a_unit) in enumerate(seq_grid()):
        if (j + rep) % n_sh != me:
            continue
        case = gen_seq_case(rng_d, srep, dtype, a_unit, j + rep + me)
        descr = case_descr(case)
        mon.new_case({'generated': descr})
        before = ctx.n_violations
        ch = built(case)
        sig = ('sequence', srep, dtype, a_unit, case['ratio'], case['sign'])
        ctx.case(('build', *sig))
        ctx.count('call_sequences')
        ctx.hit(f'sequence on slits: {srep}')
        ctx.hit(f'sequence on {dtype} edges in {a_unit}')
        if ch is not None:
            drive_sequence(case, ch, ctx, mon, Chopper, DiskChopper, sig, j + rep + me)
        if ctx.n_violations > before:
            ctx.sample(descr)
    # -- operands with variances: values as without; a refusal (scipp's VariancesError) is tallied
    for j, where in enumerate(VARIANCE_CARRIERS):
        if (j + rep) % n_sh != me:
            continue
        case = gen_dim_case(rng_d, 'slit', 1 + j % 3, (-1, 1)[j % 2], ('one', 'ge', 'sub')[j % 3], 0)
        case.update(variances=where, via='ctor', form='keyword', cascade_form='positional')
        descr = case_descr(case)
        mon.new_case({'generated': descr})
        ch = built(case)
        ctx.hit(f'variances on {where}')
        ctx.case(('variances', where))
        ctx.count('variances:constructed' if ch is not None else 'variances:not constructed')
        if ch is None:
            continue
        fp = sc.scalar(case['fp'][0], unit=case['fp'][1], **({'variance': 1e-12} if where == 'pulse_frequency' else {}))
        ang = sc.array(dims=['slit'], values=[0.5, 2.0], unit='rad',
                       **({'variances': [1e-6, 1e-6]} if where == 'angle' else {}))
        for f in (lambda: ch.time_offset_open(pulse_frequency=fp), lambda: ch.time_offset_close(pulse_frequency=fp),
                  lambda: ch.open_duration(pulse_frequency=fp), lambda: ch.time_offset_angle_at_beam(angle=ang),
                  lambda: ch.time_offset_angle_at_beam(angle=ang['slit', 0], n_repetitions=2),
                  lambda: Chopper.from_disk_chopper(ch, fp, 2)):
            try:
                r = f()
                ctx.count('variances:call accepted')
                if getattr(r, 'variances', None) is not None:
                    ctx.count('variances:result variances not judged')
            except Exception:  # noqa: BLE001  (judged / tallied by the monitors)
                pass
    # -- sizes: one heavy call of the documented building block (last shard: the lightest)
    if me == n_sh - 1 and rep == 0:
        case = gen_dim_case(rng_d, 'slit', 2, -1, 'one', 1)
        mon.new_case({'generated': case_descr(case)})
        ch = built(case)
        if ch is not None:
            for label, dims, shape in (('2**20 + 7', ['slit'], (2 ** 20 + 7,)), ('3 x 400001', ['row', 'slit'], (3, 400001))):
                ang = sc.array(dims=dims, values=rng_d.uniform(-1.0, 2.0, size=shape) * 360.0, unit='deg')
                try:
                    ch.time_offset_angle_at_beam(angle=ang, n_repetitions=1)
                except Exception:  # noqa: BLE001  (judged by the monitor)
                    pass
                ctx.hit(f'angle array of {label} elements')
                ctx.case(('time_offset_angle_at_beam', 'large', label))
            check_state(mon, ctx, ch, 'the computational calls')


# ------------------------------------------------------------------ round 7 ---
# STRUCTURED SLIT SETS x RATIONAL FREQUENCY RATIOS.  "Frequencies that are not ... an integer multiple or divisor of
# the pulse frequency are rejected" is quantified over every chopper: the verdict depends on the ratio alone, not
# on what the disk looks like.  Slit sets with structure (rotational symmetry of order 2..6, a motif repeated 2 or 3
# times, slits as wide as the gaps, equal widths only, equal spacing only, a single slit), listed in any order, in
# deg and rad, spanning top-dead-centre in both notations or with a slit written on another turn, exactly
# structured or off by 1e-12 .. 1e-6, are put to every ratio p/q with q = 2..6, p = 2..12 (lowest terms, within
# 1/5 .. 10) through every entry point -- the ratio carried by the pulse frequency handed to the same chopper
# object, by dataclasses.replace(frequency=) or by a fresh construction, in float64 or in whole numbers -- and once
# to an in-phase ratio (all openings judged on the simulated disk).
PQ_RATIOS = tuple((p, q) for q in range(2, 7) for p in range(2, 13)
                  if np.gcd(p, q) == 1 and 0.2 <= p / q <= 10)
STRUCT_KINDS = (tuple(('symmetric', n, m) for n, m in ((2, 2), (3, 3), (4, 4), (5, 5), (6, 6), (4, 2), (6, 2), (6, 3)))
                + tuple(('slits as wide as gaps', m, m) for m in (2, 3, 4)))
STRUCT_CONTROLS = (tuple(('equal widths only', n, 1) for n in (2, 3, 4))
                   + tuple(('equal spacing only', n, 1) for n in (2, 3, 4)) + (('single slit', 1, 1),))
STRUCT_LISTINGS = ('ascending', 'descending', 'rotated', 'shuffled')
STRUCT_TDC = ('within_turn', 'end_gt_turn', 'negative_begin', 'other_turn')
STRUCT_EXACT = ('exact', 'off by 1e-12', 'off by 1e-9', 'off by 1e-6')
STRUCT_MODES = ('pulse frequency', 'replace(frequency=)', 'fresh construction')
STRUCT_ENTRIES = ('time_offset_open', 'time_offset_close', 'open_duration', 'from_disk_chopper')


def struct_label(kind, n, m):
    return f'{kind}, {n} slit(s)' + (f', order {m}' if m > 1 else '')


def struct_grid(rep=0):
    """(kind, listing, angle unit, TDC class): kind x listing x unit in full, the TDC class on two diagonals of the
    listing x TDC square that move with the repetition (all 16 pairs after two repetitions); the controls without
    structure shuffled, kind x unit x two TDC classes."""
    g = []
    for a, k in enumerate(STRUCT_KINDS):
        for b, lst in enumerate(STRUCT_LISTINGS):
            for c, u in enumerate(('deg', 'rad')):
                for d in (0, 2):
                    g.append((k, lst, u, STRUCT_TDC[(a + b + c + d + rep) % 4]))
    for a, k in enumerate(STRUCT_CONTROLS):
        for c, u in enumerate(('deg', 'rad')):
            for d in (0, 2):
                g.append((k, 'shuffled', u, STRUCT_TDC[(a + c + d + rep) % 4]))
    return g


def gen_structured(rng, kind, n, m, listing, a_unit, tdc, exact):
    """Slit set with the stated structure, in whole degrees (exact in float64; in rad: structured to rounding),
    ascending within [0, 360) first, then rotated / rewritten for the top-dead-centre class, perturbed, listed."""
    sector = 360 // m if m > 1 else 360
    if kind == 'symmetric':
        k = n // m
        while True:
            x = np.sort(rng.choice(np.arange(0, sector), size=2 * k, replace=False)).astype(float)
            bb, ww = x[0::2], x[1::2] - x[0::2]
            if ww.min() >= 2 and len(set(ww.tolist())) == k:
                break
        b = np.concatenate([bb + j * sector for j in range(m)])
        w = np.tile(ww, m)
    elif kind == 'slits as wide as gaps':
        wv = 180 // m
        b = float(rng.integers(0, sector - wv)) + np.arange(m) * float(sector)
        w = np.full(m, float(wv))
    elif kind == 'equal widths only':
        wv = int(rng.integers(2, 360 // n - 4))
        free = 360 - n * wv
        while True:
            cuts = np.sort(rng.choice(np.arange(1, free), size=n - 1, replace=False))
            g = np.diff(np.concatenate([[0], cuts, [free]]))
            if len(set(g.tolist())) > 1:
                break
        b = np.concatenate([[0.0], np.cumsum(wv + g[:-1])]).astype(float)
        w = np.full(n, float(wv))
    elif kind == 'equal spacing only':
        sp = 360 // n
        w = rng.choice(np.arange(2, sp - 2), size=n, replace=False).astype(float)
        b = float(rng.integers(0, sp - int(w.max()))) + np.arange(n) * float(sp)
    else:
        w = np.array([float(rng.integers(2, 300))])
        b = np.array([float(rng.integers(0, 360 - int(w[0])))])
    if tdc in ('end_gt_turn', 'negative_begin'):
        js = n - 1
        b = b + (360.0 - (b[js] + float(rng.integers(1, int(w[js])))))
        if tdc == 'negative_begin':
            b[js] -= 360.0
    elif tdc == 'other_turn':
        b[int(rng.integers(0, n))] += (360.0, -360.0, 720.0)[rng.integers(0, 3)]
    e = b + w
    if exact != 'exact':
        rel = float(exact.split()[-1]) * (-1.0, 1.0)[rng.integers(0, 2)]
        j = int(rng.integers(0, n))
        if rng.random() < 0.5:
            b[j] += rel * sector       # spacing off
            e[j] += rel * sector
        else:
            e[j] += rel * w[j]         # width off
    order = np.argsort(b, kind='stable')
    if listing == 'descending':
        order = order[::-1]
    elif listing == 'rotated' and n > 1:
        order = np.roll(order, int(rng.integers(1, n)))
    elif listing == 'shuffled':
        order = rng.permutation(n)
    b, e = b[order], e[order]
    if a_unit == 'rad':
        b, e = np.radians(b), np.radians(e)
    geo = slit_set_geometry(b * (1.0 if a_unit == 'rad' else np.pi / 180), e * (1.0 if a_unit == 'rad' else np.pi / 180),
                            GAP_BAND)
    if geo['verdict'] != 'valid' or geo['margin'] < 1e-3:
        raise AssertionError(f'structured slit set {kind} {n} {m} {tdc} is not valid: {geo}')
    return b, e


def struct_case(rng, item, kind, n, m, listing, a_unit, tdc, exact):
    b, e = gen_structured(rng, kind, n, m, listing, a_unit, tdc, exact)
    whole = item % 7 == 3      # both frequencies whole numbers (int64), same unit
    label, ratio = RATIOS[item % len(RATIOS)]
    sign = (-1, 1)[(item // 2) % 2]
    f_unit, fp_unit = F_UNITS[item % 3], F_UNITS[(item // 3) % 3]
    if whole:
        fp_unit = f_unit
        fp_val = 60 * (1, 2, 14)[item % 3]            # divisible by 2, 3, 4, 5, 6
        f_val = sign * int(round(ratio * fp_val))
        assert abs(abs(f_val) / fp_val - ratio) < 1e-15
        fp_hz = fp_val * F_UNIT_HZ[fp_unit]
    else:
        fp_hz = (14.0, 10.0, 50.0, 100 / 6, 60.0)[item % 5]
        fp_val = float(fp_hz / F_UNIT_HZ[fp_unit])
        f_val = float(sign * ratio * fp_hz / F_UNIT_HZ[f_unit])
    c = dict(structured=struct_label(kind, n, m), listing=listing, exactness=exact, n_slits=n, overlap=None,
             tdc=tdc, a_unit=a_unit, begin=b, end=e, dim='slit', fp=(fp_val, fp_unit), f=(f_val, f_unit),
             ratio=label, sign=sign, band='exact', whole_number_frequencies=whole, fp_hz=float(fp_hz),
             via=('ctor', 'nexus_edges', 'replace', 'nexus_begin_end')[item % 4], form=CTOR_FORMS[item % 3],
             cascade_form=CASCADE_FORMS[item % len(CASCADE_FORMS)], mapping=NEXUS_MAPPINGS[(item // 4) % 4],
             nexus_type=NEXUS_TYPES[(item // 5) % 4])
    gen_frame(rng, c)
    return c


def drive_rational(case, descr, ch, ctx, mon, DiskChopper, Chopper, item, m):
    """Every ratio p/q (q = 2..6) through every entry point: judged by the acceptance monitor from the ratio alone."""
    import dataclasses

    whole = case['whole_number_frequencies']
    f_unit, fp_unit = case['f'][1], case['fp'][1]
    fp0 = sc.scalar(case['fp'][0], unit=fp_unit)
    for r, (p, q) in enumerate(PQ_RATIOS):
        # (whole-number frequencies: always a new chopper, the source keeps its whole-number frequency)
        mode = STRUCT_MODES[1 + (item + r) % 2] if whole else STRUCT_MODES[(0, 1, 0, 0, 2, 0)[(item + r) % 6]]
        sign = (-1, 1)[(item + r // 3) % 2]
        c, fp = ch, fp0
        try:
            if mode == 'pulse frequency':
                f_abs_hz = abs(case['f'][0]) * F_UNIT_HZ[f_unit]
                fp = sc.scalar(float(f_abs_hz * q / p / F_UNIT_HZ[fp_unit]), unit=fp_unit)
                sign = case['sign']
            else:
                if whole:
                    f_val = sign * p * (case['fp'][0] // q)
                else:
                    f_val = float(sign * (p / q) * case['fp_hz'] / F_UNIT_HZ[f_unit])
                mon.case = {'generated': descr, 'class': 'structured', 'ratio_p_q': [p, q], 'ratio_carried_by': mode,
                            'frequency': [f_val, f_unit]}
                if mode == 'replace(frequency=)':
                    c = dataclasses.replace(ch, frequency=sc.scalar(f_val, unit=f_unit))
                else:
                    c = build(dict(case, f=(f_val, f_unit)), DiskChopper)
        except Exception:  # noqa: BLE001  (a refused construction is judged by the constructor monitor)
            ctx.count('structured:chopper for a rational ratio not constructed')
            continue
        mon.case = {'generated': descr, 'class': 'structured', 'ratio_p_q': [p, q], 'ratio_carried_by': mode,
                    'frequency': [float(c.frequency.value), str(c.frequency.unit)],
                    'pulse_frequency': [float(fp.value), str(fp.unit)]}
        npulses = (q if (item + r) % 2 else (1, 2, 3, 4, min(m, 4))[((item + r) // 2) % 5],)
        calls = [(name, (lambda nm: lambda: getattr(c, nm)(pulse_frequency=fp))(name)) for name in STRUCT_ENTRIES[:3]]
        calls += [('from_disk_chopper', (lambda k: lambda: call_cascade(Chopper, c, fp, k, CASCADE_FORMS[(item + r + k) % 5]))(k))
                  for k in npulses]
        for name, f in calls:
            try:
                f()
            except Exception:  # noqa: BLE001  (judged by the monitor)
                pass
            ctx.case((name, 'structured', case['structured'], q, mode, sign))
            ctx.count('structured_out_of_phase_calls')
        ctx.hit(f'ratio {p}/{q} on structured slits')
        ctx.hit(f'rational ratio carried by: {mode}')
        ctx.hit('rational ratio, ' + ('clockwise' if sign < 0 else 'anticlockwise'))
        if whole:
            ctx.hit('rational ratio of whole-number frequencies')


# IN-PLACE MODIFICATION BETWEEN TWO CALLS / ALIASING OF RESULTS AND ARGUMENTS.  scipp variables are mutable: a caller
# may rewrite the pulse frequency, an angle array or a field of the chopper in place and call again with the very
# same objects.  What is reported then is judged (by the monitors) against the disk with the NEW contents and
# compared bit for bit with the same calls on a chopper freshly constructed from copies of the new contents; results
# obtained earlier keep their bits; writing into a result changes neither the chopper nor the arguments nor what a
# repetition of the call returns.
INPLACE_MODS = ('pulse_frequency.value to another in-phase ratio', 'pulse_frequency.value out of phase',
                'pulse_frequency.unit', 'pulse_frequency *= 2', 'frequency.value to another in-phase ratio',
                'frequency.value out of phase', 'frequency sign', 'frequency.unit', 'phase.value', 'phase.unit',
                'beam_position +=', 'slit_begin element', 'slit_end slice', 'slit edges to the other angle unit',
                'out of phase, then in phase again')


def _call_all(ch, fp, ang, Chopper):
    """name -> result object or _Raised, for every computational entry point."""
    out = {}
    for name, f in (('time_offset_open', lambda: ch.time_offset_open(pulse_frequency=fp)),
                    ('time_offset_close', lambda: ch.time_offset_close(pulse_frequency=fp)),
                    ('open_duration', lambda: ch.open_duration(pulse_frequency=fp)),
                    ('time_offset_angle_at_beam', lambda: ch.time_offset_angle_at_beam(angle=ang, n_repetitions=2)),
                    ('time_offset_angle_at_beam(scalar)', lambda: ch.time_offset_angle_at_beam(angle=ang[ang.dims[-1], 0])),
                    ('from_disk_chopper(1)', lambda: call_cascade(Chopper, ch, fp, 1)),
                    ('from_disk_chopper(3)', lambda: call_cascade(Chopper, ch, fp, 3, 'keyword'))):
        try:
            out[name] = f()
        except Exception as e:  # noqa: BLE001  (judged by the monitor)
            out[name] = _Raised(f'raised {type(e).__name__}')
    return out


def _parts(r):
    """The variables a result consists of."""
    if isinstance(r, sc.Variable):
        return {'': r}
    if isinstance(r, _Raised):
        return {}
    return {'.time_open': r.time_open, '.time_close': r.time_close, '.distance': r.distance}


def _bits_of(res):
    return {n: (r if isinstance(r, _Raised) else tuple(_fingerprint(v) for v in _parts(r).values()))
            for n, r in res.items()}


def _fresh_twin(ch, DiskChopper):
    """A chopper constructed from copies of the current contents of ``ch`` (no object in common with it)."""
    return DiskChopper(**{n: (v.copy() if isinstance(v, sc.Variable) else v)
                          for n in FIELD_NAMES for v in [getattr(ch, n)]})


def _f_unit_name(v):
    for name in F_UNITS:
        if v.unit == sc.Unit(name):
            return name
    raise AssertionError(str(v.unit))


def apply_inplace(mod, ch, fp, rng):
    """Rewrite one operand in place.  Returns True when the new contents are still an in-phase chopper."""
    ratio = abs(_scalar(ch.frequency)) / _scalar(fp)
    other = 2.0 if ratio < 1.5 else 0.5           # ratio n -> 2n or n/2, 1/n -> 2/n (n = 2, 4: 1, 1/2) or ...
    if mod.startswith('pulse_frequency.value to another'):
        # halve or double the source frequency: ratio r -> 2r or r/2; r in {1/2, 1, 2, 4} stays n or 1/n
        fp.value = fp.value / other
    elif mod == 'pulse_frequency.value out of phase':
        fp.value = fp.value * 1.37
        return False
    elif mod == 'pulse_frequency.unit':
        # another unit and the value that makes it twice / half the frequency it was
        new = {'Hz': 'kHz', 'kHz': '1/min', '1/min': 'Hz'}[_f_unit_name(fp)]
        hz = float(_scalar(fp))
        fp.unit = new
        fp.value = hz / F_UNIT_HZ[new] * (2.0 if ratio >= 1.5 else 0.5)
    elif mod == 'pulse_frequency *= 2':
        if ratio >= 1.5:
            fp *= 2.0
        else:
            fp *= 0.5
    elif mod.startswith('frequency.value to another'):
        f = ch.frequency
        f.value = f.value * other
    elif mod == 'frequency.value out of phase':
        f = ch.frequency
        f.value = f.value * 1.37
        return False
    elif mod == 'frequency sign':
        f = ch.frequency
        f *= -1.0
    elif mod == 'frequency.unit':
        f = ch.frequency
        hz = float(_scalar(f))
        new = {'Hz': '1/min', 'kHz': 'Hz', '1/min': 'kHz'}[_f_unit_name(f)]
        f.unit = new
        f.value = hz / F_UNIT_HZ[new] * other
    elif mod == 'phase.value':
        ch.phase.value = float(ch.phase.value) + float(rng.uniform(0.3, 2.5))
    elif mod == 'phase.unit':
        v = ch.phase
        new = 'rad' if str(v.unit) == 'deg' else 'deg'
        v.unit = new          # the same number, now in the other unit: another phase
    elif mod == 'beam_position +=':
        v = ch.beam_position
        v += sc.scalar(float(rng.uniform(0.2, 2.0)), unit='rad').to(unit=v.unit)
    elif mod == 'slit_begin element':
        b, e = ch.slit_begin, ch.slit_end
        j = int(rng.integers(0, b.shape[0]))
        b.values[j] = b.values[j] + 0.5 * (e.values[j] - b.values[j])       # the slit is half as wide now
    elif mod == 'slit_end slice':
        b, e = ch.slit_begin, ch.slit_end
        d = e.dims[0]
        e[d, 0:1] = (b[d, 0:1] + 0.25 * (e[d, 0:1] - b[d, 0:1])).copy()
    elif mod == 'slit edges to the other angle unit':
        for v in (ch.slit_begin, ch.slit_end):
            if str(v.unit) == 'deg':
                v.values = np.radians(v.values) * 0.5     # every slit half as far round and half as wide
                v.unit = 'rad'
            else:
                v.values = np.degrees(v.values) * 0.5
                v.unit = 'deg'
    else:
        raise AssertionError(mod)
    return True


def drive_inplace(mod, case, ch, ctx, mon, DiskChopper, Chopper, rng):
    fp = sc.scalar(case['fp'][0], unit=case['fp'][1])
    ang = sc.array(dims=[case.get('dim', 'slit')], values=rng.uniform(-1.0, 2.0, size=4) * _turn(case['a_unit']),
                   unit=case['a_unit'])
    descr = case_descr(case)
    first = _call_all(ch, fp, ang, Chopper)
    first_bits = _bits_of(first)
    if any(isinstance(r, _Raised) for r in first.values()):
        ctx.count('inplace.not_started:first computation raised')      # judged by the monitors
        return
    check_state(mon, ctx, ch, 'the computational calls')
    steps = ('pulse_frequency.value out of phase', 'pulse_frequency.value back') if mod.startswith('out of phase, then') \
        else (mod,)
    fp_before = fp.copy()
    for step in steps:
        if step == 'pulse_frequency.value back':
            fp.value = fp_before.value
            in_phase = True
        else:
            in_phase = apply_inplace(step, ch, fp, rng)
        mon.rebase(ch)
        mon.case = {'generated': descr, 'class': 'inplace', 'modified_in_place': step,
                    'chopper_now': _describe(ch), 'pulse_frequency_now': [float(fp.value), str(fp.unit)]}
        # (l1) results obtained earlier keep their bits although an argument was rewritten
        ctx.event('alias.earlier_result_compared')
        now_first = _bits_of(first)
        changed = sorted(n for n in first_bits if now_first[n] != first_bits[n])
        if changed:
            ctx.violation('alias.result_changed_with_argument', f'after {step} (in place): the result(s) of {changed} '
                          'obtained BEFORE the modification changed with it', dict(mon.case, calls=changed), op=step)
        # (k) the very same objects again: judged by the monitors against the new contents ...
        second = _call_all(ch, fp, ang, Chopper)
        for name, r in second.items():
            ctx.case(('inplace', step, name))
        # ... and bit for bit what a chopper constructed from copies of the new contents returns
        try:
            twin = _fresh_twin(ch, DiskChopper)
        except Exception:  # noqa: BLE001
            ctx.oracle_error('C10 inplace twin')
            return
        want = _bits_of(_call_all(twin, fp.copy(), ang.copy(), Chopper))
        got = _bits_of(second)
        ctx.event('inplace.second_call_compared')
        stale = sorted(n for n in want if got[n] != want[n])
        if stale:
            same_as_before = sorted(n for n in stale if got[n] == first_bits[n])
            ctx.violation('inplace.stale_result', f'after {step} (in place) {stale} called with the very same objects do(es) '
                          'not return what a chopper constructed from the new contents returns'
                          + (f'; {same_as_before} still return(s) the bits from before the modification' if same_as_before else ''),
                          dict(mon.case, calls=stale, identical_to_result_before=same_as_before), op=step,
                          stale=bool(same_as_before))
        if not in_phase:
            refused = [n for n in ('time_offset_open', 'time_offset_close', 'open_duration', 'from_disk_chopper(1)',
                                   'from_disk_chopper(3)') if isinstance(second[n], _Raised)]
            ctx.count('inplace.out_of_phase_refusals', len(refused))
    ctx.hit(f'modified in place: {mod}')
    ctx.count('inplace_sequences')


def drive_alias(case, ch, ctx, mon, Chopper, rng):
    """(l2) write in place into every result: the chopper, the pulse frequency and the angles keep their bits and a
    repetition of the call returns the original bits."""
    fp = sc.scalar(case['fp'][0], unit=case['fp'][1])
    ang = sc.array(dims=[case.get('dim', 'slit')], values=rng.uniform(-1.0, 2.0, size=4) * _turn(case['a_unit']),
                   unit=case['a_unit'])
    first = _call_all(ch, fp, ang, Chopper)
    if any(isinstance(r, _Raised) for r in first.values()):
        ctx.count('alias.not_started:first computation raised')
        return
    base = _bits_of(first)
    fp_bits, ang_bits = _fingerprint(fp), _fingerprint(ang)
    for name, r in first.items():
        for part, v in _parts(r).items():
            for how in ('values', 'scale', 'unit'):
                try:
                    if how == 'values':
                        v.values = np.full(v.shape, np.nan) if v.ndim else np.nan
                    elif how == 'scale':
                        v *= -3.0
                    else:
                        v.unit = 'K'
                except Exception as e:  # noqa: BLE001
                    ctx.count(f'alias.result_not_writable:{how}:{type(e).__name__}')
                    continue
                ctx.event('alias.result_written')
                ok = check_state(mon, ctx, ch, f'writing into the result of {name}{part}')
                if _fingerprint(fp) != fp_bits or _fingerprint(ang) != ang_bits:
                    ok = False
                    ctx.violation('alias.argument_changed_with_result', f'writing ({how}) into the result of {name}{part} '
                                  'changed ' + ('the pulse frequency' if _fingerprint(fp) != fp_bits else 'the angles')
                                  + ' it was computed from', dict(mon.case, call=name, part=part), call=name)
                if not ok:
                    return
        ctx.case(('alias', name))
    again = _bits_of(_call_all(ch, fp, ang, Chopper))
    ctx.event('alias.repetition_compared')
    diff = sorted(n for n in base if again[n] != base[n])
    if diff:
        ctx.violation('alias.result_not_reproduced', f'after writing into the results, {diff} no longer return(s) what '
                      'the same call on the same objects returned before', dict(mon.case, calls=diff), calls_n=len(diff))
    ctx.hit('results written in place')


# SIZES THAT COINCIDE with the sizes used inside: the rotations -1 .. n-1 (n + 1 of them, n = frequency ratio for the
# direct calls, ceil(npulses x ratio) for the cascade), the 2 edges of a slit: number of slits / angles of exactly
# that length, one below, one above (monitors judge every call).
def size_grid():
    g = []
    for label, ratio in (('1/2', 0.5), ('1', 1.0), ('2', 2.0), ('3', 3.0), ('4', 4.0)):
        nrep = max(int(ratio), 1)
        for n in sorted({x for x in (nrep, nrep + 1, nrep + 2, 2, 3) if 1 <= x <= 6}):
            g.append((label, ratio, n))
    return g


# DIMENSION NAMES THAT ARE NOT IN NFC / NFKC FORM: every string is used code point by code point.
NON_NFC_DIMS = ('e\u0301dge', '\u212b', '\u212a', '\u2126', '\u00b5s', '\uff53\uff4c\uff49\uff54', 'sl\ufb01t',
                '\u1109\u1173\u11af', 'slit\u037e')


def check_result_dims(ctx, mon, ch, fp, Chopper, dim):
    """1-d slit arrays along ``dim``: the openings are reported along the very same name."""
    try:
        got = {'time_offset_open': ch.time_offset_open(pulse_frequency=fp).dims,
               'open_duration': ch.open_duration(pulse_frequency=fp).dims,
               'time_offset_angle_at_beam': ch.time_offset_angle_at_beam(angle=ch.slit_begin).dims,
               'from_disk_chopper': call_cascade(Chopper, ch, fp, 2).time_open.dims}
    except Exception:  # noqa: BLE001  (judged by the monitors)
        return
    ctx.event('result.dim_name_compared')
    bad = {k: list(v) for k, v in got.items() if tuple(v) != (dim,)}
    if bad:
        ctx.violation('result.dim_name', f'slit arrays along {dim!r} ({[hex(ord(c)) for c in dim]}): results along {bad}',
                      dict(mon.case, dims=bad), calls_n=len(bad))


# FIRST CALL IN A FRESH INTERPRETER: only the module of the entry point is imported (and scipp / numpy to write the
# operands down); the bits must be those the worker process gets.
FRESH_SCRIPT = r'''
import json, sys
import numpy as np
import scipp as sc
spec = json.loads(sys.argv[1])
out = {}
def var(d):
    if d is None:
        return None
    if d['kind'] == 'vector':
        return sc.vector(d['values'], unit=d['unit'])
    if d['dims']:
        return sc.array(dims=d['dims'], values=np.array(d['values'], dtype=d['dtype']), unit=d['unit'])
    return sc.scalar(np.array(d['values'], dtype=d['dtype'])[()], unit=d['unit'])
def enc(v):
    return {'dims': list(v.dims), 'unit': str(v.unit), 'dtype': str(v.dtype), 'hex': np.ascontiguousarray(v.values).tobytes().hex()}
fields = {k: var(v) for k, v in spec['fields'].items()}
fp = var(spec['pulse_frequency'])
which = spec['entry']
try:
    if which == 'from_disk_chopper':
        from scippneutron.tof.chopper_cascade import Chopper
        import scippneutron.chopper.disk_chopper as m
        r = Chopper.from_disk_chopper(m.DiskChopper(**fields), fp, spec['npulses'])
        out['result'] = [enc(r.time_open), enc(r.time_close), enc(r.distance)]
    else:
        import scippneutron.chopper.disk_chopper as m
        ch = m.DiskChopper(**fields)
        if which == 'time_offset_angle_at_beam':
            r = ch.time_offset_angle_at_beam(angle=var(spec['angle']), n_repetitions=spec['n_repetitions'])
        else:
            r = getattr(ch, which)(pulse_frequency=fp)
        out['result'] = [enc(r)]
except BaseException as e:
    out['raised'] = type(e).__name__ + ': ' + str(e)[:300]
out['modules'] = sorted(k for k in sys.modules if k.startswith('scippneutron'))
print('RESULT' + json.dumps(out))
'''
FRESH_ENTRIES = ('time_offset_open', 'time_offset_close', 'open_duration', 'time_offset_angle_at_beam', 'from_disk_chopper')


def _var_spec(v):
    if v is None:
        return None
    if v.dtype == sc.DType.vector3:
        return {'kind': 'vector', 'values': [float(x) for x in v.value], 'unit': str(v.unit)}
    return {'kind': 'array', 'dims': list(v.dims), 'values': np.asarray(v.values).tolist(), 'dtype': str(v.dtype),
            'unit': str(v.unit)}


def _enc(v):
    return {'dims': list(v.dims), 'unit': str(v.unit), 'dtype': str(v.dtype),
            'hex': np.ascontiguousarray(v.values).tobytes().hex()}


def fresh_interpreter_call(entry, case, ch, ctx, mon, Chopper, rng):
    import json
    import os
    import subprocess
    import sys

    fp = sc.scalar(case['fp'][0], unit=case['fp'][1])
    spec = {'entry': entry, 'fields': {n: _var_spec(getattr(ch, n)) for n in FIELD_NAMES},
            'pulse_frequency': _var_spec(fp), 'npulses': 3, 'n_repetitions': 2}
    ang = sc.array(dims=['slit'], values=rng.uniform(-1.0, 2.0, size=3) * _turn(case['a_unit']), unit=case['a_unit'])
    spec['angle'] = _var_spec(ang)
    try:
        if entry == 'from_disk_chopper':
            r = call_cascade(Chopper, ch, fp, 3)
            here = [_enc(r.time_open), _enc(r.time_close), _enc(r.distance)]
        elif entry == 'time_offset_angle_at_beam':
            here = [_enc(ch.time_offset_angle_at_beam(angle=ang, n_repetitions=2))]
        else:
            here = [_enc(getattr(ch, entry)(pulse_frequency=fp))]
    except Exception:  # noqa: BLE001  (judged by the monitors)
        ctx.count('fresh.not_judged:call raised in the worker')
        return
    env = dict(os.environ)        # PYTHONPATH of the worker: the tree under test first
    try:
        p = subprocess.run([sys.executable, '-c', FRESH_SCRIPT, json.dumps(spec)], env=env, capture_output=True,
                           text=True, timeout=300)
        line = [x for x in p.stdout.splitlines() if x.startswith('RESULT')]
        if not line:
            ctx.count('fresh.harness_failed')
            ctx.inconclusive_because(f'C10 fresh interpreter: no result ({p.stderr[-300:]!r})')
            return
        out = json.loads(line[-1][len('RESULT'):])
    except Exception:  # noqa: BLE001
        ctx.oracle_error('C10 fresh interpreter')
        return
    ctx.event('fresh.first_call_compared')
    ctx.hit(f'first call in a fresh interpreter: {entry}')
    ctx.case(('fresh interpreter', entry))
    wcase = dict(mon.case, entry=entry, modules_imported=out.get('modules'))
    if 'raised' in out:
        ctx.violation('fresh.raised', f'{entry} as the first call in a fresh interpreter raised {out["raised"]}; the '
                      'same call in the worker process returned', wcase, entry=entry)
    elif out['result'] != here:
        ctx.violation('fresh.result_differs', f'{entry} as the first call in a fresh interpreter returns other bits than '
                      'in the worker process', dict(wcase, fresh=out['result'], worker=here), entry=entry)


def deterministic_round7(shard, rep, ctx, mon, DiskChopper, Chopper):
    n_sh, me = int(shard.get('n_shards', N_SHARDS)), int(shard['index'])
    rng_d = np.random.Generator(np.random.PCG64([shard['seed'], shard['index'], 10, 4, rep]))

    def built(case):
        try:
            return build(case, DiskChopper)
        except Exception:  # noqa: BLE001  (judged by the monitors through PY_UNWIND)
            return None

    # -- structured slit sets x rational ratios
    for j, ((kind, n, m), listing, a_unit, tdc) in enumerate(struct_grid(rep)):
        if (j + rep) % n_sh != me:
            continue
        structured = (kind, n, m) in STRUCT_KINDS
        exact = STRUCT_EXACT[(j // n_sh + j + rep) % 4] if structured else 'exact'
        case = struct_case(rng_d, j + rep, kind, n, m, listing, a_unit, tdc, exact)
        descr = case_descr(case)
        mon.new_case({'generated': descr, 'class': 'structured'})
        before = ctx.n_violations
        ch = built(case)
        sig = ('structured', case['structured'], listing, a_unit, tdc, exact, case['ratio'], case['sign'])
        ctx.case(('build', *sig))
        ctx.count('structured_slit_sets')
        ctx.hit(f'structured slits: {case["structured"]}')
        ctx.hit(f'structured slits listed {listing}')
        ctx.hit(f'structured slits in {a_unit}')
        ctx.hit(f'structured slits: {tdc}')
        if structured:
            ctx.hit(f'structured slits: {exact}')
        if ch is None:
            ctx.count('structured:not constructed')
        else:
            drive(case, ch, ctx, Chopper, sig, (1, 2, 3) if j % 2 else (2, 4), mon=mon)
            drive_rational(case, descr, ch, ctx, mon, DiskChopper, Chopper, j + rep, m)
        if ctx.n_violations > before:
            ctx.sample(descr)
    # -- in-place modification between two calls; results written in place
    for j, mod in enumerate((*INPLACE_MODS, 'alias')):
        if (j + rep) % n_sh != me and not (me == 0 and j % 5 == rep % 5):
            continue
        case = gen_dim_case(rng_d, ('slit', 'edge', 'x')[j % 3], 1 + (j + rep) % 4, (-1, 1)[j % 2], 'one', j)
        # ratio 1, 2 or 4 of either sense, same or different frequency units (halved / doubled it stays n or 1/n)
        r0 = (1.0, 2.0, 4.0, 0.5)[(j + rep) % 4]
        case['f'] = (case['f'][0] * r0, case['f'][1])
        case['ratio'] = {1.0: '1', 2.0: '2', 4.0: '4', 0.5: '1/2'}[r0]
        case.update(via='ctor', form='keyword', cascade_form='positional', inplace=mod)
        mon.new_case({'generated': case_descr(case), 'class': 'inplace'})
        before = ctx.n_violations
        ch = built(case)
        if ch is None:
            ctx.count('inplace:not constructed')
            continue
        if mod == 'alias':
            drive_alias(case, ch, ctx, mon, Chopper, rng_d)
        else:
            drive_inplace(mod, case, ch, ctx, mon, DiskChopper, Chopper, rng_d)
        if ctx.n_violations > before:
            ctx.sample(case_descr(case))
    # -- sizes that coincide with the number of rotations / the two edges of a slit
    for j, (label, ratio, n) in enumerate(size_grid()):
        if (j + rep) % n_sh != me:
            continue
        case = gen_dim_case(rng_d, 'slit', n, (-1, 1)[j % 2], 'one', j)
        case['f'] = (case['f'][0] * ratio, case['f'][1])
        case.update(ratio=label, via='ctor', size_class=f'{n} slits at ratio {label}')
        mon.new_case({'generated': case_descr(case), 'class': 'sizes'})
        ch = built(case)
        sig = ('sizes', label, n, case['sign'])
        ctx.case(('build', *sig))
        ctx.hit(f'number of slits vs rotations: {n} slit(s) at ratio {label}')
        if ch is None:
            continue
        drive(case, ch, ctx, Chopper, sig, (1, 2, 3), mon=mon)
        nrep = max(int(ratio), 1)
        for ln in sorted({nrep, nrep + 1, nrep + 2, 2, 3}):
            for shape, dims in (((ln,), ['slit']), ((ln, ln), ['row', 'slit']), ((2, ln), ['range', 'slit'])):
                a = sc.array(dims=dims, values=rng_d.uniform(-1.0, 2.0, size=shape) * 360.0, unit='deg')
                try:
                    ch.time_offset_angle_at_beam(angle=a, n_repetitions=nrep)
                except Exception:  # noqa: BLE001  (judged by the monitor)
                    pass
                ctx.case(('time_offset_angle_at_beam', 'sizes', len(shape), ln - nrep))
        ctx.count('size_cases')
    # -- dimension names that are not in NFC / NFKC form
    for j, dim in enumerate(NON_NFC_DIMS):
        if (j + rep) % n_sh != me:
            continue
        case = gen_dim_case(rng_d, dim, 1 + (j + rep) % 6, (-1, 1)[j % 2], ('sub', 'one', 'ge')[(j + rep) % 3], j + rep)
        descr = case_descr(case)
        mon.new_case({'generated': descr, 'class': 'non-NFC dimension name'})
        before = ctx.n_violations
        ch = built(case)
        sig = ('non-NFC dimension', j, case['n_slits'], case['sign'], case['ratio_class'], case['via'])
        ctx.case(('build', *sig))
        ctx.hit(f'slit dimension not in NFC/NFKC form: {dim!a}')
        if ch is not None:
            drive(case, ch, ctx, Chopper, sig, (1, 2), mon=mon)
            check_result_dims(ctx, mon, ch, sc.scalar(case['fp'][0], unit=case['fp'][1]), Chopper, dim)
        else:
            ctx.count('non_nfc:not constructed')
        if ctx.n_violations > before:
            ctx.sample(descr)
    # -- first call in a fresh interpreter (one entry point per shard: the cascade on shard 0, the others on 1, 3, 5, 7)
    for j, entry in enumerate(FRESH_ENTRIES):
        if rep != 0 or me != (0 if entry == 'from_disk_chopper' else 1 + 2 * j):
            continue
        case = gen_dim_case(rng_d, 'slit', 2 + j % 3, (-1, 1)[(j + me) % 2], ('ge', 'one', 'sub')[(j + me) % 3], 0)
        case.update(via='ctor', form='keyword')
        mon.new_case({'generated': case_descr(case), 'class': 'fresh interpreter'})
        ch = built(case)
        if ch is not None:
            fresh_interpreter_call(entry, case, ch, ctx, mon, Chopper, rng_d)


# ------------------------------------------ round 8: tolerance band, slit layouts ---
# Frequencies INSIDE the acceptance band ("to a relative tolerance of about 1e-8"): every integer ratio 1..8
# and the sub-harmonics, both sides, both senses.  The tolerance may be read as relative to the ratio or as an
# absolute distance of the ratio (of its reciprocal for a sub-harmonic) from the integer: both are driven.
BAND_RATIOS = ([('1/4', 'divisor', 4), ('1/3', 'divisor', 3), ('1/2', 'divisor', 2)]
               + [(str(n), 'multiple', n) for n in range(1, 9)])
BAND_OFFSETS = ([('relative', x) for x in (1e-12, 1e-11, 1e-10, 1e-9, 3e-9, 6e-9, 8e-9, 1e-8)]
                + [('absolute', x) for x in (3e-9, 6e-9, 8e-9, 1e-8)])
BAND_JUDGED = [f'{k}, {s} the integer by {d}' for k in ('multiple', 'divisor') for s in ('below', 'above')
               for d in ('< 1e-10', '1e-10 .. 1e-9', '1e-9 .. 5e-9', '5e-9 .. 1e-8')]
SLIT_LAYOUTS = ('0-d', 'length-1', 'length-n')
LAYOUT_VIAS = ('ctor', 'replace', 'nexus_begin_end', 'subclass_override')


def band_grid():
    return [(r, sign, side, off) for r in BAND_RATIOS for sign in (-1, 1) for side in (-1, 1)
            for off in BAND_OFFSETS]


def layout_grid():
    return [(lay, via, sign, rc) for lay in SLIT_LAYOUTS for via in LAYOUT_VIAS for sign in (-1, 1)
            for rc in RATIO_CLASSES]


def band_ratio(kind, n, side, off):
    how, x = off
    if how == 'relative':
        base = float(n) if kind == 'multiple' else 1.0 / n
        return base * (1.0 + side * x)
    return n + side * x if kind == 'multiple' else 1.0 / (n + side * x)


def deterministic_round8(shard, rep, ctx, mon, DiskChopper, Chopper):
    n_sh, me = int(shard.get('n_shards', N_SHARDS)), int(shard['index'])
    rng_d = np.random.Generator(np.random.PCG64([shard['seed'], shard['index'], 10, 5, rep]))

    def built(case):
        try:
            return build(case, DiskChopper)
        except Exception:  # noqa: BLE001  (judged by the monitors through PY_UNWIND)
            return None

    # -- frequencies inside the acceptance band, on both sides of every integer ratio and sub-harmonic
    for j, ((label, kind, n), sign, side, off) in enumerate(band_grid()):
        if (j + rep) % n_sh != me:
            continue
        case = gen_dim_case(rng_d, 'slit', 1 + (j + rep) % 4, sign, 'one', j + rep)
        fp_hz = (14.0, 10.0, 50.0, 100 / 6)[(j // 3 + rep) % 4]
        fp_unit, f_unit = F_UNITS[(j // 5) % 3], F_UNITS[(j // 5 + (j // 2) % 2 * (1 + j % 2)) % 3]
        ratio = band_ratio(kind, n, side, off)
        case.update(fp=(float(fp_hz / F_UNIT_HZ[fp_unit]), fp_unit),
                    f=(float(sign * ratio * fp_hz / F_UNIT_HZ[f_unit]), f_unit), ratio=label,
                    band='tolerance', via='ctor', form='keyword', offset=[off[0], side * off[1]])
        descr = case_descr(case)
        mon.new_case({'generated': descr, 'class': 'band'})
        before = ctx.n_violations
        ch = built(case)
        side_s = 'below' if side < 0 else 'above'
        sig = ('tolerance band', label, sign, side_s, off[0], off[1])
        ctx.case(('build', *sig))
        ctx.count('tolerance_band_choppers')
        ctx.hit(f'tolerance band: ratio {label}')
        ctx.hit(f'tolerance band: {side_s} by {off[0]} {off[1]:g}')
        ctx.hit('tolerance band: ' + ('clockwise' if sign < 0 else 'anticlockwise'))
        if ch is None:
            ctx.count('tolerance_band:not constructed')
            continue
        fp = sc.scalar(case['fp'][0], unit=case['fp'][1])
        for name in ('time_offset_open', 'time_offset_close', 'open_duration'):
            try:
                getattr(ch, name)(pulse_frequency=fp)
            except Exception:  # noqa: BLE001  (judged by the monitor; acceptance inside the band is not decided)
                ctx.count(f'tolerance_band:{name} refused')
            ctx.case((name, *sig))
        check_state(mon, ctx, ch, 'the computational calls')
        if ctx.n_violations > before:
            ctx.sample(descr)
    # -- every layout DiskChopper accepts for the slit fields, through every entry point
    for j, (lay, via, sign, rc) in enumerate(layout_grid()):
        if (j + rep) % n_sh != me:
            continue
        n = 1 if lay != 'length-n' else 2 + (j + rep) % 5
        case = gen_dim_case(rng_d, ('slit', 'edge', 'x')[(j // 4) % 3], n, sign, rc, j + rep)
        case.update(via=via, layout=lay)
        descr = case_descr(case)
        mon.new_case({'generated': descr, 'class': 'layout'})
        before = ctx.n_violations
        ch = built(case)
        sig = ('slit layout', lay, via, sign, rc)
        ctx.case(('build', *sig))
        ctx.count('slit_layout_choppers')
        ctx.hit(f'slit fields {lay}')
        ctx.hit(f'slit fields {lay} via {via}')
        if ch is None:
            ctx.count('slit_layout:not constructed')
        else:
            try:
                ok_layout = slit_layout(ch) == lay and slit_layout(Frozen(ch)) == lay
            except Exception:  # noqa: BLE001
                ok_layout = False
            if not ok_layout:
                ctx.count('slit_layout:chopper carries another layout')
            drive(case, ch, ctx, Chopper, sig, (1, 2, 3, 4), mon=mon)
        if ctx.n_violations > before:
            ctx.sample(descr)


def run(shard, ctx):
    from scippneutron.chopper import DiskChopper
    from scippneutron.chopper import disk_chopper as dcm
    from scippneutron.tof.chopper_cascade import Chopper

    bad = si.self_test()
    if bad:
        ctx.inconclusive_because('unit table cross-check failed: ' + '; '.join(bad))
        return
    rng = np.random.Generator(np.random.PCG64([shard['seed'], shard['index'], 10]))
    mon = Monitors(ctx)
    tr = Tracer()
    tr.watch(DiskChopper.__post_init__, 'DiskChopper.__post_init__', on_return=mon.on_post_init)
    tr.watch(DiskChopper.__dict__['from_nexus'], 'DiskChopper.from_nexus',
             on_return=mon.on_from_nexus)
    tr.watch(DiskChopper.time_offset_open, 'time_offset_open',
             on_return=lambda ev: mon.on_edge_time('open', ev))
    tr.watch(DiskChopper.time_offset_close, 'time_offset_close',
             on_return=lambda ev: mon.on_edge_time('close', ev))
    tr.watch(DiskChopper.open_duration, 'open_duration', on_return=mon.on_open_duration)
    tr.watch(Chopper.from_disk_chopper, 'from_disk_chopper', on_start=mon.on_cascade_start,
             on_return=mon.on_cascade)
    # diagnosis only (event counts in the evidence): the helpers the property anchors
    tr.watch(DiskChopper.time_offset_angle_at_beam, 'time_offset_angle_at_beam', on_return=mon.on_angle_at_beam)
    for nm in ('_source_phase_factor', '_apply_angle_repetitions'):
        if hasattr(DiskChopper, nm):
            tr.watch(getattr(DiskChopper, nm), nm)
    for nm in ('_check_edges', '_check_edge_overlap', '_get_edges_from_nexus',
               '_is_int_or_inverse_int'):
        if hasattr(dcm, nm):
            tr.watch(getattr(dcm, nm), nm)

    with tr:
        # -- deterministic part of every shard: the forbidden slit sets, class x number of
        #    slits x unit x construction path (only the numbers are drawn from the shard's rng)
        rng_g = np.random.Generator(np.random.PCG64([shard['seed'], shard['index'], 10, 1]))
        for rep in range(int(shard.get('grid_reps', 1))):
            for cls, n, a_unit, via in invalid_grid():
                case = gen_invalid(rng_g, cls, n, a_unit, via)
                descr = case_descr(case)
                mon.new_case({'generated': descr})
                before = ctx.n_violations
                try:
                    ch = build(case, DiskChopper)
                except Exception:  # noqa: BLE001  (judged by the monitors through PY_UNWIND)
                    ch = None
                sig = ('forbidden', cls, n, a_unit, via)
                ctx.case(('build', *sig, case['tiny']))
                ctx.hit(f'forbidden set: {cls}')
                ctx.hit(f'forbidden set via {via}')
                ctx.hit(f'forbidden set with {n} slit(s)')
                ctx.hit(f'forbidden set in {a_unit}')
                if case['tiny']:
                    ctx.hit('forbidden by a tiny amount')
                if ch is not None:
                    # wrongly accepted: whatever it reports is judged as well
                    ctx.count('forbidden_set_accepted_and_driven')
                    drive(case, ch, ctx, Chopper, sig, (1, 2), forbidden=True)
                if ctx.n_violations > before:
                    ctx.sample(descr)
            for cls, a_unit, via in valid_edge_grid(rep + shard['index']):
                case = gen_valid_edge(rng_g, cls, a_unit, via)
                descr = case_descr(case)
                mon.new_case({'generated': descr})
                before = ctx.n_violations
                try:
                    ch = build(case, DiskChopper)
                except Exception:  # noqa: BLE001
                    ch = None
                sig = ('valid_edge', cls, a_unit, via, case['ratio'], case['sign'])
                ctx.case(('build', *sig))
                ctx.hit(f'valid edge set: {cls}')
                if ch is not None and cls in VALID_DRIVEN:
                    drive(case, ch, ctx, Chopper, sig, (1, 2, 3, 4), mon=mon)
                if ctx.n_violations > before:
                    ctx.sample(descr)
            for cls in THRESHOLD_SETS:
                case = gen_threshold(rng_g, cls)
                mon.new_case({'generated': case_descr(case)})
                try:
                    build(case, DiskChopper)
                except Exception:  # noqa: BLE001
                    pass
                ctx.count(f'threshold_set_built:{cls}')
            deterministic_round6(shard, rep, ctx, mon, DiskChopper, Chopper)
            deterministic_round7(shard, rep, ctx, mon, DiskChopper, Chopper)
            deterministic_round8(shard, rep, ctx, mon, DiskChopper, Chopper)
        # -- random part
        rng_f = np.random.Generator(np.random.PCG64([shard['seed'], shard['index'], 10, 2]))
        for i in range(shard['choppers']):
            case = gen_call_forms(rng_f, gen_case(rng, ctx))
            descr = case_descr(case)
            mon.new_case({'generated': descr})
            sig = (case['ratio'], case['sign'], case['band'], case['n_slits'], case['tdc'],
                   case['a_unit'], case['f'][1], case['fp'][1], case['via'],
                   case['dim'] if case['dim'] in DIM_NAMES else 'other name')
            before = ctx.n_violations
            try:
                ch = build(case, DiskChopper)
            except Exception:  # noqa: BLE001  (judged by the monitor through PY_UNWIND)
                ch = None
            ctx.case(('ctor', case['overlap'], *sig))
            if i < 1:
                ctx.sample(descr)
            if ch is None:
                if ctx.n_violations > before:
                    ctx.sample(descr)
                continue
            if case['overlap'] is not None:
                # overlapping set wrongly accepted: whatever it reports is judged as well
                ctx.count('forbidden_set_accepted_and_driven')
                drive(case, ch, ctx, Chopper, ('forbidden', *sig), (1, 2), forbidden=True)
                if ctx.n_violations > before:
                    ctx.sample(descr)
                continue
            if case['via'] == 'replace':
                ctx.hit('valid set via replace')
            if case['tdc'] == 'end>360':
                ctx.hit('slit spans TDC: end>360')
            elif case['tdc'] == 'negative_begin':
                ctx.hit('slit spans TDC: negative begin')
            ctx.hit('clockwise' if case['sign'] < 0 else 'anticlockwise')
            in_phase = case['band'] in ('exact', 'accept')
            if in_phase:
                ctx.hit('sub-harmonic chopper' if case['ratio'].startswith('1/') else
                        'chopper faster than source' if case['ratio'] != '1' else 'ratio 1')
                if case['f'][1] != case['fp'][1]:
                    ctx.hit('chopper and source frequency in different units')
            pulses = (1, 2, 3, 4) if in_phase else (int(rng.integers(1, 5)),)
            hit_call_forms(ctx, case)
            drive(case, ch, ctx, Chopper, sig, pulses, mon=mon)
            if ctx.n_violations > before:
                ctx.sample(descr)
    ctx.extra['hooked_call_counts'] = dict(tr.counts)
    for name in ('DiskChopper.__post_init__', 'DiskChopper.from_nexus', 'time_offset_open',
                 'time_offset_close', 'open_duration', 'from_disk_chopper'):
        if tr.counts.get(name, 0) == 0:
            ctx.inconclusive_because(f'hooked function {name} was never reached')


# ---------------------------------------------------------- known findings ---
def _k(v):
    return v.get('keys') or {}


FINDING_PREDICATES = {
    # _check_edge_overlap sorts by begin and compares neighbours on the real line only
    'disk_chopper.overlap_through_tdc_accepted': lambda v: (
        v['kind'] == 'ctor.overlap_accepted' and _k(v).get('wrap_only') is True),
    # from_disk_chopper copies the (n+1)-rotation single-pulse result once per pulse:
    # for ratio >= 1 the times are right but the boundary rotation is listed twice
    'chopper_cascade.per_pulse_copy_duplicates': lambda v: (
        # (an opening listed twice also overlaps its copy in time)
        v['kind'] in ('cascade_pulsecopy_ge1.duplicate_opening',
                      'cascade_pulsecopy_ge1.overlapping_openings')
        and _k(v).get('per_pulse_copy_of_valid_single_pulse_openings') is True
        and _k(v).get('npulses_gt1') is True and _k(v).get('ratio_class') == 'ge1'),
    # ... and for sub-harmonic choppers a pulse period is not a whole rotation, so the copies
    # land where the disk is closed / is at another slit (and whole-rotation copies repeat)
    'chopper_cascade.per_pulse_copy_subharmonic': lambda v: (
        v['kind'] == 'cascade_pulsecopy_sub.misplaced_openings'
        and set(_k(v).get('checks') or ['?']) <= {
            'closed_inside_interval', 'open_outside_interval', 'duration', 'slit_multiplicity',
            'duplicate_opening', 'missing_opening', 'overlapping_openings'}
        and _k(v).get('per_pulse_copy_of_valid_single_pulse_openings') is True
        and _k(v).get('npulses_gt1') is True and _k(v).get('ratio_class') == 'sub'),
    # offsets (unit of 1/pulse_frequency) + openings (unit of 1/chopper frequency): scipp
    # refuses to add s and ms
    'chopper_cascade.mixed_frequency_units': lambda v: (
        v['kind'] == 'cascade.raised' and _k(v).get('exc') == 'UnitError'
        and _k(v).get('mixed_frequency_units') is True),
}
