"""C05 Inelastic energy transfer conserves energy; NaN exactly for unphysical times."""

from __future__ import annotations

import numpy as np
import scipp as sc

from rv import operands as ops
from rv.oracle import si
from rv.snap import describe
from rv.trace import Tracer

ID = 'C05'
LEVEL = 'exploration'
RULE = (
    'cases = one kernel call (direct or through convert(target=energy_transfer)) on neutrons simulated '
    'forward: (Ei, Ef, L1, L2) log-uniform over 1e-3..1e4 meV / 0.1..1e3 m, t = L1/v(Ei) + L2/v(Ef) rounded to '
    'the tof dtype, plus unphysical times below t0 and a boundary sextuple {t0-2ulp..t0+2ulp, 2 t0} built '
    'from the t0 the code itself computed (observed); plus convert() judged on what it returns: the tof '
    'coordinate as bin edges (N+1) or points, common 1-d / per-pixel 2-d / single spectrum, dense / binned '
    'events next to dense edges / tof-major data / Dataset, ascending and descending, with values below, '
    'exactly at (+-1, 2 ulp) and above the observed t0; distinct = (kernel, energy unit, tof unit, length '
    'units, dtype class, layout, energy decade) signatures'
)
ASSUMPTIONS = [
    'v(E) = sqrt(2E/m_n) with m_n from scipp.constants',
    'mixed precision (one float32 operand) is judged at single-precision accuracy',
]
EN_UNITS = ['meV', 'ueV', 'eV', 'J']
TIME_UNITS = ['us', 'ns', 'ms', 's']
LEN_UNITS = ['m', 'mm', 'cm', 'km']
LEN_UNITS_WIDE = ['m', 'mm', 'cm', 'km', 'angstrom', 'nm']
FLOOR = 1e-11
_C = None


def mn():
    global _C
    if _C is None:
        _C = si.constants()
    return _C['m_n']


def _eps(f32):
    return si.EPS32 if f32 else si.EPS64


def definition(kind, t, L1, L2, E):
    """(t0, dE) in SI long double; fixed leg is (L1, Ei) for direct, (L2, Ef) for indirect."""
    m = mn()
    two = si.LD(2)
    if kind == 'direct':
        t0 = L1 * np.sqrt(m / (two * E))
        other = m * L2**2 / (two * (t - t0) ** 2)
        return t0, E - other, other
    t0 = L2 * np.sqrt(m / (two * E))
    other = m * L1**2 / (two * (t - t0) ** 2)
    return t0, other - E, other


class Monitors:
    def __init__(self, ctx):
        self.ctx = ctx
        self.meta = {}
        self.last_t0 = None
        self.last_args = None
        self.boundary = None  # (t0 values aligned to tof) for the boundary call
        self.convert_kind = None  # geometry of the data the workload hands to convert()

    def t0(self, ev):
        if ev.exc is None:
            self.last_t0 = ev.result

    def kernel(self, kind):
        en_name = 'incident_energy' if kind == 'direct' else 'final_energy'
        name = f'energy_transfer_{kind}_from_tof'

        def h(ev):
            self.last_args = ev.args
            case = {'kernel': name, **self.meta, 'args': {k: describe(v) for k, v in ev.args.items()}}
            if ev.exc is not None:
                self.ctx.violation('raised', f'{name} raised {type(ev.exc).__name__}: {ev.exc}', case, kernel=kind)
                return
            self.judge(name, kind, {n: ev.args[n] for n in ('tof', 'L1', 'L2', en_name)}, ev.result, case)
        return h

    def convert_result(self, ev):
        """What the user sees: the energy_transfer coordinate(s) of the object convert() returned, judged
        against the origin coordinate(s) and the supplied L1 / L2 / fixed energy of the object passed in
        (dense coordinate - bin edges or points - and event coordinate, each on its own)."""
        a = ev.args
        kind = self.convert_kind
        if ev.exc is not None or kind is None or a.get('origin') != 'tof' or a.get('target') != 'energy_transfer':
            return  # an exception is reported by the caller (convert_raised)
        ctx = self.ctx
        data, out = a['data'], ev.result
        en_name = 'incident_energy' if kind == 'direct' else 'final_energy'
        try:
            sup = {n: data.coords[n] for n in ('L1', 'L2', en_name)}
            # transform_coords renames dimensions, never reorders them
            back = {o: d for o, d in zip(out.dims, data.dims, strict=True) if o != d}
            todo = []
            if 'tof' in data.coords:
                tof = data.coords['tof']
                edges = any(tof.sizes[d] == data.sizes[d] + 1 for d in tof.dims)
                todo.append(('dense-edges' if edges else 'dense-points', tof, out.coords))
            if isinstance(data, sc.DataArray) and data.bins is not None and 'tof' in data.bins.coords:
                todo.append(('events', data.bins.coords['tof'], out.bins.coords))
        except Exception:  # noqa: BLE001
            ctx.oracle_error('convert_result')
            return
        for cls, tof, got_coords in todo:
            at = 'convert:' + cls
            case = {'observed': 'result of convert', 'coordinate': cls, **self.meta,
                    'args': {'tof': describe(tof), **{k: describe(v) for k, v in sup.items()}}}
            if 'energy_transfer' not in got_coords:
                ctx.violation('convert_no_target', f'convert returned without energy_transfer ({cls})', case, at=at)
                continue
            try:
                res = got_coords['energy_transfer']
                ren = {o: d for o, d in back.items() if o in res.dims}
                if ren:
                    res = res.rename_dims(ren)
            except Exception:  # noqa: BLE001
                ctx.oracle_error('convert_result')
                continue
            self.judge(f'convert(tof -> energy_transfer, {kind}) {cls}', kind, {'tof': tof, **sup}, res, case,
                       at=at, event='convert_result:' + cls, pre='result:')

    def judge(self, name, kind, a, res, case, at='kernel', event=None, pre=''):
        """One observed (operands, result) pair against the definition; used for kernel returns (at='kernel')
        and for the coordinates of the object convert() returned (at='convert:...')."""
        ctx = self.ctx
        en_name = 'incident_energy' if kind == 'direct' else 'final_energy'
        on_result = at != 'kernel'
        try:
            tof, en = a['tof'], a[en_name]
            f32_cls = ops.elem_dtype(tof) == sc.DType.float32 and ops.elem_dtype(en) == sc.DType.float32
            # precision class of the result (documented: single iff tof AND energy are single)
            any32 = f32_cls
            eps = _eps(any32)
            S = {n: ops.align(a[n], res).astype(si.LD) * si.factor(ops.elem_unit(a[n]))
                 for n in ('tof', 'L1', 'L2', en_name)}
            t0, dE, other = definition(kind, S['tof'], S['L1'], S['L2'], S[en_name])
            fe = si.factor(ops.elem_unit(en))
            got = ops.result_values(res)
            gotl = got.astype(si.LD)
            t = S['tof']
            valid = (np.isfinite(t.astype(np.float64)) & np.isfinite(S['L1'].astype(np.float64))
                     & np.isfinite(S['L2'].astype(np.float64)) & np.isfinite(S[en_name].astype(np.float64))
                     & (S[en_name] > 0))
            n_invalid = int(valid.size - np.count_nonzero(valid))
            if n_invalid:
                ctx.count(pre + 'elements with non-finite inputs (not judged)', n_invalid)
            with np.errstate(invalid='ignore'):
                band = 8 * eps * np.maximum(np.abs(t), t0)
                below = valid & (t < t0 - band)
                above = valid & (t > t0 + band)
            with np.errstate(divide='ignore', invalid='ignore'):
                cond = t / (t - t0)
                # 1e-11: accuracy floor of the unit-converted constants (scipp's to_unit; cf. the bound C01 states)
                tol = (64 * eps + FLOOR) * np.maximum(np.abs(S[en_name]), np.abs(other)) * np.abs(cond) / fe
        except Exception:  # noqa: BLE001
            ctx.oracle_error(name)
            return
        ctx.event(event or name)
        keys = {'kernel': kind} if not on_result else {'kernel': kind, 'at': at}
        want_dtype = sc.DType.float32 if f32_cls else sc.DType.float64
        if ops.elem_unit(res) != ops.elem_unit(en):
            ctx.violation('unit', f'{name}: result unit {ops.elem_unit(res)}, supplied energy in '
                          f'{ops.elem_unit(en)}', case, **keys)
            return
        if ops.elem_dtype(res) != want_dtype:
            ctx.violation('dtype', f'{name}: dtype {ops.elem_dtype(res)} expected {want_dtype}', case, **keys)
            return
        if np.any(np.isinf(got[valid])):
            ctx.violation('infinite', f'{name}: infinite result for finite inputs', case,
                          boundary=self.boundary is not None, **keys)
            return
        if self.boundary is not None:
            # second stage: tof placed around the t0 the code computed itself
            t0c = ops.align(self.boundary, res)
            tv = ops.align(tof, res)
            okb = np.isfinite(t0c)  # a dead pixel has no boundary
            must_nan = tv <= np.where(okb, t0c, 0)
            ctx.count(pre + 'boundary_points', int(np.count_nonzero(okb)))
            if on_result:
                ctx.count(pre + 'points exactly at the observed t0', int(np.count_nonzero(okb & (tv == t0c))))
            wrong = okb & (np.isnan(got) != must_nan)
            if np.any(wrong):
                i = int(np.argmax(wrong))
                ctx.violation('nan_boundary', f'{name}: tof {np.ravel(tv)[i]!r} vs t0 {np.ravel(t0c)[i]!r}: '
                              f'result {np.ravel(got)[i]!r}', case,
                              at_t0=bool(np.ravel(tv)[i] == np.ravel(t0c)[i]), **keys)
                return
            if not on_result:
                return
        nb, na = int(np.count_nonzero(below)), int(np.count_nonzero(above))
        ctx.count(pre + 'decided:below t0', nb)
        ctx.count(pre + 'decided:above t0', na)
        ctx.count(pre + 'undecided:within 8 ulp of t0', int(np.count_nonzero(valid) - nb - na))
        if np.any(~np.isnan(got[below])):
            ctx.violation('not_nan_below_t0', f'{name}: finite result for arrival before the fixed leg '
                          'could be flown', case, **keys)
            return
        if np.any(np.isnan(got[above])):
            ctx.violation('nan_above_t0', f'{name}: NaN for a physical arrival time', case, **keys)
            return
        if na:
            frac = np.abs(gotl[above] - (dE[above] / fe)) / tol[above]
            worst = float(np.max(frac))
            ctx.dev(f'{pre}{kind}.{"f32" if any32 else "f64"}: error as fraction of bound (64 eps + 1e-11) max(E) t/(t-t0)', worst)
            if worst > 1:
                i = int(np.argmax(frac))
                ctx.violation('value', f'{name}: energy transfer off by {worst:.3g} x the bound '
                              f'(64 eps + 1e-11) max(E) t/(t-t0)',
                              dict(case, got=repr(gotl[above][i]), expected=repr((dE[above] / fe)[i])),
                              **keys)


# ------------------------------------------------------------ generator ---
def v_of(E):
    return np.sqrt(si.LD(2) * E / mn())


def f32_domain_ok(kind, units, L1_u, L2_u, Efix_u, t_u):
    """All-float32 evaluation is only judged where the quantities any single-precision evaluation of the
    documented formula has to hold are normal float32 numbers: the inputs, the folded constant of the
    fixed leg and its quotient with the fixed energy, t0, the scale m L^2/2 of the free leg (in energy x
    time^2 units), t - t0 and its square, and the result."""
    ue, ut, ul1, ul2 = units
    fe, ft = si.factor(sc.Unit(ue)), si.factor(sc.Unit(ut))
    f1, f2 = si.factor(sc.Unit(ul1)), si.factor(sc.Unit(ul2))
    m = mn()
    Lfix_u, ffix, Lfree_u, ffree = (L1_u, f1, L2_u, f2) if kind == 'direct' else (L2_u, f2, L1_u, f1)
    Lfix_u = np.asarray(Lfix_u, dtype=si.LD)
    Lfree_u = np.asarray(Lfree_u, dtype=si.LD)
    E = np.asarray(Efix_u, dtype=si.LD)
    t = np.asarray(t_u, dtype=si.LD)
    c_fixed = (m / 2) / fe * (ffix / ft) ** 2
    ratio = c_fixed / E
    t0 = (Lfix_u * np.sqrt(ratio)).reshape(-1, 1) if np.ndim(t) == 2 else Lfix_u * np.sqrt(ratio)
    K = ((m / 2) / fe * (ffree / ft) ** 2) * Lfree_u**2
    with np.errstate(all='ignore'):
        delta = np.abs(t - t0)
        delta = delta[delta > 0]
        other = (np.max(K) / np.min(delta) ** 2) if delta.size else si.LD(1)
        other_lo = (np.min(K) / np.max(delta) ** 2) if delta.size else si.LD(1)
    qs = [c_fixed, ratio, t0, K, Lfree_u**2, Lfix_u, E, t, delta, delta**2, other, other_lo]
    lo, hi = si.LD('1e-30'), si.LD('1e30')
    for q in qs:
        q = np.abs(np.asarray(q, dtype=si.LD)).ravel()
        q = q[q > 0]
        if q.size and (np.min(q) < lo or np.max(q) > hi):
            return False
    return True


def gen(rng, ctx, kind, layout, f32, units):
    """Simulate neutrons; returns kwargs for the kernel and the simulated truth."""
    ue, ut, ul1, ul2 = units
    fe, ft = float(si.lookup(sc.Unit(ue))[0]), float(si.lookup(sc.Unit(ut))[0])
    fl1, fl2 = float(si.lookup(sc.Unit(ul1))[0]), float(si.lookup(sc.Unit(ul2))[0])
    meV = float(si.lookup(sc.Unit('meV'))[0])
    npix = 1 if layout == 'scalar' else int(rng.integers(1, 8))
    nt = 1 if layout == 'scalar' else int(rng.integers(1, 25))
    dt = 'float32' if f32 else 'float64'
    per_pixel_L1 = layout in ('2d', 'binned') and rng.random() < 0.25
    L1 = 10.0 ** rng.uniform(-1, 3, size=npix) if per_pixel_L1 else np.full(npix, 10.0 ** rng.uniform(-1, 3))
    L2 = 10.0 ** rng.uniform(-1, 3, size=npix)
    Efix = 10.0 ** rng.uniform(-3, 4, size=1 if kind == 'direct' else npix) * meV
    Eother = 10.0 ** rng.uniform(-3, 4, size=(npix, nt)) * meV
    # what the code will see: rounded operands in their units
    r = np.float32 if f32 else np.float64
    L1_u = (L1 / fl1).astype(r)
    L2_u = (L2 / fl2).astype(r)
    Efix_u = (Efix / fe).astype(r)
    # a dead pixel: one entry of a per-pixel fixed-leg input is NaN (spectra without a fixed energy or without a
    # detector position are loaded like that); it must not affect the other pixels, and is itself not judged
    dead = None
    if layout in ('2d', 'binned') and npix > 1 and rng.random() < 0.15:
        dead = int(rng.integers(0, npix))
        if kind == 'indirect':
            Efix_u = Efix_u.copy()
            Efix_u[dead] = np.nan
        elif per_pixel_L1:
            L1_u = L1_u.copy()
            L1_u[dead] = np.nan
        else:
            dead = None
        if dead is not None:
            ctx.hit('dead pixel (NaN fixed-leg input)')
    L1s, L2s, Efs = L1_u.astype(si.LD) * si.LD(fl1), L2_u.astype(si.LD) * si.LD(fl2), Efix_u.astype(si.LD) * si.LD(fe)
    if kind == 'direct':
        t = (L1s / v_of(Efs))[:, None] + L2s[:, None] / v_of(Eother.astype(si.LD))
    else:
        t = L1s[:, None] / v_of(Eother.astype(si.LD)) + (L2s / v_of(Efs))[:, None]
    t_u = (t / si.LD(ft)).astype(np.float64)
    t_u = np.where(np.isfinite(t_u), t_u, 1000.0)
    # unphysical and near-boundary arrivals
    t0 = (L1s / v_of(Efs))[:, None] if kind == 'direct' else (L2s / v_of(Efs))[:, None]
    t0_u = (t0 / si.LD(ft)).astype(np.float64) * np.ones_like(t_u)
    t0_u = np.where(np.isfinite(t0_u), t0_u, 500.0)
    sel = rng.random(size=t_u.shape)
    t_u = np.where(sel < 0.15, t0_u * rng.uniform(0.05, 0.999, size=t_u.shape), t_u)
    t_u = np.where((sel >= 0.15) & (sel < 0.2), t0_u * (1 + 10.0 ** rng.uniform(-6, -2, size=t_u.shape)), t_u)
    ctx.hit('tof below t0')
    if f32 and not f32_domain_ok(kind, units, L1_u, L2_u, Efix_u, t_u):
        ctx.count('out of the float32 domain (extreme units): regenerated')
        return None, None
    if f32 and (units[2] in ('angstrom', 'nm') or units[3] in ('angstrom', 'nm') or units[0] == 'J' or units[1] == 's'):
        ctx.hit('float32 with extreme units inside the domain')
    mixed = None
    tof_dt = dt
    if not f32 and rng.random() < 0.12:
        tof_dt = 'int64'
        t_u = np.maximum(np.rint(t_u), 1)
    en_dt = dt
    if f32 and rng.random() < 0.25:
        mixed = 'tof64_energy32' if rng.random() < 0.5 else 'tof32_energy64'
        tof_dt, en_dt = ('float64', 'float32') if mixed == 'tof64_energy32' else ('float32', 'float64')
    kw = {}
    if layout == 'scalar':
        kw['tof'] = sc.scalar(t_u[0, 0].item(), unit=ut, dtype=tof_dt)
        kw['L2'] = sc.scalar(L2_u[0].item(), unit=ul2, dtype=dt)
        efv = sc.scalar(Efix_u[0].item(), unit=ue, dtype=en_dt)
    elif layout == 'binned':
        sizes = rng.integers(0, nt + 1, size=npix)
        vals = np.concatenate([t_u[p, :sizes[p]] for p in range(npix)]) if sizes.sum() else np.zeros(0)
        kw['tof'] = ops.make_binned(vals.astype(tof_dt), sizes, ['pixel'], (npix,), ut, dtype=tof_dt)
        kw['L2'] = sc.array(dims=['pixel'], values=L2_u, unit=ul2, dtype=dt)
        efv = (sc.scalar(Efix_u[0].item(), unit=ue, dtype=en_dt) if kind == 'direct'
               else sc.array(dims=['pixel'], values=Efix_u, unit=ue, dtype=en_dt))
    else:
        kw['tof'] = sc.array(dims=['pixel', 'tof'], values=t_u, unit=ut, dtype=tof_dt)
        if layout == 'common_tof':
            kw['tof'] = kw['tof']['pixel', 0].copy()
        kw['L2'] = sc.array(dims=['pixel'], values=L2_u, unit=ul2, dtype=dt)
        efv = (sc.scalar(Efix_u[0].item(), unit=ue, dtype=en_dt) if kind == 'direct'
               else sc.array(dims=['pixel'], values=Efix_u, unit=ue, dtype=en_dt))
    if per_pixel_L1:
        kw['L1'] = sc.array(dims=['pixel'], values=L1_u, unit=ul1, dtype=dt)
        ctx.hit('per-pixel L1')
    else:
        kw['L1'] = sc.scalar(L1_u[0].item(), unit=ul1, dtype=dt)
    kw['incident_energy' if kind == 'direct' else 'final_energy'] = efv
    dec = int(np.floor(np.log10(float(Efix[0] / meV))))
    sig = (kind, ue, ut, ul1, ul2, dt if mixed is None else mixed, tof_dt, layout, dec)
    return kw, sig


def boundary_call(rng, ctx, K, mon, kind, kw):
    """Second stage: tof at the t0 the code computed, +-1, +-2 ulp and 2 t0."""
    t0 = mon.last_t0
    if t0 is None or ops.is_binned(kw['tof']):
        return
    tof = kw['tof']
    tdt = tof.dtype
    if tdt not in (sc.DType.float64, sc.DType.float32) or t0.dtype != tdt:
        return  # mixed / integer tof: the subtraction tof - t0 is not in the tof dtype
    t0v = np.asarray(t0.values)
    npt = np.float32 if tdt == sc.DType.float32 else np.float64
    t0v = t0v.astype(npt)
    inf = npt(np.inf)
    cols = [np.nextafter(np.nextafter(t0v, -inf), -inf), np.nextafter(t0v, -inf), t0v,
            np.nextafter(t0v, inf), np.nextafter(np.nextafter(t0v, inf), inf), 2 * t0v]
    arr = np.stack(cols, axis=-1)
    dims = [*list(t0.dims), 'tof']
    kw2 = dict(kw)
    kw2['tof'] = sc.array(dims=dims, values=arr, unit=tof.unit, dtype=tdt)
    if t0.unit != tof.unit:
        return
    t0_full = sc.array(dims=dims, values=np.repeat(t0v[..., None], 6, axis=-1), unit=tof.unit, dtype=tdt)
    try:
        mon.boundary = t0_full
        getattr(K, f'energy_transfer_{kind}_from_tof')(**kw2)
        ctx.hit('boundary sextuple')
    finally:
        mon.boundary = None


ALIGNMENT_STATES = ('aligned', 'fixed energy unaligned', 'all supplied unaligned', 'integer slice of a run dimension')


def insitu(rng, ctx, scn, kind, mon=None, i=0):
    """convert(..., target='energy_transfer') on a data array; the monitors see the kernel call."""
    kw, sig = gen(rng, ctx, kind, 'binned' if rng.random() < 0.5 else '2d', False,
                  ('meV', 'us', 'm', 'm'))
    en = 'incident_energy' if kind == 'direct' else 'final_energy'
    coords = {'L1': kw['L1'], 'L2': kw['L2'], en: kw[en]}
    tof = kw['tof']
    if ops.is_binned(tof):
        c = tof.bins.constituents
        ev = sc.DataArray(sc.ones(dims=['event'], shape=[c['data'].sizes['event']], unit='counts'),
                          coords={'tof': c['data']})
        da = sc.DataArray(sc.bins(begin=c['begin'], end=c['end'], dim='event', data=ev), coords=coords)
    else:
        da = sc.DataArray(sc.ones(dims=tof.dims, shape=tof.shape), coords={**coords, 'tof': tof})
    # A supplied coordinate counts whatever its alignment flag says: scipp marks coordinates unaligned when a
    # dimension they depend on is sliced with an integer index and when an earlier conversion consumed them.
    state = ALIGNMENT_STATES[(i // 2) % len(ALIGNMENT_STATES)]
    ctx.hit('convert input: ' + state)
    if state == 'fixed energy unaligned':
        da.coords.set_aligned(en, False)
    elif state == 'all supplied unaligned':
        for nm in ('L1', 'L2', en):
            da.coords.set_aligned(nm, False)
    elif state == 'integer slice of a run dimension':
        # two runs with their own fixed energy; the run that is looked at is the one generated above
        other = da.copy()
        other.coords[en] = da.coords[en] * 1.5
        both = sc.concat([other, da], 'run')
        da = both['run', 1].copy()
        if da.coords[en].aligned and 'run' not in kw[en].dims:
            ctx.count('slice left the fixed energy aligned')
    # positions that contradict the supplied L1/L2 (the real flight path of an indirect spectrometer is not the
    # straight line): the supplied lengths must win, also when an earlier conversion already consumed them
    npx = kw['L2'].sizes.get('pixel', 1)
    if mon is not None:
        mon.convert_kind = kind
    two_step = mon is not None and 'pixel' in kw['L2'].dims and rng.random() < 0.5
    if two_step:
        da.coords['source_position'] = sc.vector([0.0, 0.0, -3.0], unit='m')
        da.coords['sample_position'] = sc.vector([0.0, 0.0, 0.0], unit='m')
        da.coords['position'] = sc.vectors(dims=['pixel'], values=rng.normal(size=(npx, 3)) + [0, 0, 2.0], unit='m')
        first = scn.convert(da, 'tof', 'wavelength', scatter=True)
        mon.last_args = None
        out = scn.convert(first, 'tof', 'energy_transfer', scatter=True)
        ctx.event('two_step_convert')
        la = mon.last_args
        if la is not None:
            for nm in ('L1', 'L2'):
                if not np.array_equal(np.asarray(la[nm].values), np.asarray(kw[nm].values), equal_nan=True) or la[nm].unit != kw[nm].unit:
                    ctx.violation('supplied_length_replaced', f'energy transfer after an earlier conversion was computed '
                                  f'with a {nm} different from the one supplied on the data', {'kind': kind, 'coord': nm},
                                  coord=nm)
    else:
        out = scn.convert(da, 'tof', 'energy_transfer', scatter=True)
    has = 'energy_transfer' in (out.bins.coords if ops.is_binned(tof) else out.coords)
    if not has:
        ctx.violation('convert_no_target', 'convert returned without energy_transfer', {'kind': kind})
    return ('convert', *sig)


# ---------------------------------------------- what convert() hands back ---
# Every way scipp lets the origin coordinate sit on the data: bin edges (N+1 values for N bins) or points,
# one coordinate for all pixels or one row per pixel, a single spectrum, data stored tof-major, a Dataset,
# and binned events that carry their own tof next to the dense edge coordinate.
RESULT_CLASSES = (
    ('edges', 'common 1-d', 'dense'),
    ('edges', 'per-pixel 2-d', 'dense'),
    ('edges', 'single spectrum', 'dense'),
    ('points', 'common 1-d', 'dense'),
    ('points', 'per-pixel 2-d', 'dense'),
    ('points', 'single spectrum', 'dense'),
    ('edges', 'common 1-d', 'binned events'),
    ('edges', 'per-pixel 2-d', 'binned events'),
    ('edges', 'per-pixel 2-d', 'tof-major data'),
    ('edges', 'common 1-d', 'dataset'),
    ('points', 'per-pixel 2-d', 'dataset'),
)
PROBE_UNITS = (('meV', 'us', 'm', 'm'), ('meV', 'us', 'm', 'm'), ('eV', 'ms', 'm', 'cm'), ('ueV', 'ns', 'mm', 'm'),
               ('J', 's', 'km', 'm'), ('meV', 'ms', 'cm', 'mm'))


def result_class_name(c):
    return 'convert result: tof ' + ', '.join(c)


def _convert(ctx, scn, mon, da):
    try:
        scn.convert(da, 'tof', 'energy_transfer', scatter=True)
    except Exception as e:  # noqa: BLE001  no exception is allowed for finite-or-NaN inputs of a known geometry
        ctx.violation('convert_raised', f'convert raised {type(e).__name__}: {e}', dict(mon.meta),
                      family='convert result')
        return False
    return True


def result_probe(rng, ctx, scn, mon, kind, j):
    """convert(..., 'tof', 'energy_transfer') judged on what it returns.

    Stage 1 converts the simulated arrival times as a per-pixel point coordinate; the t0 helper is observed.
    Stage 2 puts, into the coordinate layout of the class, per row: a negative time, zero, a time inside the
    fixed leg, {t0-2ulp .. t0+2ulp, 2 t0} of the observed t0, and the simulated arrival times, in ascending
    order (a histogram's edges; every third pass in descending order)."""
    cls = RESULT_CLASSES[(j // 2) % len(RESULT_CLASSES)]
    coordkind, shape, container = cls
    f32 = (j // (2 * len(RESULT_CLASSES))) % 3 == 2
    units = ('meV', 'us', 'm', 'm') if f32 else PROBE_UNITS[int(rng.integers(0, len(PROBE_UNITS)))]
    kw = None
    for _attempt in range(20):
        kw, sig = gen(rng, ctx, kind, '2d', f32, units)
        if kw is not None:
            break
    if kw is None:
        ctx.count('result probe: no input inside the float32 domain')
        return None
    en = 'incident_energy' if kind == 'direct' else 'final_energy'
    tof = kw['tof']
    npix, nt = tof.shape
    mon.convert_kind = kind
    mon.meta = {'family': 'convert result', 'class': list(cls), 'units': list(units), 'f32': f32,
                'order': 'descending' if (j // (2 * len(RESULT_CLASSES))) % 3 == 1 else 'ascending'}
    # stage 1
    mon.last_t0 = None
    da1 = sc.DataArray(sc.ones(dims=tof.dims, shape=tof.shape, unit='counts'),
                       coords={'tof': tof, 'L1': kw['L1'], 'L2': kw['L2'], en: kw[en]})
    if not _convert(ctx, scn, mon, da1):
        return None
    t0 = mon.last_t0
    if t0 is None or t0.unit != tof.unit or not set(t0.dims) <= {'pixel'}:
        ctx.count('result probe: no usable t0 observed')
        return None
    exact = t0.dtype == tof.dtype and tof.dtype in (sc.DType.float64, sc.DType.float32)
    npt = (np.float64 if tof.dtype == sc.DType.float64 else np.float32 if tof.dtype == sc.DType.float32 else np.int64)
    fl = npt if exact else np.float64
    t0v = np.broadcast_to(np.asarray(t0.values).astype(fl), (npix,)).copy()
    t0c = np.where(np.isfinite(t0v), t0v, fl(500.0))  # dead pixel: no boundary, any time will do
    inf = fl(np.inf)
    dn1, up1 = np.nextafter(t0c, -inf), np.nextafter(t0c, inf)
    cols = [-t0c * fl(rng.uniform(0.01, 3.0)), np.zeros_like(t0c), t0c * fl(rng.uniform(0.05, 0.999)),
            np.nextafter(dn1, -inf), dn1, t0c, up1, np.nextafter(up1, inf), 2 * t0c]
    tv = np.asarray(tof.values)
    with np.errstate(invalid='ignore'):
        rows = np.concatenate([np.stack(cols, axis=-1).astype(np.float64), tv.astype(np.float64)], axis=1)
        rows = np.rint(rows).astype(npt) if npt is np.int64 else rows.astype(npt)
    rows = np.sort(rows, axis=1)
    descending = (j // (2 * len(RESULT_CLASSES))) % 3 == 1
    if descending:  # scipp accepts edges in either monotonic order
        rows = rows[:, ::-1].copy()
        ctx.hit('convert result: coordinate in descending order')
    nrow = rows.shape[1]
    n = nrow - 1 if coordkind == 'edges' else nrow
    ut = tof.unit
    single = shape == 'single spectrum'
    if shape == 'per-pixel 2-d':
        coord = sc.array(dims=['pixel', 'tof'], values=rows, unit=ut, dtype=tof.dtype)
    else:
        coord = sc.array(dims=['tof'], values=rows[0], unit=ut, dtype=tof.dtype)
    sup = {'L1': kw['L1'], 'L2': kw['L2'], en: kw[en]}
    if single:
        sup = {k: (v['pixel', 0].copy() if 'pixel' in v.dims else v) for k, v in sup.items()}
    ddims, dshape = (['tof'], [n]) if single else (['pixel', 'tof'], [npix, n])
    if container == 'binned events':
        # events of a bin sit on its left edge (inclusive) or in its middle: events exactly at t0 exist
        lo = rows[:, :-1] if shape == 'per-pixel 2-d' else np.broadcast_to(rows[0, :-1], (npix, n))
        hi = rows[:, 1:] if shape == 'per-pixel 2-d' else np.broadcast_to(rows[0, 1:], (npix, n))
        mid = ((lo // 2 + hi // 2) if npt is np.int64 else (lo + (hi - lo) / 2)).astype(npt)
        sizes = rng.integers(0, 3, size=(npix, n))
        vals = []
        for p in range(npix):
            for b in range(n):
                k = int(sizes[p, b])
                if k:
                    vals.append(np.where(rng.random(k) < 0.6, lo[p, b], mid[p, b]))
        vals = np.concatenate(vals) if vals else np.zeros(0)
        end = np.cumsum(sizes.ravel()).reshape(npix, n)
        evs = sc.DataArray(sc.ones(dims=['event'], shape=[int(sizes.sum())], unit='counts'),
                           coords={'tof': sc.array(dims=['event'], values=vals.astype(npt), unit=ut, dtype=tof.dtype)})
        data = sc.bins(begin=sc.array(dims=ddims, values=end - sizes, unit=None, dtype='int64'),
                       end=sc.array(dims=ddims, values=end, unit=None, dtype='int64'), dim='event', data=evs)
    else:
        data = sc.ones(dims=ddims, shape=dshape, unit='counts')
    da = sc.DataArray(data, coords={'tof': coord, **sup})
    if container == 'tof-major data':
        da = da.transpose(['tof', 'pixel']).copy()
    elif container == 'dataset':
        da = sc.Dataset({'sample': da, 'vanadium': da * sc.scalar(2.0)})
    try:
        if exact:
            mon.boundary = t0['pixel', 0].copy() if (single and 'pixel' in t0.dims) else t0
        if not _convert(ctx, scn, mon, da):
            return None
    finally:
        mon.boundary = None
    ctx.hit(result_class_name(cls))
    if exact:
        ctx.hit('convert result: coordinate value exactly at the observed t0')
    else:
        ctx.count('result probe: tof not in the dtype of t0 (no exact boundary; 8-ulp band only)')
    dec = sig[-1]
    return ('convert result', kind, *cls, *units, str(tof.dtype), dec)



LAYOUTS = ['scalar', '2d', 'binned', 'common_tof']


def plan(tier, seed):
    n = 16
    return [{'cases': 1000 if tier == 'quick' else 20000, 'insitu': 60 if tier == 'quick' else 1500,
             'result_probes': 66 if tier == 'quick' else 1320}
            for _ in range(n)]


def requirements(tier):
    return {'events': {'energy_transfer_direct_from_tof': 100, 'energy_transfer_indirect_from_tof': 100,
                       'convert_result:dense-edges': 200, 'convert_result:dense-points': 200,
                       'convert_result:events': 100},
            'forced': ['tof below t0', 'boundary sextuple', 'per-pixel L1',
                       'float32 with extreme units inside the domain', 'dead pixel (NaN fixed-leg input)']
            + ['convert input: ' + a for a in ALIGNMENT_STATES]
            + [result_class_name(c) for c in RESULT_CLASSES]
            + ['convert result: coordinate value exactly at the observed t0',
               'convert result: coordinate in descending order'],
            'counters': {'boundary_points': 500, 'decided:below t0': 200, 'decided:above t0': 2000,
                         'convert_calls': 10, 'result:boundary_points': 2000,
                         'result:points exactly at the observed t0': 200,
                         'result:decided:below t0': 1000, 'result:decided:above t0': 2000},
            }


def run(shard, ctx):
    import scippneutron as scn
    from scippneutron.conversion import tof as K

    rng = np.random.Generator(np.random.PCG64([shard['seed'], shard['index'], 5]))
    mon = Monitors(ctx)
    tr = Tracer()
    tr.watch(K._energy_transfer_t0, '_energy_transfer_t0', on_return=mon.t0)
    tr.watch(K.energy_transfer_direct_from_tof, 'direct', on_return=mon.kernel('direct'))
    tr.watch(K.energy_transfer_indirect_from_tof, 'indirect', on_return=mon.kernel('indirect'))
    tr.watch(scn.convert, 'convert', on_return=mon.convert_result)
    with tr:
        for i in range(shard['cases']):
            kind = 'direct' if i % 2 == 0 else 'indirect'
            layout = LAYOUTS[rng.integers(0, len(LAYOUTS))]
            f32 = rng.random() < 0.3
            kw = None
            for _attempt in range(20):
                lens = LEN_UNITS_WIDE if rng.random() < 0.5 else LEN_UNITS
                units = (EN_UNITS[rng.integers(0, 4)], TIME_UNITS[rng.integers(0, 4)],
                         lens[rng.integers(0, len(lens))], lens[rng.integers(0, len(lens))])
                if f32 and _attempt == 0 and rng.random() < 0.3:
                    # extreme but legitimate combination: SI energy and time, microscopic unit for the free leg
                    free = ['angstrom', 'nm'][rng.integers(0, 2)]
                    fixed = ['m', 'cm'][rng.integers(0, 2)]
                    units = ('J', 's', fixed, free) if kind == 'direct' else ('J', 's', free, fixed)
                kw, sig = gen(rng, ctx, kind, layout, f32, units)
                if kw is not None:
                    break
            if kw is None:
                continue
            mon.meta = {'layout': layout, 'units': units, 'f32': f32}
            mon.last_t0 = None
            before = ctx.n_violations
            try:
                getattr(K, f'energy_transfer_{kind}_from_tof')(**kw)
            except Exception:  # noqa: BLE001 judged via PY_UNWIND
                pass
            else:
                try:
                    boundary_call(rng, ctx, K, mon, kind, kw)
                except Exception as e:  # noqa: BLE001
                    ctx.violation('raised', f'boundary call raised {type(e).__name__}: {e}',
                                  {'kind': kind, **mon.meta}, kernel=kind)
            ctx.case(sig, trivial=(layout == 'scalar' and units == ('J', 's', 'm', 'm') and not f32))
            if i < 2 or (ctx.n_violations > before and len(ctx.samples) < 6):
                ctx.sample({'signature': sig, 'args': {k: describe(v) for k, v in kw.items()}})
        mon.meta = {'family': 'convert'}
        for i in range(shard['insitu']):
            try:
                ctx.case(insitu(rng, ctx, scn, 'direct' if i % 2 == 0 else 'indirect', mon, i))
                ctx.count('convert_calls')
            except Exception as e:  # noqa: BLE001
                ctx.violation('convert_raised', f'convert raised {type(e).__name__}: {e}', {'family': 'convert'})
        for j in range(shard.get('result_probes', 0)):
            try:
                sig = result_probe(rng, ctx, scn, mon, 'direct' if j % 2 == 0 else 'indirect', j)
                if sig is not None:
                    ctx.case(sig)
                    ctx.count('convert_result_probes')
            except Exception:  # noqa: BLE001  the harness itself (convert's exceptions are judged in _convert)
                ctx.oracle_error('result_probe')
            finally:
                mon.boundary = None


TECHNIQUE = ('runtime monitors (sys.monitoring) on both inelastic kernels, the t0 helper and the object convert() '
             'returns; forward flight-time simulation of neutrons as reference; NaN-boundary probe built from the '
             'observed t0')
LEVEL_TEXT = ('exploration: neutrons are simulated forward (Ei, Ef, L1, L2 -> arrival time) and every observed '
              'kernel return (direct, indirect, through convert) must give Ei-Ef in the supplied energy unit within '
              'the conditioning bound 64 eps max(E) t/(t-t0); NaN/finite is decided on both sides of t0 (8-ulp '
              'undecided band) and exactly at, 1 and 2 ulp around the t0 the code itself computed; no infinity '
              'anywhere. The same judgement is applied to the energy_transfer coordinates (dense bin edges / points '
              'and event coordinate) of every object convert() returned. Sampled inputs, not a proof.')
LEVEL_NOTE = 'trusted: numpy long double, independent SI table, scipp containers, m_n from scipp.constants'
DESIGN_REF = 'DESIGN.md section 4, C05'
